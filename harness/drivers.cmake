# Helpers for conformance drivers.  Each engine has its own fragment drivers/<engine>.cmake,
# picked up by the glob at the end (CONFIGURE_DEPENDS: a new fragment re-runs cmake).
# Drivers read commands/vectors on stdin and print observations.

# driver linking the votca tools+csg libraries built from VERIF_REPO
function(verif_driver name)
  add_executable(${name} ${ARGN})
  target_include_directories(${name} PRIVATE ${D})
  target_link_libraries(${name} PRIVATE VOTCA::votca_csg VOTCA::votca_tools)
endfunction()

# xtp cannot be built as a whole here (no libint/libxc/ecpint).  Individual xtp sources
# that compile stand-alone are compiled INTO the driver:
#   verif_xtp_driver(drv_x ${D}/x.cc ${XTP_SRC}/job.cc ...)
set(XTP_SRC ${VERIF_REPO}/xtp/src/libxtp)
set(PROJECT_VERSION "verif")
set(PROJECT_CONTACT "verif")
configure_file(${VERIF_REPO}/xtp/include/votca/xtp/votca_xtp_config.h.in
               ${CMAKE_BINARY_DIR}/xtpcfg/votca_xtp_config.h)
configure_file(${VERIF_REPO}/xtp/include/votca/xtp/votca_xtp_config.h.in
               ${CMAKE_BINARY_DIR}/xtpcfg/votca/xtp/votca_xtp_config.h)
find_package(Boost 1.71.0 REQUIRED COMPONENTS program_options filesystem system regex timer)
find_package(Threads REQUIRED)
find_package(HDF5 COMPONENTS CXX)
find_package(OpenMP)
function(verif_xtp_driver name)
  add_executable(${name} ${ARGN})
  target_include_directories(${name} PRIVATE ${D} ${VERIF_REPO}/xtp/include ${VERIF_REPO}/xtp/include/votca/xtp
    ${CMAKE_BINARY_DIR}/xtpcfg ${HDF5_INCLUDE_DIRS} ${VERIF_REPO}/xtp/src/libxtp)
  target_link_libraries(${name} PRIVATE VOTCA::votca_tools ${HDF5_LIBRARIES} Boost::filesystem Boost::system Boost::timer Threads::Threads)
  if(OpenMP_CXX_FOUND)
    target_link_libraries(${name} PRIVATE OpenMP::OpenMP_CXX)
  endif()
endfunction()

# compile a driver (and the repo sources listed with it) with assertions and sanitizers on
function(verif_sanitize name)
  target_compile_options(${name} PRIVATE -UNDEBUG -O1 -fsanitize=address,undefined
    -fno-sanitize-recover=undefined -D_GLIBCXX_ASSERTIONS -DEIGEN_MALLOC_ALREADY_ALIGNED=1
    -include ${D}/verif_eigen_assert.h)
  target_link_options(${name} PRIVATE -fsanitize=address,undefined)
endfunction()

file(GLOB _frags CONFIGURE_DEPENDS ${D}/*.cmake)
foreach(f ${_frags})
  include(${f})
endforeach()
