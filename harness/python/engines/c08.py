"""C08 - trajectory, topology and table files survive a write/read round trip.
spec/trajio: TrajIO (mode H: writer -> file -> reader channel with a per-format capability
table), Tables (Table / IMC matrix / dS / index vectors), XmlTop (flattening of an XML topology),
Chain (a -> b -> a conversions with the csg_map executable, thorough tier)."""
import os
import shutil
import subprocess
import vlib

MANIFEST = dict(
    engine="trajio", design_ref="DESIGN.md 5/C08",
    technique="TLA+ history spec of writer/file/reader with a capability table per format, model-checked with "
              "TLC; every exported call history (open/write/close/open/first/next.../close, topology read, "
              "bead-count mismatch) replayed into TrjWriterFactory/TrjReaderFactory/TopReaderFactory objects of "
              "the real libvotca_csg; Table/imcio/XML-topology vectors enumerated by TLC and replayed",
    text="TLC enumerates all call histories up to the configured number of frames/files for gro, lammps dump, "
         "xyz, pdb, dlpoly HISTORY/CONFIG with lattice payloads spanning each format's field width; frame order, "
         "count, end-of-file behaviour, bead count, positions/velocities/forces/box (incl. off-diagonals where the "
         "format stores them), names/types, and the error on a bead-count mismatch are compared after every call; "
         "tables with flags and error column, IMC matrices of all shapes up to 4x5, dS vectors, index ranges and "
         "XML topologies are written and read back through the library.",
    note="Trusted: TLC, the decimal-lattice argument (payloads are exact multiples of the printed quantum), the "
         "text driver protocol. Capability table = what the format as implemented stores (dump: no tilt, pdb/xyz: "
         "no box). Not covered: gromacs trr/xtc/tpr, h5md, lammps data, dlpoly FIELD, names longer than the field.")

REL = 1e-13


def dec(k, e):
    """exact decimal text of k * 10^-e"""
    s = str(abs(int(k))).rjust(e + 1, "0")
    txt = s[:len(s) - e] + ("." + s[len(s) - e:] if e > 0 else "")
    return ("-" if k < 0 else "") + txt


def val(k, e):
    return float(dec(k, e))


def same(a, b, rel=REL, abs_=0.0):
    if a is None or b is None:
        return False
    return abs(a - b) <= abs_ + rel * max(abs(a), abs(b))


# ------------------------------------------------------------------------------------------
# part 1: trajectory histories
# ------------------------------------------------------------------------------------------

_SRC = {"new": 0, "reader": 1, "top": 2}
# pseudo-formats of the capability table -> file extension (= factory key)
_EXT = {"pdbx": "pdb", "h5": "h5", "h5s": "h5", "h5a": "h5", "h5ta": "h5"}
# layout of the generated H5MD file: box time-dependent or not, lengths in Angstrom with units module
_H5MODE = {"h5": "timedep 0", "h5s": "static 0", "h5a": "static 1", "h5ta": "timedep 1"}


def _wopen_cmds(rec, path, app=False, reuse=False):
    pre = ["h5mode " + _H5MODE[rec["fmt"]]] if rec["fmt"] in _H5MODE else []
    return pre + ["wopen %s %d %d" % (path, 1 if app else 0, 1 if reuse else 0)]


def _txt(k, e, div):
    """decimal text of k * 10^-e / div (div > 1: 17 significant digits, not on the text lattice)"""
    return dec(k, e) if div == 1 else repr(val(k, e) / div)


def _frame_cmd(rec, fr):
    u = rec["units"]
    d = fr.get("div", 1)
    parts = ["frame", str(fr["step"]), dec(fr.get("time", 0), 3), fr["bc"]]
    for r in range(3):
        for c in range(3):
            parts.append(_txt(fr["box"][r][c], u["ebox"], d))
    for i in range(rec["n"]):
        parts += [_txt(x, u["epos"], d) for x in fr["pos"][i]]
        if rec["hv"]:
            parts += [_txt(x, u["evel"], d) for x in fr["vel"][i]]
        if rec["hf"]:
            parts += [_txt(x, u["ef"], d) for x in fr["f"][i]]
    return " ".join(parts)


def _top_cmd(rec):
    parts = ["top", "1" if rec["hv"] else "0", "1" if rec["hf"] else "0", str(rec["n"])]
    for i, b in enumerate(rec["beads"]):
        parts += [b["name"], b["type"], str(b["resnr"]), b["resname"], dec(12011 + 1000 * i, 3), dec(-2500 + 2500 * i, 4)]
    return " ".join(parts)


def _history_cmds(rec, path):
    """-> (commands, index of the command that carries the observation for h[j] or None)"""
    cmds = [_top_cmd(rec)]
    where = []
    for op in rec["h"]:
        a = op["a"]
        if a == "wopen":
            cmds += _wopen_cmds(rec, path, op["app"], op.get("reuse"))
        elif a == "wwrite":
            cmds.append(_frame_cmd(rec, op["fr"]))
            if rec["fmt"] == "pdbx":
                cmds.append("wbox")       # CRYST1 record through PDBWriter::WriteBox
            cmds.append("wwrite")
        elif a == "wclose":
            cmds.append("wclose")
        elif a == "ropen":
            cmds.append("rtop %d" % op["rn"])
            cmds.append("ropen %s %d" % (path, _SRC[op.get("src", "new")]))
        elif a == "rfirst":
            cmds.append("rfirst")
        elif a == "rnext":
            cmds.append("rnext")
        elif a == "rnextmis":
            cmds.append("rtop %d" % op["rn"])
            cmds.append("rnext")
        elif a == "rclose":
            cmds.append("rclose")
        elif a == "readtop":
            cmds.append("readtop %s %d" % (path, _SRC[op.get("src", "new")]))
        else:
            raise vlib.InfraError("unknown action in TLC history: %s" % a)
        where.append(len(cmds) - 1)
    return cmds, where


def _res(lines):
    import json
    for ln in lines:
        if ln.startswith("res "):
            return json.loads(ln[4:])
    return None


def _cmp_frame(fmt, exp, units, obs):
    """compare an observed topology dump with the stored projection; returns list of (what, text)"""
    bad = []
    div = exp.get("div", 1)
    sig = units.get("sig", 0)

    def ok(o, k, e, extra_abs=0.0, efix=0):
        ex = val(k, e) / div if div > 1 else val(k, e)
        if div == 1:
            return same(o, ex, REL if extra_abs == 0.0 else 1e-12, extra_abs), ex
        # not on the text lattice: equal within the printed precision = half a unit of the last digit
        if efix > 0:
            return same(o, ex, 1e-12, 0.5000001 * 10.0 ** (-efix)), ex
        if sig > 0:
            return same(o, ex, 0.51 * 10.0 ** (1 - sig), extra_abs), ex
        return same(o, ex, 1e-12, 0.5000001 * 10.0 ** (-e) + extra_abs), ex

    if obs["n"] != exp["n"]:
        bad.append(("beadcount", "bead count %s expected %s" % (obs["n"], exp["n"])))
        return bad
    if exp["step"] >= 0 and obs["step"] != exp["step"]:
        bad.append(("step", "step %s expected %s" % (obs["step"], exp["step"])))
    if exp.get("time", -1) >= 0 and not same(obs["time"], val(exp["time"], 3), 1e-12):
        bad.append(("time", "time %r expected %r" % (obs["time"], val(exp["time"], 3))))
    if exp["boxmode"] != "none":
        ob = obs["box"]
        for r in range(3):
            for c in range(3):
                if exp["boxmode"] == "diag" and r != c:
                    continue
                good, e = ok(ob[3 * r + c], exp["box"][r][c], units["ebox"], 0.0, units.get("ebfix", 0))
                if not good:
                    bad.append(("box:diag" if r == c else "box:offdiag",
                                "box(%d,%d) = %r expected %r" % (r, c, ob[3 * r + c], e)))
    for i in range(exp["n"]):
        b = obs["beads"][i]
        if not b.get("haspos"):
            bad.append(("pos", "bead %d has no position" % i))
            continue
        for c in range(3):
            good, e = ok(b["pos"][c], exp["pos"][i][c], units["epos"])
            if not good:
                bad.append(("pos", "bead %d pos[%d] = %r expected %r" % (i, c, b["pos"][c], e)))
        if exp["hasvel"]:
            if not b.get("hasvel"):
                bad.append(("vel", "bead %d: velocity written but not read back" % i))
            else:
                for c in range(3):
                    good, e = ok(b["vel"][c], exp["vel"][i][c], units["evel"])
                    if not good:
                        bad.append(("vel", "bead %d vel[%d] = %r expected %r" % (i, c, b["vel"][c], e)))
        if exp["hasf"]:
            if not b.get("hasf"):
                bad.append(("force", "bead %d: force written but not read back" % i))
            else:
                for c in range(3):
                    # dump prints kcal/mol/A with 6 decimals: half a unit of the last digit, in kJ/mol/nm
                    good, e = ok(b["f"][c], exp["f"][i][c], units["ef"], 0.0 if exp["fexact"] else 2.2e-5)
                    if not good:
                        bad.append(("force", "bead %d f[%d] = %r expected %r" % (i, c, b["f"][c], e)))
    return bad


def _canon(seq):
    first = {}
    out = []
    for x in seq:
        if x not in first:
            first[x] = len(first)
        out.append(first[x])
    return out


def _cmp_top(fmt, exp, units, obs):
    bad = []
    if obs["n"] != exp["n"]:
        return [("topology:beadcount", "bead count %s expected %s" % (obs["n"], exp["n"]))]
    beads = obs["beads"]
    if exp["namesin"] != "none":
        got = [b[exp["namesin"]] for b in beads]
        if got != exp["names"]:
            bad.append(("topology:names", "bead %ss %s expected %s" % (exp["namesin"], got, exp["names"])))
    if exp["resnames"]:
        got = [b.get("resname") for b in beads]
        if got != exp["resnames"]:
            bad.append(("topology:resnames", "residue names %s expected %s" % (got, exp["resnames"])))
    if exp["typepart"]:
        got = _canon([b["type"] for b in beads])
        if got != _canon(exp["typepart"]):
            bad.append(("topology:types", "type partition %s expected %s" % (got, _canon(exp["typepart"]))))
    for w, t in _cmp_frame(fmt, exp["frame"], units, obs):
        bad.append(("topology:" + w, t))
    return bad


def _variant(rec):
    acts = [op["a"] for op in rec["h"]]
    if "readtop" in acts:
        return "readtop"
    if "rnextmis" in acts:
        return "next-mismatch"
    for op in rec["h"]:
        if op["a"] == "ropen" and op["rn"] != rec["n"]:
            return "first-mismatch"
    return "read"


def _vacuity(ctx, mod, recs):
    """every format of an exhaustive configuration must have been exercised in every reader variant,
    with a triclinic frame, with 'false' returned twice, with and without velocities/forces"""
    import collections
    seen = collections.defaultdict(set)
    for r in recs:
        f = r["fmt"]
        seen[f].add(_variant(r))
        seen[f].add("hv" if r["hv"] else "nohv")
        seen[f].add("hf" if r["hf"] else "nohf")
        if sum(1 for o in r["h"] if o["a"] == "rnext" and not o["ret"]) >= 2:
            seen[f].add("eof-twice")
        if any(o["a"] == "wwrite" and o["fr"]["bc"] == "tric" for o in r["h"]):
            seen[f].add("tric")
        if sum(1 for o in r["h"] if o["a"] == "wwrite") >= 2:
            seen[f].add("multi")
    for f, s in seen.items():
        need = {"read", "first-mismatch", "eof-twice", "tric", "hv", "nohv", "hf", "nohf"}
        if f == "pdbx":
            need.discard("tric")
        if f != "dlpc":
            need |= {"next-mismatch", "multi"}
        if f in ("gro", "xyz", "pdb", "dump"):
            need.add("readtop")
        if not need <= s:
            raise vlib.InfraError("vacuous configuration %s: format %s lacks %s" % (mod, f, sorted(need - s)))
    ctx.extra.setdefault("exercised", {})[mod] = dict((f, sorted(s)) for f, s in seen.items())


def replay_histories(ctx, exe, recs, sdir, tag, checked=False):
    """checked: exe is drv_trajio_chk (reader sources compiled with assertions + ASan/UBSan)"""
    items = []
    meta = []
    for i, rec in enumerate(recs):
        path = os.path.join(sdir, "%s%d.%s" % (tag, i, _EXT.get(rec["fmt"], rec["fmt"])))
        cmds, where = _history_cmds(rec, path)
        items.append((i, cmds))
        meta.append((path, where))
    results, crashes = vlib.run_items(exe, items, timeout=3000)
    for i, rec in enumerate(recs):
        fmt = rec["fmt"]
        ctx.traces += 1
        ctx.nontriv((fmt, rec["n"], rec["hv"], rec["hf"],
                     str([(o["a"], o.get("fr", {}).get("bc"), o.get("fr", {}).get("pid"), o.get("rn"), o.get("ret"))
                          for o in rec["h"]])))
        path, where = meta[i]
        if i in crashes:
            mis = "mismatch:" if _variant(rec) in ("next-mismatch", "first-mismatch") else ""
            what = "memory-error" if checked else "crash"
            ctx.violation("%s:%s%s" % (fmt, mis, what),
                          "driver died (%s): %s" % ("assertion/sanitizer report in the reader" if checked else "signal",
                                                    crashes[i][-900:]), rec)
            continue
        out = results[i]
        fmt0 = fmt
        wre = False
        for j, op in enumerate(rec["h"]):
            obs = _res(out[where[j]])
            a = op["a"]
            # calls made on an object that already served an earlier session get their own key class
            if a == "wopen":
                wre = bool(op.get("reuse"))
                fmt = fmt0 + (":reused-object" if wre else "")
            elif a in ("ropen", "readtop"):
                fmt = fmt0 + (":reused-object" if (op.get("reuse") or wre) else "")
            if obs is None:
                raise vlib.InfraError("no result line for %s" % items[i][1][where[j]])
            if "driver_error" in obs:
                raise vlib.InfraError("driver: %s" % obs)
            exc = obs.get("exc")
            if exc is not None and exc.startswith("driver:"):
                raise vlib.InfraError(exc)
            if a in ("wopen", "wwrite", "wclose", "ropen", "rclose"):
                if exc is not None:
                    ctx.violation("%s:%s:exception" % (fmt, a), "%s threw: %s" % (a, exc), rec)
                    break
                continue
            if a in ("rfirst", "rnext", "rnextmis"):
                if op["err"]:
                    if exc is None:
                        more = op.get("rn", None)
                        if more is None:
                            more = [o for o in rec["h"] if o["a"] == "ropen"][-1]["rn"]
                        side = "more" if more > rec["n"] else "less"
                        ctx.violation("%s:mismatch:no-error:%s" % (fmt, "first" if a == "rfirst" else "next"),
                                      "%s with a topology of %d beads on a file with %d atoms per frame (%s beads in "
                                      "the topology) returned %s instead of reporting an error"
                                      % (a, more, rec["n"], side, obs.get("ret")), rec)
                    break   # nothing is specified after an error
                if exc is not None:
                    ctx.violation("%s:%s:exception" % (fmt, "read"), "%s (frame %s) threw: %s" % (a, op.get("k"), exc), rec)
                    break
                if bool(obs["ret"]) != op["ret"]:
                    what = "eof:early" if op["ret"] else "eof:late"
                    ctx.violation("%s:%s" % (fmt, what),
                                  "%s returned %s but the model says %s (frame %s of the file)"
                                  % (a, obs["ret"], op["ret"], op.get("k")), rec)
                    break
                if op["ret"]:
                    bad = _cmp_frame(fmt, op["exp"], rec["units"], obs)
                    for w, t in bad[:3]:
                        ctx.violation("%s:%s" % (fmt, w), "frame %d read by %s: %s" % (op["k"], a, t), rec)
                    if bad:
                        break
                continue
            if a == "readtop":
                if exc is not None:
                    ctx.violation("%s:topology:exception" % fmt, "ReadTopology threw: %s" % exc, rec)
                    break
                bad = _cmp_top(fmt, op["exp"], rec["units"], obs)
                for w, t in bad[:3]:
                    ctx.violation("%s:%s" % (fmt, w), "ReadTopology: %s" % t, rec)
                if bad:
                    break
        try:
            os.unlink(path)
        except OSError:
            pass


# ------------------------------------------------------------------------------------------
# part 2: tables, matrices, index files
# ------------------------------------------------------------------------------------------

def _num(v):
    if v["e"] == 99:    # non-finite value ids of Tables.tla
        return {1: "inf", -1: "-inf", 0: "nan"}[v["m"]]
    return "%de-%d" % (v["m"], v["e"])


def _numval(v):
    return float(_num(v))


def _obsnum(x):
    """driver prints non-finite numbers as strings"""
    return float(x) if isinstance(x, str) else x


def _tsame(obs, exp):
    import math
    o = _obsnum(obs)
    if o is None:
        return False
    if math.isnan(exp):
        return math.isnan(o)
    if math.isinf(exp) or math.isinf(o) or math.isnan(o):
        return o == exp
    return same(o, exp, 1e-12)


def replay_tables(ctx, exe, recs, sdir):
    items = []
    for i, r in enumerate(recs):
        k = r["kind"]
        path = os.path.join(sdir, "v%d.%s" % (i, {"table": "tab", "matrix": "gmc", "ds": "imc", "index": "idx", "tabletext": "txt"}[k]))
        inp = r["inp"]
        if k == "tabletext":
            # the harness is the writer: a hand-written table file with the decorations chosen by TLC
            lines = []
            for ln in inp:
                t = ln["t"]
                if t == "comment":
                    lines.append("# written by hand, 2 columns")
                elif t == "xmgrace":
                    lines.append('@    title "g(r)"')
                elif t == "xmgrace2":
                    lines.append("@TYPE xy")
                elif t == "blank":
                    lines.append("")
                elif t == "size":
                    lines.append(str(ln["n"]))
                else:
                    sep = "\t" if ln["tab"] else "  "
                    cols = [_num(ln["x"]), _num(ln["y"])] + ([ln["flag"]] if ln["flag"] != "_" else [])
                    lines.append(sep.join(cols) + (" # note" if ln["trail"] else ""))
            with open(path, "w") as f:
                f.write("\n".join(lines) + "\n")
            cmds = ["tload " + path]
        elif k == "table":
            cm = inp["comment"]
            if not cm["lines"]:
                ctext = "-"
            else:   # %XX escapes for the driver: blank, real newline; the escape stays the two characters \n
                ctext = {"newline": "%0A", "escape": "\\n", "none": ""}[cm["sep"]].join(
                    ln.replace(" ", "%20") for ln in cm["lines"])
            parts = ["tsave", path, "1" if inp["hasyerr"] else "0", ctext, str(inp["n"])]
            for j in range(inp["n"]):
                parts += [_num(inp["x"][j]), _num(inp["y"][j]), _num(inp["yerr"][j]), inp["flags"][j]]
            cmds = [" ".join(parts), "tload " + path]
        elif k == "matrix":
            parts = ["mwrite", path, str(inp["rows"]), str(inp["cols"])] + [_num(x) for x in inp["data"]]
            parts += [str(len(inp["sel"]))] + [str(s - 1) for s in inp["sel"]]
            cmds = [" ".join(parts), "mread " + path]
        elif k == "ds":
            parts = ["dswrite", path, str(inp["n"])]
            for j in range(inp["n"]):
                parts += [_num(inp["x"][j]), _num(inp["y"][j])]
            parts += [str(len(inp["sel"]))] + [str(s - 1) for s in inp["sel"]]
            cmds = [" ".join(parts), "tload " + path]
        else:
            parts = ["iwrite", path, str(len(inp))]
            for rg in inp:
                parts += [rg["name"], str(len(rg["blocks"]))]
                for b in rg["blocks"]:
                    parts += [str(x) for x in b]
            cmds = [" ".join(parts), "iread " + path]
        items.append((i, cmds))
    results, crashes = vlib.run_items(exe, items)
    for i, r in enumerate(recs):
        ctx.count()
        k = r["kind"]
        exp = r["exp"]
        ctx.nontriv((k, str(r["inp"])[:200]))
        name = {"table": "Table", "matrix": "imcio:matrix", "ds": "imcio:dS", "index": "imcio:index",
                "tabletext": "Table:text"}[k]
        if i in crashes:
            ctx.violation(name + ":crash", "driver died: " + crashes[i], r)
            continue
        if k == "tabletext":
            w, rd = {"ok": True}, _res(results[i][0])
        else:
            w, rd = _res(results[i][0]), _res(results[i][1])
        if "exc" in w:
            ctx.violation(name + ":write:exception", "writing threw: " + w["exc"], r)
            continue
        if "exc" in rd:
            csep = r["inp"]["comment"]["sep"] if k == "table" else "none"
            ctx.violation(name + ":read:exception" + (":comment-" + csep if csep != "none" else ""),
                          "reading back threw: " + rd["exc"], r)
            continue
        if k in ("table", "ds", "tabletext"):
            if rd["n"] != exp["n"]:
                csep = r["inp"]["comment"]["sep"] if k == "table" else "none"
                ctx.violation(name + (":rows:comment-" + csep if csep != "none" else ":rows"),
                              "%d rows read, %d written" % (rd["n"], exp["n"]), r)
                continue
            for col in ("x", "y"):
                for j in range(exp["n"]):
                    if not _tsame(rd[col][j], _numval(exp[col][j])):
                        ctx.violation(name + ":" + col, "%s[%d] = %r expected %r" % (col, j, rd[col][j], _numval(exp[col][j])), r)
            if k in ("table", "tabletext"):
                for j in range(exp["n"]):
                    if exp["flags"][j] != "*" and rd["flags"][j] != exp["flags"][j]:
                        ctx.violation(name + ":flags", "flag[%d] = %r expected %r" % (j, rd["flags"][j], exp["flags"][j]), r)
                if exp.get("hasyerr") and exp["n"] > 0:
                    if len(rd["yerr"]) != exp["n"]:
                        ctx.violation("Table:yerr:lost-on-load",
                                      "table saved with an error column (x y yerr flag); Load() returns %d yerr values, "
                                      "has_yerr=%s" % (len(rd["yerr"]), rd["hasyerr"]), r)
                    else:
                        for j in range(exp["n"]):
                            if not _tsame(rd["yerr"][j], _numval(exp["yerr"][j])):
                                ctx.violation("Table:yerr", "row %d (flag %r written): yerr = %r expected %r" % (
                                    j, r["inp"]["flags"][j], rd["yerr"][j], _numval(exp["yerr"][j])), r)
        elif k == "matrix":
            if (rd["rows"], rd["cols"]) != (exp["rows"], exp["cols"]):
                ctx.violation(name + ":shape", "read %dx%d, written %dx%d" % (rd["rows"], rd["cols"], exp["rows"], exp["cols"]), r)
                continue
            for j, e in enumerate(exp["data"]):
                if not same(rd["data"][j], _numval(e), 1e-12):
                    sq = "square" if exp["rows"] == exp["cols"] else "nonsquare"
                    ctx.violation(name + ":entries:" + sq,
                                  "%dx%d matrix: entry (%d,%d) = %r expected %r" % (
                                      exp["rows"], exp["cols"], j // exp["cols"], j % exp["cols"], rd["data"][j], _numval(e)), r)
                    break
        else:
            got = rd["ranges"]
            if [g["name"] for g in got] != [e["name"] for e in exp]:
                ctx.violation(name + ":names", "names %s expected %s" % ([g["name"] for g in got], [e["name"] for e in exp]), r)
                continue
            for g, e in zip(got, exp):
                if g.get("runaway") or g["values"] != e["values"]:
                    ctx.violation(name + ":values", "range %s enumerates %s expected %s" % (e["name"], g["values"][:40], e["values"]), r)


# ------------------------------------------------------------------------------------------
# part 3: XML topology
# ------------------------------------------------------------------------------------------

def _xml_text(desc):
    out = ["<topology>", " <molecules>"]
    for m in desc:
        out.append('  <molecule name="%s" nmols="%d" nbeads="%d">' % (m["name"], m["nmols"], len(m["beads"])))
        for b in m["beads"]:
            out.append('   <bead name="%s" type="%s" mass="%s" q="%s"/>' % (b["name"], b["type"], dec(b["mass"], 3), dec(b["q"], 4)))
        out.append("  </molecule>")
    out.append(" </molecules>")
    out.append(" <bonded>")
    for m in desc:
        for tag, key in (("bond", "bonds"), ("angle", "angles"), ("dihedral", "dihedrals")):
            if m[key]:
                names = " ".join("%s:%s" % (m["name"], m["beads"][x - 1]["name"]) for t in m[key] for x in t)
                out.append("  <%s><name>%s</name><beads> %s </beads></%s>" % (tag, tag, names, tag))
    out.append(" </bonded>")
    out.append("</topology>")
    return "\n".join(out) + "\n"


def replay_xml(ctx, exe, recs, sdir):
    items = []
    for i, r in enumerate(recs):
        path = os.path.join(sdir, "x%d.xml" % i)
        with open(path, "w") as f:
            f.write(_xml_text(r["inp"]))
        items.append((i, ["readtop " + path]))
    results, crashes = vlib.run_items(exe, items)
    for i, r in enumerate(recs):
        ctx.count()
        ctx.nontriv(("xml", str([(m["name"], m["nmols"]) for m in r["inp"]])))
        if i in crashes:
            ctx.violation("xml:crash", "driver died: " + crashes[i], r)
            continue
        obs = _res(results[i][0])
        exp = r["exp"]
        if "exc" in obs:
            ctx.violation("xml:exception", "XMLTopologyReader threw: " + obs["exc"], r)
            continue
        if obs["n"] != len(exp["beads"]):
            ctx.violation("xml:beadcount", "%d beads expected %d" % (obs["n"], len(exp["beads"])), r)
            continue
        for b, e in zip(obs["beads"], exp["beads"]):
            if b["name"] != e["name"] or b["type"] != e["type"]:
                ctx.violation("xml:names", "bead %d is %s/%s expected %s/%s" % (e["id"], b["name"], b["type"], e["name"], e["type"]), r)
            if not same(b["mass"], val(e["mass"], 3), 1e-12) or not same(b["q"], val(e["q"], 4), 1e-12):
                ctx.violation("xml:mass-charge", "bead %d mass/q %r/%r expected %r/%r" % (
                    e["id"], b["mass"], b["q"], val(e["mass"], 3), val(e["q"], 4)), r)
        gm = [(m["name"], m["beads"]) for m in obs["molecules"]]
        em = [(m["name"], m["beads"]) for m in exp["molecules"]]
        if gm != em:
            ctx.violation("xml:molecules", "molecules %s expected %s" % (gm, em), r)
        gb = sorted((b["group"], b["mol"], tuple(b["beads"])) for b in obs["bonded"])
        eb = sorted((b["group"], b["mol"], tuple(b["beads"])) for b in exp["bonded"])
        if gb != eb:
            ctx.violation("xml:bonded", "bonded terms %s expected %s" % (gb, eb), r)


def replay_xmlbase(ctx, exe, recs, sdir):
    items = []
    for i, r in enumerate(recs):
        inp = r["inp"]
        gro = os.path.join(sdir, "b%d.gro" % i)
        with open(gro, "w") as f:
            f.write("base\n%5d\n" % len(inp["names"]))
            for j, nm in enumerate(inp["names"]):
                f.write("%5d%-5s%5s%5d%8.3f%8.3f%8.3f\n" % (j // 2 + 1, "RES", nm, j + 1, 0.1 * j, 0.2 * j, 0.3 * j))
            f.write("   3.00000   3.00000   3.00000\n")
        x = ['<topology base="%s">' % gro, " <molecules>", "  <clear/>"]
        for d in inp["defines"]:
            x.append('  <define name="%s" first="%d" nbeads="%d" nmols="%d"/>' % (d["name"], d["first"], d["nbeads"], d["nmols"]))
        if inp["rename"]:
            x.append('  <rename name="RN" range="%d:%d"/>' % tuple(inp["rename"]))
        x.append(" </molecules>")
        if inp["typerename"] or inp["mass"] != "none":
            x.append(" <beadtypes>")
            if inp["typerename"]:
                x.append('  <rename name="O" newname="OX"/>')
            if inp["mass"] != "none":
                x.append('  <mass name="%s" value="14.007"/>' % inp["mass"])
            x.append(" </beadtypes>")
        x.append("</topology>")
        path = os.path.join(sdir, "b%d.xml" % i)
        with open(path, "w") as f:
            f.write("\n".join(x) + "\n")
        items.append((i, ["readtop " + path]))
    results, crashes = vlib.run_items(exe, items)
    for i, r in enumerate(recs):
        ctx.count()
        ctx.nontriv(("xmlbase", str(r["inp"])))
        if i in crashes:
            ctx.violation("xmlbase:crash", "driver died: " + crashes[i], r)
            continue
        obs = _res(results[i][0])
        exp = r["exp"]
        if "exc" in obs:
            ctx.violation("xmlbase:exception", "XMLTopologyReader threw: " + obs["exc"], r)
            continue
        if obs["n"] != len(exp["beads"]):
            ctx.violation("xmlbase:beadcount", "%d beads expected %d" % (obs["n"], len(exp["beads"])), r)
            continue
        for b, e in zip(obs["beads"], exp["beads"]):
            if b["name"] != e["name"]:
                ctx.violation("xmlbase:names", "bead %d name %s expected %s" % (e["id"], b["name"], e["name"]), r)
            if b["type"] != e["type"]:
                ctx.violation("xmlbase:beadtypes:rename", "bead %d type %s expected %s" % (e["id"], b["type"], e["type"]), r)
            if not same(b["mass"], val(e["mass"], 3), 1e-12):
                ctx.violation("xmlbase:beadtypes:mass", "bead %d mass %r expected %r" % (e["id"], b["mass"], val(e["mass"], 3)), r)
        gm = [(m["name"], m["beads"]) for m in obs["molecules"]]
        em = [(m["name"], m["beads"]) for m in exp["molecules"]]
        if [x[1] for x in gm] != [x[1] for x in em]:
            ctx.violation("xmlbase:define", "molecules %s expected %s" % (gm, em), r)
        elif gm != em:
            ctx.violation("xmlbase:rename", "molecule names %s expected %s" % ([x[0] for x in gm], [x[0] for x in em]), r)


# ------------------------------------------------------------------------------------------
# two readers at once (TwoReaders.tla)
# ------------------------------------------------------------------------------------------

def replay_two(ctx, exe, recs, sdir):
    items, meta = [], []
    for i, rec in enumerate(recs):
        paths = [os.path.join(sdir, "w%d_%d.%s" % (i, s, _EXT.get(rec["fmt"], rec["fmt"]))) for s in (1, 2)]
        cmds = [_top_cmd(rec)]
        files = rec["h"][0]
        if files["a"] != "files":
            raise vlib.InfraError("TwoReaders history without files record")
        for s in (0, 1):
            cmds += _wopen_cmds(rec, paths[s])
            for fr in files["frames"][s]:
                cmds += [_frame_cmd(rec, fr), "wwrite"]
            cmds.append("wclose")
        cmds += ["rtop %d" % rec["n"], "ropen %s 0" % paths[0], "rtop2 %d" % rec["n"], "ropen2 %s 0" % paths[1]]
        where = []
        for op in rec["h"][1:]:
            cmds.append(op["a"] + ("2" if op["slot"] == 2 else ""))
            where.append(len(cmds) - 1)
        cmds += ["rclose", "rclose2"]
        items.append((i, cmds))
        meta.append((paths, where))
    results, crashes = vlib.run_items(exe, items, timeout=3000)
    switches = 0
    for i, rec in enumerate(recs):
        fmt = rec["fmt"]
        ctx.traces += 1
        order = [op["slot"] for op in rec["h"][1:]]
        switches = max(switches, sum(1 for a, b in zip(order, order[1:]) if a != b))
        ctx.nontriv(("two", fmt, str(order), str([f[0]["bc"] for f in rec["h"][0]["frames"]])))
        paths, where = meta[i]
        if i in crashes:
            ctx.violation("%s:two-readers:crash" % fmt, "driver died: %s" % crashes[i], rec)
            continue
        out = results[i]
        for j, op in enumerate(rec["h"][1:]):
            obs = _res(out[where[j]])
            if "exc" in obs:
                if obs["exc"].startswith("driver:"):
                    raise vlib.InfraError(obs["exc"])
                ctx.violation("%s:two-readers:exception" % fmt,
                              "reader %d, call %d of the interleaving %s threw: %s" % (op["slot"], j + 1, order, obs["exc"]), rec)
                break
            if bool(obs["ret"]) != op["ret"]:
                ctx.violation("%s:two-readers:eof" % fmt, "reader %d returned %s, its own file says %s (interleaving %s)"
                              % (op["slot"], obs["ret"], op["ret"], order), rec)
                break
            if op["ret"]:
                bad = _cmp_frame(fmt, op["exp"], rec["units"], obs)
                for w, t in bad[:2]:
                    ctx.violation("%s:two-readers:%s" % (fmt, w), "reader %d frame %d (interleaving %s): %s"
                                  % (op["slot"], op["k"], order, t), rec)
                if bad:
                    break
        for pth in paths:
            try:
                os.unlink(pth)
            except OSError:
                pass
    if recs and switches < 3:
        raise vlib.InfraError("TwoReaders: no history alternates between the readers")


# ------------------------------------------------------------------------------------------
# delivery into different Topology objects (Deliver.tla)
# ------------------------------------------------------------------------------------------

def replay_deliver(ctx, exe, recs, sdir):
    items, meta = [], []
    for i, rec in enumerate(recs):
        path = os.path.join(sdir, "d%d.%s" % (i, _EXT.get(rec["fmt"], rec["fmt"])))
        frec = rec["h"][0]
        if frec["a"] != "file":
            raise vlib.InfraError("Deliver history without file record")
        cmds = [_top_cmd(rec)] + _wopen_cmds(rec, path)
        for fr in frec["frames"]:
            cmds.append(_frame_cmd(rec, fr))
            if rec["fmt"] == "pdbx":
                cmds.append("wbox")
            cmds.append("wwrite")
        # B is copied BEFORE the first frame is read, C after it
        cmds += ["wclose", "rtop %d" % rec["n"], "rcopy 1", "ropen %s 0" % path]
        where = []
        for j, op in enumerate(rec["h"][1:]):
            cmds.append("%s %d" % ("rfirstto" if op["a"] == "rfirst" else "rnextto", op["tgt"] - 1))
            where.append(len(cmds) - 1)
            if j == 0:
                cmds.append("rcopy 2")
        cmds.append("rclose")
        items.append((i, cmds))
        meta.append((path, where))
    results, crashes = vlib.run_items(exe, items, timeout=3000)
    ntgt = 0
    for i, rec in enumerate(recs):
        fmt = rec["fmt"]
        ctx.traces += 1
        order = [op["tgt"] for op in rec["h"][1:]]
        ntgt = max(ntgt, len(set(order)))
        ctx.nontriv(("deliver", fmt, str(order), rec["h"][0]["frames"][0]["bc"]))
        path, where = meta[i]
        if i in crashes:
            ctx.violation("%s:deliver:crash" % fmt, "driver died: %s" % crashes[i], rec)
            continue
        out = results[i]
        last = {}       # target index -> last dump seen
        for j, op in enumerate(rec["h"][1:]):
            obs = _res(out[where[j]])
            if "exc" in obs:
                if obs["exc"].startswith("driver:"):
                    raise vlib.InfraError(obs["exc"])
                ctx.violation("%s:deliver:exception" % fmt, "call %d into object %s (targets %s) threw: %s"
                              % (j + 1, "ABC"[op["tgt"] - 1], order, obs["exc"]), rec)
                break
            if bool(obs["ret"]) != op["ret"]:
                ctx.violation("%s:deliver:eof" % fmt, "call %d returned %s, the file says %s (targets %s)"
                              % (j + 1, obs["ret"], op["ret"], order), rec)
                break
            t = op["tgt"] - 1
            # objects that were not passed must be exactly as they were
            stop = False
            for k2, d in enumerate(obs["all"]):
                if k2 != t and d is not None and k2 in last and last[k2] != d:
                    ctx.violation("%s:deliver:other-object-modified" % fmt,
                                  "call %d delivered into %s but object %s changed (targets %s)"
                                  % (j + 1, "ABC"[t], "ABC"[k2], order), rec)
                    stop = True
            for k2, d in enumerate(obs["all"]):
                if d is not None:
                    last[k2] = d
            if stop:
                break
            if op["ret"]:
                bad = _cmp_frame(fmt, op["exp"], rec["units"], obs)
                cls = "own" if t == 0 else ("copy-before" if t == 1 else "copy-after")
                for w, tx in bad[:2]:
                    ctx.violation("%s:deliver:%s:%s" % (fmt, cls, w), "frame %d delivered into object %s (targets %s): %s"
                                  % (op["k"], "ABC"[t], order, tx), rec)
                if bad:
                    break
        try:
            os.unlink(path)
        except OSError:
            pass
    if recs and ntgt < 3:
        raise vlib.InfraError("Deliver: no history uses all three Topology objects")


# ------------------------------------------------------------------------------------------
# part 4 (thorough): a -> b -> a with the csg_map executable
# ------------------------------------------------------------------------------------------

def chain_conversions(ctx, exe, bindir, recs, sdir):
    """recs: Chain.tla vectors [first, mid, n, hv, frames (given, in first's lattice), exp (per frame)]"""
    csg_map = os.path.join(bindir, "csg_map")
    env = dict(os.environ)
    for i, r in enumerate(recs):
        ctx.traces += 1
        a, b = r["first"], r["mid"]
        ctx.nontriv(("chain", a, b, r["n"], r["hv"], len(r["frames"]), str([f["bc"] for f in r["frames"]])))
        fa = os.path.join(sdir, "c%d_a.%s" % (i, a))
        fb = os.path.join(sdir, "c%d_b.%s" % (i, b))
        fc = os.path.join(sdir, "c%d_c.%s" % (i, a))
        rec = {"fmt": a, "n": r["n"], "hv": r["hv"], "hf": False, "units": r["units"], "beads": r["beads"]}
        cmds = [_top_cmd(rec), "wopen %s 0" % fa]
        for fr in r["frames"]:
            cmds += [_frame_cmd(rec, fr), "wwrite"]
        cmds.append("wclose")
        res, crashes = vlib.run_items(exe, [(0, cmds)])
        if crashes or any("exc" in (_res(x) or {}) for x in res[0]):
            ctx.violation("chain:%s:write" % a, "could not write the start file: %s" % (crashes or res[0]), r)
            continue
        key = "chain:%s-%s-%s" % (a, b, a)
        failed = False
        for (top, src, dst) in ((fa, fa, fb), (fa, fb, fc)):
            cmd = [csg_map, "--top", top, "--trj", src, "--no-map", "--out", dst] + (["--vel"] if r["hv"] else [])
            p = subprocess.run(cmd, stdout=subprocess.PIPE, stderr=subprocess.STDOUT, text=True, env=env, timeout=300, cwd=sdir)
            if p.returncode != 0:
                ctx.violation(key + ":csg_map-failed", "%s exited with %d: %s" % (" ".join(cmd), p.returncode, p.stdout[-600:]), r)
                failed = True
                break
        if failed:
            continue
        cmds = ["rtop %d" % r["n"], "ropen " + fc, "rfirst"] + ["rnext"] * len(r["frames"]) + ["rclose"]
        res, crashes = vlib.run_items(exe, [(0, cmds)])
        if crashes:
            ctx.violation(key + ":crash", "reader died: %s" % crashes, r)
            continue
        out = res[0]
        for k, e in enumerate(r["exp"]):
            obs = _res(out[2 + k])
            if "exc" in obs:
                ctx.violation(key + ":exception", "reading frame %d of the final file threw %s" % (k + 1, obs["exc"]), r)
                break
            if not obs["ret"]:
                ctx.violation(key + ":frames-lost", "final file has only %d of %d frames" % (k, len(r["exp"])), r)
                break
            bad = _cmp_frame(a, e, r["units"], obs)
            for w, t in bad[:3]:
                ctx.violation(key + ":" + w, "frame %d after %s->%s->%s: %s" % (k + 1, a, b, a, t), r)
            if bad:
                break
        else:
            obs = _res(out[2 + len(r["exp"])])
            if "exc" not in obs and obs["ret"]:
                ctx.violation(key + ":frames-extra", "final file has more than %d frames" % len(r["exp"]), r)
        for f in (fa, fb, fc):
            try:
                os.unlink(f)
            except OSError:
                pass


# ------------------------------------------------------------------------------------------

def run(ctx):
    quick = ctx.quick
    targets = ["drv_trajio", "drv_trajio_chk"] + ([] if quick else ["csg_map"])
    bindir = vlib.ensure_build(targets)
    exe = bindir + "/drv_trajio"
    exe_chk = bindir + "/drv_trajio_chk"
    sdir = os.path.join(vlib.SCRATCH, "c08-%d" % os.getpid())
    shutil.rmtree(sdir, ignore_errors=True)
    os.makedirs(sdir)
    ctx.rule = ("one behaviour = one format x bead count x velocity/force flags x sequence of frames (box class, payload "
                "id) x reader session (full read with extra NextFrame calls, early close, mismatching topology at "
                "FirstFrame or NextFrame, topology read); all of them up to the bounds (BFS) plus simulated longer "
                "ones; tables/matrices/index/xml: one vector per shape x payload")
    ctx.assumptions += [
        "payloads are integer multiples of the printed quantum of each format and stay inside the field width that "
        "the format's own reader can separate (xyz/gro box: one leading blank), so the decimal text is exact; "
        "comparison tolerance 1e-13 relative",
        "lammps dump forces are converted kJ->kcal and printed with 6 decimals: compared with half a unit of the last "
        "digit (2.2e-5 kJ/mol/nm)",
        "capability table: dump stores no tilt factors, pdb/xyz no box, pdb/xyz/gro no forces, gro/xyz/pdb no step, "
        "dlpoly forces only together with velocities, dlpoly box class fixed per file, CONFIG holds one frame, "
        "table flag blank/NUL is not written (nothing demanded)",
        "time stamps are not compared (not in the property statement)"]
    large = {}

    def _large_tlc():
        try:
            m = "MCLargeQuick" if quick else "MCLarge"
            large["mod"] = m
            large["res"] = vlib.tlc("trajio", m, cfg=m + ".cfg", timeout=2400, workers=2)
        except Exception as ex:      # re-raised in the main thread
            large["exc"] = ex

    try:
        if getattr(ctx, "replay", None):
            import json
            obj = json.load(open(ctx.replay))["replay"]
            if "h" in obj and obj["h"] and obj["h"][0].get("a") == "file":
                replay_deliver(ctx, exe, [obj], sdir)
            elif "h" in obj and obj["h"] and obj["h"][0].get("a") == "files":
                replay_two(ctx, exe, [obj], sdir)
            elif "h" in obj:
                replay_histories(ctx, exe, [obj], sdir, "r")
            elif obj.get("kind") == "xml":
                replay_xml(ctx, exe, [obj], sdir)
            elif obj.get("kind") == "xmlbase":
                replay_xmlbase(ctx, exe, [obj], sdir)
            elif "mid" in obj:
                vlib.ensure_build(["csg_map"])
                chain_conversions(ctx, exe, bindir, [obj], sdir)
            else:
                replay_tables(ctx, exe, [obj], sdir)
            return
        # the large-frame vectors (100003 beads) take TLC ~15 s per record: computed in the background
        import threading, time
        lt = threading.Thread(target=_large_tlc)
        lt.start()
        time.sleep(1.0)     # vlib.tlc numbers its scratch directories with an unsynchronised counter
        # ---- 1. histories ---------------------------------------------------------------
        recs = []
        for mod in (["MCTrajQuick"] if quick else ["MCTrajThorough", "MCTrajThorough3"]):
            res = vlib.tlc("trajio", mod, cfg=mod + ".cfg", timeout=2400)
            vlib.tlc_must_hold(res, "TrajIO channel invariants")
            ctx.add_tlc(mod, res)
            if not res.records:
                raise vlib.InfraError("TLC exported no histories")
            _vacuity(ctx, mod, res.records)
            replay_histories(ctx, exe, res.records, sdir, "h")
            # memory-safety clause of "mismatch => error, frame not used": the same mismatch histories
            # against the readers compiled with assertions and sanitizers
            mism = [r for r in res.records if _variant(r) in ("next-mismatch", "first-mismatch")]
            if not mism:
                raise vlib.InfraError("no bead-count-mismatch history in " + mod)
            replay_histories(ctx, exe_chk, mism, sdir, "m", checked=True)
            recs = recs or res.records
        picks = [r for r in recs if r["fmt"] == "gro" and _variant(r) == "read"][:1] + \
                [r for r in recs if r["fmt"] == "dump" and _variant(r) == "next-mismatch"][:1] + \
                [r for r in recs if r["fmt"] == "dlph" and _variant(r) == "read" and
                 any(o["a"] == "wwrite" and o["fr"]["bc"] == "tric" for o in r["h"])][:1]
        for r in picks:
            ctx.sample({"fmt": r["fmt"], "n": r["n"], "hv": r["hv"], "hf": r["hf"],
                        "calls": [dict((k, v) for k, v in o.items() if k not in ("fr", "exp")) for o in r["h"]]})
        # the SAME writer / reader object used for a second file session (also after a reported error)
        res = vlib.tlc("trajio", "MCTrajReuse", cfg="MCTrajReuse.cfg", timeout=1200)
        vlib.tlc_must_hold(res, "TrajIO with object re-use")
        ctx.add_tlc("MCTrajReuse", res)
        # complete histories only (a one-session history is a prefix of two-session ones unless it is the
        # mixed use ReadTopology -> trajectory on one object)
        reuse = [r for r in res.records if sum(1 for o in r["h"] if o["a"] == "wopen") == 2 or
                 any(o["a"] == "ropen" and o.get("src") == "top" for o in r["h"])]
        n_tt = sum(1 for r in reuse if any(o["a"] == "ropen" and o.get("src") == "top" for o in r["h"]))
        n_tm = sum(1 for r in reuse if any(o["a"] == "ropen" and o.get("src") == "top" and o["rn"] != r["n"] for o in r["h"]))
        n_rt = sum(1 for r in reuse if any(o["a"] == "readtop" and o.get("src") == "reader" for o in r["h"]))
        if min(n_tt, n_tm, n_rt) == 0:
            raise vlib.InfraError("vacuous mixed-use configuration: top->traj %d (mismatch %d), traj->top %d" % (n_tt, n_tm, n_rt))
        n_r = sum(1 for r in reuse if any(o["a"] == "ropen" and o["reuse"] for o in r["h"]))
        n_e = sum(1 for r in reuse if any(o["a"] == "ropen" and o["reuse"] for o in r["h"]) and
                  any(o.get("err") for o in r["h"][:[k for k, o in enumerate(r["h"]) if o["a"] == "ropen"][-1]]))
        n_w = sum(1 for r in reuse if any(o["a"] == "wopen" and o["reuse"] for o in r["h"]))
        if min(n_r, n_e, n_w) == 0:
            raise vlib.InfraError("vacuous re-use configuration: reader %d, after error %d, writer %d" % (n_r, n_e, n_w))
        ctx.extra["reuse_histories"] = {"total": len(reuse), "reader": n_r, "reader_after_error": n_e, "writer": n_w,
                                        "topology_then_trajectory": n_tt, "of_these_mismatch": n_tm,
                                        "trajectory_then_topology": n_rt}
        replay_histories(ctx, exe, reuse, sdir, "u")
        # tiny magnitudes with a full mantissa in every column (numbers at the small edge of the field)
        res = vlib.tlc("trajio", "MCTrajTiny", cfg="MCTrajTiny.cfg", timeout=1200)
        vlib.tlc_must_hold(res, "TrajIO tiny payloads")
        ctx.add_tlc("MCTrajTiny", res)
        tiny = [r for r in res.records if _variant(r) == "read" and
                sum(1 for o in r["h"] if o["a"] == "rnext" and not o["ret"]) >= 1]
        if not tiny or not all(o["fr"]["div"] == 3 for r in tiny for o in r["h"] if o["a"] == "wwrite"):
            raise vlib.InfraError("no tiny-payload history")
        if not any(sum(1 for o in r["h"] if o["a"] == "wwrite") == 3 for r in tiny if r["fmt"] == "dlph"):
            raise vlib.InfraError("no 3-frame dlph history with tiny payloads")
        replay_histories(ctx, exe, tiny, sdir, "y")
        # H5MD reader (file generated by the driver): time-dependent / time-independent box, units module
        m = "MCTrajH5" if quick else "MCTrajH5T"
        res = vlib.tlc("trajio", m, cfg=m + ".cfg", timeout=2400)
        vlib.tlc_must_hold(res, "TrajIO h5md layouts")
        ctx.add_tlc(m, res)
        h5 = [r for r in res.records if sum(1 for o in r["h"] if o["a"] == "rnext" and not o["ret"]) >= 1 or
              _variant(r) != "read"]
        seen = set((r["fmt"], r["hv"], r["hf"], sum(1 for o in r["h"] if o["a"] == "wwrite")) for r in h5)
        for f in ("h5", "h5s", "h5a", "h5ta"):
            for hvv in (False, True):
                for hff in (False, True):
                    if not any((f, hvv, hff, k) in seen for k in (2, 3)):
                        raise vlib.InfraError("vacuous h5md configuration: %s hv=%s hf=%s multi-frame missing" % (f, hvv, hff))
        replay_histories(ctx, exe, h5, sdir, "q")
        # one reader, frames delivered into different Topology objects (own, copy made before / after frame 1)
        res = vlib.tlc("trajio", "MCDeliver", cfg="MCDeliver.cfg", timeout=1200)
        vlib.tlc_must_hold(res, "Deliver: target independence")
        ctx.add_tlc("MCDeliver", res)
        if not res.records:
            raise vlib.InfraError("no delivery history exported")
        replay_deliver(ctx, exe, res.records, sdir)
        ctx.extra["deliver_histories"] = len(res.records)
        # two reader objects open at the same time, calls interleaved in every order
        res = vlib.tlc("trajio", "MCTwoReaders", cfg="MCTwoReaders.cfg", timeout=1200)
        vlib.tlc_must_hold(res, "TwoReaders independence")
        ctx.add_tlc("MCTwoReaders", res)
        if not res.records:
            raise vlib.InfraError("no two-reader history exported")
        replay_two(ctx, exe, res.records, sdir)
        # simulated: several file sessions (truncate / append), more frames, scrambled payloads
        nsim = 150 if quick else 3000
        res = vlib.tlc("trajio", "MCTrajSim", cfg="MCTrajSim.cfg", timeout=2400, simulate=nsim, depth=40,
                       workers=4, seed=ctx.seed)
        vlib.tlc_must_hold(res, "TrajIO simulation")
        ctx.add_tlc("MCTrajSim(simulate)", res)
        seen = set()
        sims = []
        for r in res.records:
            k = str(r)
            if k not in seen:
                seen.add(k)
                sims.append(r)
        replay_histories(ctx, exe, sims, sdir, "s")
        replay_histories(ctx, exe_chk, [r for r in sims if _variant(r) in ("next-mismatch", "first-mismatch")],
                         sdir, "t", checked=True)

        # ---- 1b. large frames: fixed-width index columns beyond 99999 ----------------------
        lt.join()
        if "exc" in large:
            raise large["exc"]
        res = large["res"]
        vlib.tlc_must_hold(res, "Large frame histories")
        ctx.add_tlc(large["mod"], res)
        if not res.records or any(r["n"] < 100000 for r in res.records):
            raise vlib.InfraError("no large-frame history exported")
        replay_histories(ctx, exe, res.records, sdir, "L")
        ctx.extra["large_frames"] = sorted("%s:%s:%d" % (r["fmt"], _variant(r), r["n"]) for r in res.records)

        # ---- 2. tables / matrices / index ------------------------------------------------
        mod = "MCTablesQuick" if quick else "MCTablesThorough"
        res = vlib.tlc("trajio", mod, cfg=mod + ".cfg", timeout=1200)
        vlib.tlc_must_hold(res, "Tables: row-major reading is the identity")
        ctx.add_tlc(mod, res)
        if len(res.records) != res.distinct:
            raise vlib.InfraError("vector export incomplete: %d of %d" % (len(res.records), res.distinct))
        replay_tables(ctx, exe, res.records, sdir)
        kinds = set(r["kind"] for r in res.records)
        if not {"table", "tabletext", "matrix", "ds", "index"} <= kinds:
            raise vlib.InfraError("table vector kinds missing: %s" % sorted(kinds))
        m = [r for r in res.records if r["kind"] == "matrix" and r["inp"]["rows"] == 3 and r["inp"]["cols"] == 2][:1]
        for r in m:
            ctx.sample({"matrix_vector": r})

        # ---- 3. xml topology ----------------------------------------------------------------
        mod = "MCXmlQuick" if quick else "MCXmlThorough"
        res = vlib.tlc("trajio", mod, cfg=mod + ".cfg", timeout=1200)
        vlib.tlc_must_hold(res, "XmlTop flattening")
        ctx.add_tlc(mod, res)
        replay_xml(ctx, exe, res.records, sdir)

        res = vlib.tlc("trajio", "MCXmlBase", cfg="MCXmlBase.cfg", timeout=1200)
        vlib.tlc_must_hold(res, "XmlBase")
        ctx.add_tlc("MCXmlBase", res)
        if len(res.records) != res.distinct or not res.records:
            raise vlib.InfraError("xml base vector export incomplete")
        replay_xmlbase(ctx, exe, res.records, sdir)

        # ---- 4. executable-level chains (thorough) --------------------------------------------
        if not quick:
            res = vlib.tlc("trajio", "MCChain", cfg="MCChain.cfg", timeout=1200)
            vlib.tlc_must_hold(res, "Chain")
            ctx.add_tlc("MCChain", res)
            chain_conversions(ctx, exe, bindir, res.records, sdir)
    finally:
        shutil.rmtree(sdir, ignore_errors=True)
    ctx.exhaustive = False
