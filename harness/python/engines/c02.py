"""C02 - periodic distances obey the minimum-image convention.
spec/pbc: Pbc (SpecMI brute force with certified image window, AlgoMI* transcriptions,
box type, volume, heights), PbcVectors (mode L vectors), PbcVolume, TracePbc (opposite
direction).  Driver: harness/drivers/pbc.cc (Topology::setBox / BCShortestConnection /
getDist / BoxVolume / ShortestBoxSize / getBoxType)."""
import json
import os
import random
import re
import vlib

U = 8.0   # lattice units per nm

MANIFEST = dict(
        engine="pbc", design_ref="DESIGN.md 5/C02",
        technique="TLA+ spec (shortest periodic image by brute force over a certified image window vs transcriptions "
                  "of Orthorhombic/Triclinic/OpenBox::BCShortestConnection) model-checked with TLC; TLC-exported "
                  "vectors replayed into Topology::setBox/BCShortestConnection/getDist/BoxVolume/ShortestBoxSize; "
                  "observations of the real code on random far-apart points judged by TLC (TracePbc)",
        text="TLC enumerates the (box, requested type, displacement) lattice points of the bounded domain (all "
             "orthorhombic and all GROMACS-reduced triclinic integer boxes of the configured edge set, ties and "
             "equalities included, every point also with near and far (<=4000 boxes) image shifts of either point) "
             "and checks on each: result-r in the lattice, shortest image (always orthorhombic; triclinic below half "
             "the shortest height), antisymmetry and shift invariance off ties, open = plain difference, box type, "
             "volume, height identity h^2|n|^2=V^2; every exported vector is replayed into the real Topology and "
             "compared exactly; random large-coordinate observations of the real code are judged by TLC.",
        note="Trusted: TLC, the lattice argument (coordinates k/8 nm: every quotient the code rounds is exact or "
             ">= 1/18 away from a half-integer), the text driver protocol. Ties only assert 'equally short'. "
             "Not asserted: triclinic results beyond half the shortest height (only lattice membership, "
             "antisymmetry, shift invariance), explicit 'ortho' on a non-diagonal matrix, volume of an explicitly "
             "open box, non-reduced or left-handed boxes (volume only).")


# --------------------------------------------------------------------------------------
def _fmt(x):
    return repr(x / U)


def _box_cmd(req, cols, cmd="box"):
    # cols = [a, b, c] lattice vectors; matrix entry (i,j) = cols[j][i]
    m = [cols[j][i] for i in range(3) for j in range(3)]
    return "%s %s %s" % (cmd, req, " ".join(_fmt(v) for v in m))


def _pair_cmd(pi, pj):
    return "pair %s %s" % (" ".join(_fmt(v) for v in pi), " ".join(_fmt(v) for v in pj))


def _lat(tokens):
    """real nm -> lattice; returns (tuple of ints or None if not on the integer lattice, raw floats)"""
    try:
        raw = [float(t) * U for t in tokens]
    except ValueError:
        return None, list(tokens)
    if len(raw) != 3:
        return None, raw
    out = []
    for v in raw:
        if v != v or v in (float("inf"), float("-inf")):
            return None, raw
        k = round(v)
        if abs(v - k) > 1e-9 * max(1.0, abs(v)):
            return None, raw
        out.append(int(k))
    return tuple(out), raw


def _parse_pair(lines):
    """-> dict f,b,g of (ints|None, raw) or an 'exc' string"""
    for ln in lines:
        if ln.startswith("exc"):
            return ln
        if ln.startswith("f "):
            p = ln.split()
            return {"f": _lat(p[1:4]), "b": _lat(p[5:8]), "g": _lat(p[9:12])}
    return "exc no output"


def _parse_box(lines):
    for ln in lines:
        if ln.startswith("exc"):
            return ln
        if ln.startswith("type "):
            p = ln.split()
            try:
                return {"type": p[1], "vol": float(p[3]), "box": [float(t) for t in p[5:14]]}
            except (IndexError, ValueError):
                return "exc unreadable answer %r" % ln
    return "exc no output"


def _judge(ctx, recs, tag):
    """Let TLC judge observations (TracePbc).  recs: list of dict(id, box, typ, r, d)."""
    if not recs:
        return {}
    path = vlib.scratch_file("c02-%s.ndjson" % tag)
    vlib.write_ndjson(path, recs)
    res = vlib.tlc("pbc", "TracePbc", cfg="TracePbc.cfg", env={"TRACE": path}, timeout=1500)
    vlib.tlc_must_hold(res, "TracePbc (well-formed trace, certified image window)")
    ctx.add_tlc("TracePbc(%s)" % tag, res)
    out = {v["id"]: v for v in res.records}
    try:
        os.unlink(path)
    except OSError:
        pass
    if len(out) != len(recs):
        raise vlib.InfraError("TracePbc returned %d verdicts for %d records" % (len(out), len(recs)))
    return out


class _Checker:
    def __init__(self, ctx, exe):
        self.ctx = ctx
        self.exe = exe
        self.drift = 0
        self.stats = {"vectors": 0, "pairs": 0, "tie": 0, "nonexact": 0, "far": 0, "boxes": 0}
        self.seen = set()
        self.note = ""
        self.prefix = ""        # "hist:" while a history of setBox calls is replayed
        self.rep = None         # replay object overriding the per-vector one (the whole history)

    def _viol(self, key, text, rep):
        return self.ctx.violation(self.prefix + key, (self.note + text) if self.prefix else text,
                                  self.rep if self.rep is not None else rep)

    # ---- replay of TLC vectors ---------------------------------------------------------
    def vectors(self, vecs):
        ctx = self.ctx
        groups = {}
        for r in vecs:
            groups.setdefault((json.dumps(r["box"]), r["req"]), []).append(r)
        items = []
        for gi, ((bj, req), rs) in enumerate(sorted(groups.items())):
            cols = rs[0]["box"]
            cmds = [_box_cmd(req, cols)]
            if rs[0]["typ"] != "open":
                cmds.append("short")
            for r in rs:
                for p in r["pairs"]:
                    cmds.append(_pair_cmd(p["i"], p["j"]))
            items.append((gi, cmds))
        results, crashes = vlib.run_items(self.exe, items)
        pending = []     # observations TLC has to judge: (record for TracePbc, info)
        for gi, ((bj, req), rs) in enumerate(sorted(groups.items())):
            typ = rs[0]["typ"]
            cols = rs[0]["box"]
            self.stats["boxes"] += 1
            if gi in crashes:
                self._viol("%s:crash" % typ, "driver died: " + crashes[gi], {"vector": rs[0]})
                continue
            out = results[gi]
            self._box_checks(req, typ, cols, rs[0], out)
            k = 2 if typ != "open" else 1
            for r in rs:
                obs = []
                for p in r["pairs"]:
                    obs.append(_parse_pair(out[k]))
                    k += 1
                self._vector(r, obs, pending)
        self._resolve(pending)

    def _box_checks(self, req, typ, cols, rec, out, loose_typ=None):
        ctx = self.ctx
        b = _parse_box(out[0])
        zero = all(v == 0 for c in cols for v in c)
        rep = {"vector": rec}
        if isinstance(b, str):
            self._viol("setBox:%s:exception" % req, "setBox threw: %s" % b, rep)
            return
        if loose_typ is not None:
            typ = loose_typ
        if b["type"] != typ:
            self._viol("setBox:%s:type" % req, "getBoxType()=%s, expected %s for box %s requested %s" %
                          (b["type"], typ, cols, req), rep)
        m = [cols[j][i] / U for i in range(3) for j in range(3)]
        if b["box"] != m:
            self._viol("setBox:getBox", "getBox() returned %s after setBox(%s)" % (b["box"], m), rep)
        if not (typ == "open" and not zero):          # volume of an explicitly open box: not specified
            if not vlib.close(b["vol"] * U ** 3, rec["vol"], 1e-12, 1e-12):
                self._viol("BoxVolume:%s" % typ, "BoxVolume()=%r nm^3 = %r lattice^3, expected %d for box %s" %
                              (b["vol"], b["vol"] * U ** 3, rec["vol"], cols), rep)
        if typ != "open" and loose_typ is None:
            ln = out[1][0] if out[1] else "exc no output"
            if not ln.startswith("short "):
                self._viol("ShortestBoxSize:%s:exception" % typ, ln, rep)
            else:
                try:
                    h = float(ln.split()[1]) * U
                except (IndexError, ValueError):
                    h = float("nan")
                # integer identity  h^2 * |n|^2 = V^2  for the face with the largest normal
                if not (h > 0 and vlib.close(h * h * rec["hn2"], float(rec["vol"]) ** 2, 1e-9, 0)):
                    self._viol("ShortestBoxSize:%s" % typ,
                                  "ShortestBoxSize()=%r lattice units: h^2*|n|^2=%r but V^2=%d (box %s)" %
                                  (h, h * h * rec["hn2"], rec["vol"] ** 2, cols), rep)

    def _vector(self, r, obs, pending):
        ctx = self.ctx
        ctx.count()
        st = self.stats
        st["vectors"] += 1
        st["pairs"] += len(obs)
        typ = r["typ"]
        per = typ != "open"
        if r["tie"]:
            st["tie"] += 1
        if not r["exact"]:
            st["nonexact"] += 1
        if len(obs) > 2:
            st["far"] += 1
        if r["tie"] or not r["exact"] or r["req"] != "auto":
            ctx.nontriv(("v", json.dumps(r["box"]), r["req"], tuple(r["r"])))
        mins = set(tuple(v) for v in r["mins"])
        nmins = set(tuple(-x for x in v) for v in mins)
        rep = self.rep if self.rep is not None else {"vector": r}
        first_ok = True
        for n, (p, o) in enumerate(zip(r["pairs"], obs)):
            far = ":far" if n == 2 else ""
            if isinstance(o, str):
                self._viol("%s:BCShortestConnection:exception" % typ, "%s on %s" % (o, p), rep)
                first_ok = False if n == 0 else first_ok
                continue
            f, b, g = o["f"][0], o["b"][0], o["g"][0]
            algo, algob = tuple(p["algo"]), tuple(p["algob"])
            rp = tuple(p["j"][c] - p["i"][c] for c in range(3))     # input of this call (for the judge only)
            what = "box %s type %s points %s -> %s: f=%s b=%s getDist=%s" % (r["box"], typ, p["i"], p["j"],
                                                                              o["f"][1], o["b"][1], o["g"][1])
            if not per:
                if f != algo or b != algob:
                    self._viol("open:BCShortestConnection:not-plain-difference", what, rep)
                if g != algo:
                    self._viol("open:getDist:not-plain-difference", what, rep)
                continue
            if n > 0 and not first_ok:
                continue                      # the unshifted pair already failed; reported there
            if None in (f, b, g):
                self._viol("%s:BCShortestConnection:off-lattice" % typ, "result not on the integer lattice: " + what, rep)
                if n == 0:
                    first_ok = False
                continue
            if r["exact"]:
                okf, okb, okg = f in mins, b in nmins, g in mins
                if okf and okb and okg:
                    continue
                if n > 0:
                    self._viol("%s:BCShortestConnection:shift-variance%s" % (typ, far),
                                  "shifting the points by whole box vectors changed the result: %s; shortest images %s"
                                  % (what, sorted(mins)), rep)
                    continue
                first_ok = False
                if not okf:
                    pending.append(({"box": r["box"], "typ": typ, "r": list(rp), "d": list(f)},
                                    {"kind": "exact", "typ": typ, "what": what, "rep": rep, "d2": r["d2"], "note": self.note}))
                elif not okb:
                    self._viol("%s:BCShortestConnection:antisymmetry" % typ,
                                  "swapped points do not give a shortest image of -r: %s; shortest images of r %s"
                                  % (what, sorted(mins)), rep)
                else:
                    self._viol("%s:getDist:differs" % typ, "getDist is not a shortest image: %s; shortest %s"
                                  % (what, sorted(mins)), rep)
                continue
            # triclinic beyond half the shortest height: only lattice membership, antisymmetry and
            # shift invariance (off ties) are promised.  Equality with the transcription settles all
            # three (TLC proved them for the transcription); otherwise TLC judges the observation.
            if f == algo and b == algob and g == algo:
                continue
            if n == 0:
                first_ok = False
            if not r["tie"]:
                if b != tuple(-x for x in f):
                    self._viol("%s:BCShortestConnection:antisymmetry" % typ, "b != -f off a tie: " + what, rep)
                    continue
                if n > 0 and obs[0]["f"][0] is not None and f != obs[0]["f"][0]:
                    self._viol("%s:BCShortestConnection:shift-variance%s" % (typ, far),
                                  "shifted pair gives %s, unshifted %s: %s" % (f, obs[0]["f"][0], what), rep)
                    continue
            if g != f:
                self._viol("%s:getDist:differs" % typ, "getDist != BCShortestConnection: " + what, rep)
                continue
            pending.append(({"box": r["box"], "typ": typ, "r": list(rp), "d": list(f)},
                            {"kind": "loose", "typ": typ, "what": what, "rep": rep, "note": self.note}))
            pending.append(({"box": r["box"], "typ": typ, "r": [-x for x in rp], "d": list(b)},
                            {"kind": "loose", "typ": typ, "what": what, "rep": rep, "note": self.note}))

    def _resolve(self, pending):
        """TLC classifies the observations that are not what the specification listed."""
        ctx = self.ctx
        if not pending:
            return
        pending = pending[:4000]
        recs = []
        for i, (rec, info) in enumerate(pending):
            rec = dict(rec)
            rec["id"] = i
            recs.append(rec)
        verdicts = _judge(ctx, recs, "resolve")
        for i, (rec, info) in enumerate(pending):
            v = verdicts[i]
            typ = info["typ"]
            self.rep, self.note = None, info.get("note", "")
            if not v["inlat"]:
                self._viol("%s:BCShortestConnection:off-lattice" % typ,
                              "result - r is not an integer combination of the box vectors: " + info["what"], info["rep"])
            elif info["kind"] == "exact":
                self._viol("%s:BCShortestConnection:not-shortest" % typ,
                              "result is a periodic image but not a shortest one (|d|^2 should be %s): %s"
                              % (info["d2"], info["what"]), info["rep"])
            else:
                self.drift += 1     # differs from the transcription, satisfies the statement

    # ---- mode H: histories of setBox calls on ONE Topology ---------------------------------------------
    def histories(self, hists):
        """every call must leave the Topology as a fresh one with that last box would be: the
        expectation of each step is the mode-L expectation (from TLC) for its box"""
        ctx = self.ctx
        items = []
        for i, hrec in enumerate(hists):
            cmds = ["newtop"]
            for st in hrec["h"]:
                if st["req"] == "cleanup":
                    cmds.append("cleanup")
                else:
                    cmds.append(_box_cmd(st["req"], st["box"], "setbox"))
                    if st["typ"] != "open" and not st["loose"]:
                        cmds.append("short")
                for p in st["probes"]:
                    cmds.append(_pair_cmd(p["pairs"][0]["i"], p["pairs"][0]["j"]))
                # the same probe through a Clone() of the boundary and through CopyTopologyData; the stored
                # matrix is unspecified after Cleanup() (flag 0: compare type and connection vector only)
                cmds.append("copies %s %s %d" % (" ".join(_fmt(v) for v in (1, -2, 3)), " ".join(_fmt(v) for v in (4, 0, 2)),
                                               0 if st["req"] == "cleanup" else 1))
            items.append((i, cmds))
        results, crashes = vlib.run_items(self.exe, items)
        self.prefix = "hist:"
        pending = []
        try:
            for i, hrec in enumerate(hists):
                ctx.traces += 1
                self.stats["histories"] = self.stats.get("histories", 0) + 1
                self.rep = {"history": hrec}
                kinds = [st["typ"] for st in hrec["h"]]
                if len(set(kinds)) > 1:
                    ctx.nontriv(("hist", json.dumps([[st["box"], st["req"]] for st in hrec["h"]])))
                if i in crashes:
                    self._viol("crash", "driver died: " + crashes[i], None)
                    continue
                out = results[i]
                k = 1
                for n, st in enumerate(hrec["h"]):
                    self.note = "after setBox history %s (call %d): " % (
                        [(s_["req"], s_["typ"], s_["box"]) for s_ in hrec["h"][:n + 1]], n + 1)
                    self.stats["hist_" + ("loose" if st["loose"] else st["req"])] = \
                        self.stats.get("hist_" + ("loose" if st["loose"] else st["req"]), 0) + 1
                    if st["req"] == "cleanup":
                        ln = out[k][0] if out[k] else "exc no output"
                        if ln != "type open":
                            self._viol("Cleanup:type", "after Topology::Cleanup(): %s, expected type open" % ln, None)
                        k += 1
                    elif st["loose"]:
                        # explicit type not matching the matrix: type, stored matrix and volume only
                        self._box_checks(st["req"], st["typ"], st["box"], dict(st, typ="open", hn2=0), out[k:k + 1],
                                         loose_typ=st["typ"])
                        k += 1
                    else:
                        nshort = 1 if st["typ"] != "open" else 0
                        self._box_checks(st["req"], st["typ"], st["box"], st, out[k:k + 1 + nshort])
                        k += 1 + nshort
                    for p in st["probes"]:
                        vec = dict(p, box=st["box"], req=st["req"], typ=st["typ"])
                        self._vector(vec, [_parse_pair(out[k])], pending)
                        k += 1
                    # Clone() and CopyTopologyData must answer exactly like the original
                    lines = {ln.split()[0]: ln.split()[1:] for ln in out[k] if ln.split()}
                    k += 1
                    self.stats["copies"] = self.stats.get("copies", 0) + 1
                    if "exc" in lines or "orig" not in lines:
                        self._viol("copies:exception", "Clone/CopyTopologyData probe failed: %s" % out[k - 1], None)
                    else:
                        if lines.get("clone") != lines["orig"]:
                            self._viol("Clone:differs", "BoundaryCondition::Clone() answers %s, the original %s "
                                       "(type, volume, matrix, shortest height, connection vector)"
                                       % (lines.get("clone"), lines["orig"]), None)
                        if lines.get("copy") != lines["orig"]:
                            self._viol("CopyTopologyData:differs", "the copied Topology answers %s, the original %s "
                                       "(type, volume, matrix, shortest height, connection vector)"
                                       % (lines.get("copy"), lines["orig"]), None)
                        if lines.get("copybeads") != ["5"]:
                            self._viol("CopyTopologyData:beads", "copied Topology has %s beads, expected 5 (two free beads, two in one molecule, one in another)"
                                       % lines.get("copybeads"), None)
            self._resolve(pending)
        finally:
            self.prefix, self.rep, self.note = "", None, ""

    # ---- mode H on BoundaryCondition objects (held object + clone) ---------------------------------------
    def bc_histories(self, hists):
        """SetBox / Query / Clone on held BoundaryCondition objects; the expectation of a query is the
        mode-L expectation (from TLC) for the last box set on that object with that object's class"""
        ctx = self.ctx
        mat = lambda cols: " ".join(_fmt(cols[j][i]) for i in range(3) for j in range(3))
        items = []
        for i, hr in enumerate(hists):
            cmds = ["bcnew %s %s %s" % (hr["cls"], hr["how"], mat(hr["init"]))]
            for op in hr["h"]:
                if op["op"] == "set":
                    cmds.append("bcset %s %s" % (op["obj"], mat(op["box"])))
                elif op["op"] == "clone":
                    cmds.append("bcclone")
                else:
                    op["_probes"] = sorted(op["probes"], key=lambda p: p["r"])
                    cmds.append("bcquery %s %d %s" % (op["obj"], len(op["_probes"]), " ".join(
                        " ".join(_fmt(v) for v in p["pairs"][0]["i"] + p["pairs"][0]["j"]) for p in op["_probes"])))
            items.append((i, cmds))
        results, crashes = vlib.run_items(self.exe, items)
        self.prefix = "bc:"
        pending = []
        st = self.stats
        try:
            for i, hr in enumerate(hists):
                ctx.traces += 1
                st["bc_histories"] = st.get("bc_histories", 0) + 1
                self.rep = {"bc_history": {k: v for k, v in hr.items()}}
                if i in crashes:
                    self._viol("crash", "driver died: " + crashes[i], None)
                    continue
                out = results[i]
                # vacuity: query -> setBox(other box) -> query on the same object
                state = {}      # obj -> [queried, last box, changed after a query]
                box = {"o": hr["init"]}
                for n, op in enumerate(hr["h"]):
                    lines = out[1 + n]
                    if any(ln.startswith("exc") for ln in lines):
                        self._viol("exception", "%s during %s" % (lines, op["op"]), None)
                        break
                    if op["op"] == "clone":
                        box["c"] = box["o"]
                        state.pop("c", None)
                        st["bc_clone"] = st.get("bc_clone", 0) + 1
                        continue
                    x = op["obj"]
                    if op["op"] == "set":
                        if state.get(x, {}).get("q") and op["box"] != box[x]:
                            state[x]["changed"] = True
                        box[x] = op["box"]
                        continue
                    if state.get(x, {}).get("changed"):
                        st["bc_requery_" + hr["cls"]] = st.get("bc_requery_" + hr["cls"], 0) + 1
                    if x == "c" and box["c"] != box["o"]:
                        st["bc_clone_diverged"] = st.get("bc_clone_diverged", 0) + 1
                    state[x] = {"q": True}
                    self.note = "%s object '%s' (%s) after %s: " % (
                        hr["cls"], x, "constructed directly" if hr["how"] == "new" else "Clone() of a Topology's boundary",
                        [hr["init"]] + [(o_["op"], o_.get("obj", ""), o_.get("box", "")) for o_ in hr["h"][:n]])
                    shortl = [ln for ln in lines if ln.startswith("short ")]
                    self._box_checks(hr["cls"], op["typ"], op["box"], op, [lines, shortl])
                    fl = [ln for ln in lines if ln.startswith("f ")]
                    if len(fl) != len(op["_probes"]):
                        self._viol("query:incomplete", "%d connection vectors for %d probes" % (len(fl), len(op["_probes"])), None)
                        continue
                    for p, ln in zip(op["_probes"], fl):
                        vec = dict(p, box=op["box"], req=hr["cls"], typ=op["typ"])
                        self._vector(vec, [_parse_pair([ln])], pending)
            self._resolve(pending)
        finally:
            self.prefix, self.rep, self.note = "", None, ""

    # ---- general boxes: volume only -----------------------------------------------------------
    def volumes(self, vecs):
        ctx = self.ctx
        items = [(i, [_box_cmd("tric", r["box"])]) for i, r in enumerate(vecs)]
        results, crashes = vlib.run_items(self.exe, items)
        for i, r in enumerate(vecs):
            ctx.count()
            if r["det"] <= 0:
                ctx.nontriv(("vol", json.dumps(r["box"])))
            rep = {"volume_vector": r}
            if i in crashes:
                ctx.violation("BoxVolume:general:crash", crashes[i], rep)
                continue
            b = _parse_box(results[i][0])
            if isinstance(b, str):
                ctx.violation("BoxVolume:general:exception", b, rep)
            elif not vlib.close(b["vol"] * U ** 3, r["vol"], 1e-12, 1e-9):
                ctx.violation("BoxVolume:general", "BoxVolume()=%r lattice^3, expected |det|=%d for box vectors %s"
                              % (b["vol"] * U ** 3, r["vol"], r["box"]), rep)

    # ---- opposite direction: random far-apart points, judged by TLC ----------------------------------
    def random_far(self, nbox, npair):
        ctx = self.ctx
        rnd = random.Random(ctx.seed * 7919 + 17)
        items, meta = [], []
        for bi in range(nbox):
            kind = rnd.choice(["ortho", "tric", "tric", "tric"])
            ax, by, cz = (rnd.randint(2, 14) for _ in range(3))
            if kind == "ortho":
                cols = [[ax, 0, 0], [0, by, 0], [0, 0, cz]]
            else:
                def off(lim):
                    return rnd.choice([-(lim // 2), lim // 2, rnd.randint(-(lim // 2), lim // 2)])
                cols = [[ax, 0, 0], [off(ax), by, 0], [off(ax), off(by), cz]]
                if cols[1][0] == 0 and cols[2][0] == 0 and cols[2][1] == 0:
                    cols[2][0] = ax // 2
            req = rnd.choice(["auto", "auto", "tric"]) if kind == "tric" else rnd.choice(["auto", "ortho", "tric"])
            typ = kind if req == "auto" else req
            cmds = [_box_cmd(req, cols)]
            pairs = []
            for _ in range(npair):
                k1 = [rnd.randint(-2000, 2000) for _ in range(3)]
                k2 = [rnd.randint(-2000, 2000) for _ in range(3)]
                if rnd.random() < 0.3:
                    k2 = list(k1)
                base = [rnd.randint(-20, 20) for _ in range(3)]
                r0 = [rnd.randint(-2 * e, 2 * e) for e in (ax, by, cz)]
                if rnd.random() < 0.3:      # aim at half-box ties and face points
                    r0 = [rnd.choice([0, e // 2, -(e // 2), e, (3 * e) // 2]) for e in (ax, by, cz)]
                pi = [base[c] + sum(k1[j] * cols[j][c] for j in range(3)) for c in range(3)]
                pj = [base[c] + r0[c] + sum(k2[j] * cols[j][c] for j in range(3)) for c in range(3)]
                pairs.append((pi, pj))
                cmds.append(_pair_cmd(pi, pj))
            items.append((bi, cmds))
            meta.append((cols, req, typ, pairs))
        results, crashes = vlib.run_items(self.exe, items)
        recs, info = [], []
        for bi, (cols, req, typ, pairs) in enumerate(meta):
            rep0 = {"random": {"box": cols, "req": req}}
            if bi in crashes:
                ctx.violation("%s:crash" % typ, crashes[bi], rep0)
                continue
            out = results[bi]
            b = _parse_box(out[0])
            if isinstance(b, str) or b["type"] != typ:
                ctx.violation("setBox:%s:type" % req, "getBoxType %s expected %s for %s" % (b, typ, cols), rep0)
                continue
            for n, (pi, pj) in enumerate(pairs):
                o = _parse_pair(out[1 + n])
                rep = {"random": {"box": cols, "req": req, "i": pi, "j": pj, "observed": str(o)}}
                what = "box %s type %s points %s -> %s: %s" % (cols, typ, pi, pj, o)
                if isinstance(o, str):
                    ctx.violation("%s:BCShortestConnection:exception" % typ, what, rep)
                    continue
                f, bb, g = o["f"][0], o["b"][0], o["g"][0]
                if None in (f, bb, g):
                    ctx.violation("%s:BCShortestConnection:off-lattice" % typ, "not on the integer lattice: " + what, rep)
                    continue
                if g != f:
                    ctx.violation("%s:getDist:differs" % typ, "getDist != BCShortestConnection: " + what, rep)
                rp = [pj[c] - pi[c] for c in range(3)]
                recs.append({"id": len(recs), "box": cols, "typ": typ, "r": rp, "d": list(f)})
                info.append((typ, what, rep, f, bb, "f"))
                recs.append({"id": len(recs), "box": cols, "typ": typ, "r": [-x for x in rp], "d": list(bb)})
                info.append((typ, what, rep, f, bb, "b"))
        verdicts = _judge(ctx, recs, "random")
        for i, (typ, what, rep, f, bb, which) in enumerate(info):
            v = verdicts[i]
            ctx.traces += 1
            if v["tie"] or not v["exact"]:
                ctx.nontriv(("rnd", what))
            if not v["inlat"]:
                ctx.violation("%s:BCShortestConnection:off-lattice" % typ,
                              "result - r is not an integer combination of the box vectors (%s): %s" % (which, what), rep)
            elif v["exact"] and not v["short"]:
                ctx.violation("%s:BCShortestConnection:not-shortest" % typ,
                              "not a shortest image (|d|^2 should be %s) (%s): %s" % (v["d2"], which, what), rep)
            elif which == "f" and not v["tie"] and bb != tuple(-x for x in f):
                ctx.violation("%s:BCShortestConnection:antisymmetry" % typ, "b != -f off a tie: " + what, rep)
            elif tuple(v["algo"]) != (f if which == "f" else bb) and not v["tie"]:
                self.drift += 1
        if recs:
            ctx.sample({"random_far_observation": recs[0], "verdict": verdicts[0]})


def run(ctx):
    bindir = vlib.ensure_build(["drv_pbc"])
    chk = _Checker(ctx, bindir + "/drv_pbc")
    quick = ctx.quick
    ctx.rule = ("one vector = one (box, requested type, displacement) point of the TLC domain, replayed with 1-3 "
                "placements of the two points (plain, near image shift, far image shift) through "
                "BCShortestConnection both ways and getDist; non-trivial = tie, triclinic beyond half the shortest "
                "height, or explicitly requested type; plus TLC-judged observations on random points up to 2000 "
                "boxes from the origin")
    ctx.assumptions += [
        "lattice: coordinates and box entries are integers / 8 nm; every quotient the code rounds is an exactly "
        "representable half-integer (tie) or at least 1/18 away from one, every product/difference is exact",
        "tie (several shortest images, or a round() argument exactly half-integer): only 'a shortest image' "
        "(where the statement promises shortest) and lattice membership are asserted",
        "triclinic beyond half the shortest height: lattice membership, antisymmetry, shift invariance only",
        "the image window of the brute-force specification is certified per point (plane-distance bound), "
        "InvWindow/Certified"]

    if getattr(ctx, "replay", None):
        obj = json.load(open(ctx.replay))["replay"]
        if "vector" in obj:
            chk.vectors([obj["vector"]])
        elif "history" in obj:
            chk.histories([obj["history"]])
        elif "bc_history" in obj:
            chk.bc_histories([obj["bc_history"]])
        elif "volume_vector" in obj:
            chk.volumes([obj["volume_vector"]])
        else:
            raise vlib.InfraError("replay of random observations: re-run with --seed %s" % ctx.seed)
        return

    # ---- 1. mode L vectors ------------------------------------------------------------------
    mod = "MCPbcQuick" if quick else "MCPbcThorough"
    nslices = 1 if quick else 5
    for s in range(nslices):
        sl = (ctx.seed - 1) * nslices + s
        res = vlib.tlc("pbc", mod, cfg=mod + ".cfg", timeout=2400, env={"C02_SLICE": sl})
        vlib.tlc_must_hold(res, "Pbc: Algo refines Spec (lattice, shortest, antisymmetry, shift, open, window, type)")
        ctx.add_tlc("%s[slice %d]" % (mod, sl), res)
        vecs = res.records
        m = re.search(r"Finished computing initial states: (?:(\d+) distinct state|\d+ states generated, with (\d+) of them distinct)",
                      res.out)
        ninit = int(m.group(1) or m.group(2)) if m else -1
        if not vecs or len(vecs) != res.distinct - ninit:   # one initial state per box
            raise vlib.InfraError("vector export incomplete: %d records, %d distinct states" % (len(vecs), res.distinct))
        res.out = ""
        chk.vectors(vecs)
        if s == 0:
            for pick in (lambda r: r["typ"] == "ortho" and not r["tie"], lambda r: r["typ"] == "tric" and r["tie"] and r["exact"],
                         lambda r: r["typ"] == "tric" and not r["exact"]):
                for r in vecs:
                    if pick(r):
                        ctx.sample({"vector": r})
                        break
        del vecs, res
    st = chk.stats
    # vacuity: the interesting classes must occur
    if not (st["tie"] > 0 and st["nonexact"] > 0 and st["far"] > 0):
        raise vlib.InfraError("vacuous vector set: %s" % st)

    # ---- 1b. mode H: histories of setBox calls on one Topology ------------------------------------
    cfg = "MCPbcHistQuick.cfg" if quick else "MCPbcHistThorough.cfg"
    res = vlib.tlc("pbc", "MCPbcHist", cfg=cfg, timeout=1200)
    vlib.tlc_must_hold(res, "PbcHist (expectation of a call depends on the last box only; probes certified)")
    ctx.add_tlc(cfg[:-4], res)
    hists = res.records
    if not hists:
        raise vlib.InfraError("no setBox histories exported")
    chk.histories(hists)
    ctx.sample({"setBox_history": hists[len(hists) // 2]})
    if not (chk.stats.get("hist_cleanup") and chk.stats.get("hist_loose") and chk.stats.get("copies")
            and chk.stats.get("hist_auto") and chk.stats.get("hist_open")):
        raise vlib.InfraError("vacuous setBox history set: %s" % chk.stats)
    if not quick:
        res = vlib.tlc("pbc", "MCPbcHist", cfg="MCPbcHistSim.cfg", timeout=1200, simulate=60, depth=7, workers=4,
                       seed=ctx.seed)
        vlib.tlc_must_hold(res, "PbcHist simulation")
        ctx.add_tlc("MCPbcHistSim(simulate)", res)
        chk.histories(res.records)
    del hists, res

    # ---- 1c. mode H on BoundaryCondition objects ---------------------------------------------------------
    cfg = "MCPbcBcHistQuick.cfg" if quick else "MCPbcBcHistThorough.cfg"
    res = vlib.tlc("pbc", "MCPbcBcHist", cfg=cfg, timeout=1200)
    vlib.tlc_must_hold(res, "PbcBcHist (a query answers for the object's own last box; probes certified)")
    ctx.add_tlc(cfg[:-4], res)
    if not res.records:
        raise vlib.InfraError("no BoundaryCondition histories exported")
    res.out = ""
    chk.bc_histories(res.records)
    ctx.sample({"bc_history": res.records[len(res.records) // 2]})
    del res
    if not (chk.stats.get("bc_requery_ortho") and chk.stats.get("bc_requery_tric") and chk.stats.get("bc_requery_open")
            and chk.stats.get("bc_clone_diverged")):
        raise vlib.InfraError("vacuous BoundaryCondition history set: %s" % chk.stats)

    # ---- 2. volume of general boxes ---------------------------------------------------------------
    res = vlib.tlc("pbc", "MCPbcVolume", cfg="MCPbcVolume.cfg", timeout=600)
    vlib.tlc_must_hold(res, "PbcVolume")
    ctx.add_tlc("MCPbcVolume", res)
    chk.volumes(res.records)

    # ---- 3. opposite direction ------------------------------------------------------------------------
    if quick:
        chk.random_far(60, 40)
    else:
        chk.random_far(600, 60)

    ctx.extra["c02"] = dict(st, algo_drift_warnings=chk.drift)
    if chk.drift:
        vlib.log("C02: %d observations differ from the transcription but satisfy the statement "
                 "(update spec/pbc/Pbc.tla Algo*)" % chk.drift)
    ctx.exhaustive = False
