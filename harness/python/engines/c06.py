"""C06 (partial) - inverse solvers return the true minimiser of the stated least-squares problem:
the two linear-algebra clauses + the csg_fmatch clauses in their relational reading.
spec/lsq: Lsq (exact rational linear algebra: determinant/adjugate by cofactor expansion, numerators over one
common denominator; Tikhonov normal equations, index-file splitting, KKT system of the constrained problem),
LsqCheck (bounded domains: exhaustive 2x2 families and seed-indexed pseudo-random families up to 4x4 / KKT 5x5),
Fmatch (csg_fmatch instances: lattice trajectories, a force function inside the spline space, block layouts; the
relations "block k of a blocked run = a run on block k's frames alone" and "fitted table = generating spline"),
MCLsq/MCFmatch (TLC wrappers).  Binding: (i) the real csg_imc_solve executable on generated .imc/.gmc/.idx files,
(ii) tools::linalg_constrained_qrsolve through harness/drivers/lsq.cc, (iii) the real csg_fmatch executable on
generated topology/options/lammps-dump files, forces generated with the real tools::CubicSpline."""
import fcntl
import math
import glob
import json
import os
import shutil
import subprocess
import tempfile
from concurrent.futures import ThreadPoolExecutor
import vlib

MANIFEST = dict(
    engine="lsq", design_ref="DESIGN.md 5/C06",
    technique="TLA+ spec of the normal equations (A^T A + r I) x = -A^T b, of the index-file splitting and of the "
              "KKT system of the equality-constrained least-squares problem in exact integer arithmetic, plus a TLA+ "
              "instance/relation spec for csg_fmatch (integer linear relations between outputs of the real code, as "
              "in C12), model-checked with TLC; every TLC-exported system is replayed into the real csg_imc_solve "
              "executable (generated .imc/.gmc/.idx files) resp. into tools::linalg_constrained_qrsolve (ASan+assert "
              "driver), every TLC-exported csg_fmatch instance is run with the real csg_fmatch (blocked run + one run "
              "per block) and the relations are evaluated on the written force tables",
    text="TLC enumerates integer systems (all 2x2 matrices over -2..2 with several b, r; seed-indexed pseudo-random "
         "non-symmetric A up to 4x4, b, r = rn/rd >= 0, index files with contiguous, strided and multi-block ranges; "
         "constrained problems m x n with 1-2 constraint rows, KKT size <= 5) and checks on the model that the "
         "Cramer solution satisfies the stated normal equations exactly, is the strict minimiser of |Ax+b|^2+r|x|^2 "
         "among its lattice neighbours, that the index entries partition the solution into the named tables, that "
         "the KKT solution satisfies C x = 0 exactly, has its residual gradient in the row space of C (all (p+1)-minors "
         "vanish; orthogonal to every lattice vector of null(C)) and is the minimiser among feasible lattice "
         "neighbours, and does not change when constraint rows are multiplied by non-zero integers; deliberately wrong models (A A^T, A b, sign, constraint ignored, feasible non-optimal point) are "
         "refuted by the same laws. Every exported system is then solved by the real code: csg_imc_solve -i -g -n -r "
         "on generated files (every *.dpot.imc compared row by row, grid and value, 1e-7) and "
         "linalg_constrained_qrsolve(A, b, C) (1e-9), the latter a second time with the constraint rows scaled by 2^k, "
         "k in {0, +-20, +-40, +-70} supplied by TLC (same rational expected, C x = 0 evaluated against the unscaled C). "
         "csg_imc_solve is also run on graded spectra A = U diag(2^-e) V with rational orthogonal U, V "
         "(singular values down to 7e-9, exact null directions, r = 2^-t from 1e3 to 6e-11), matrix and exact solution "
         "emitted as term lists, tolerance scaled with cond(A^T A + r I); linalg_constrained_qrsolve also in call "
         "histories (2-4 problems of one shape, constraint matrix rewritten in place or fresh: each call must return what "
         "it returns alone). csg_fmatch: TLC generates lattice trajectories (5-24 beads; one pair "
         "interaction, two pair interactions of two bead types side by side, a bond in two-bead molecules next to a "
         "pair interaction, an angle in three-bead molecules, or a periodic dihedral (fmatch.periodic) in four-bead "
         "molecules on an equidistant or non-equidistant grid; the force function is the cubic spline through integer knot "
         "values whose second derivatives TLC computes exactly, evaluated by the real CubicSpline from (y, y'') so that the "
         "generator shares no continuity/boundary code with the fit; 1-3 blocks of 1-3 frames plus an incomplete trailing block, constrained and plain least "
         "squares, spline grid of 4-5 knots on a dyadic or a decimal (0.1 nm) grid, out_step = step or step/2, integer "
         "knot values, optional integer noise on the forces, nbsearch grid/simple) and guards in exact integer "
         "arithmetic that every block's least-squares problem has full rank (no force cancellation, >= 2 distinct "
         "distances per spline interval); the reference forces are generated with the real tools::CubicSpline from "
         "the knot values; the relations 'K * table(blocked run) = sum of the tables of single-block runs on each "
         "block's frames (--first-frame/--nframes)', 'table(run with --trj-force known and forces F+known) = table(run "
         "with forces F)' and, without noise, 'written force table = generating spline on the output grid' (1e-6) are "
         "evaluated on every .force file the real csg_fmatch writes. The constrained family includes p = 0 (plain "
         "least squares through the same routine).",
    note="PARTIAL CLAIM: the two linear-algebra clauses of C06 (csg_imc_solve incl. index-file splitting; the "
         "constrained least-squares routine) and, for csg_fmatch, block independence and reproduction of a representable "
         "force function for pair interactions (one, or two of different bead types at once), a BOND next to a pair "
         "interaction, an ANGLE and a periodic DIHEDRAL (each alone), without mapping, incl. --trj-force, out_step < step and decimal grids, in the relational reading (both sides of "
         "every comparison are outputs of the real code; the spec supplies instances, well-posedness and the relation). "
         "NOT covered: angle/dihedral interactions mixed with non-bonded ones, three-body interactions, mapping (C01), "
         "the gradients of the bonded interactions themselves (the generator takes them from the real IAngle/IDihedral: "
         "see C07), --trj-force together with --first-frame, an "
         "absolute numeric oracle for noisy data (no exact integer model of that "
         "least-squares problem of useful size exists, and a harness that only reports 'close enough' to TLC would be a "
         "change of technique). "
         "tools::linalg_qrsolve no longer exists in this code base (only named in csg_resample error texts). "
         "Also outside: r = 0 with singular A^T A (the tool's pseudo-inverse branch; the statement demands r > 0; "
         "r = 0 with regular A is included as the limit case), non-square .gmc (the tool takes its grid from the "
         ".imc file), A with an exactly zero column in the constrained routine (the routine rejects it by an "
         "explicit exception, admitted). The force unit conversion of the lammps dump reader is read from the real "
         "code (its value is C20's business). Trusted: TLC, the text writers/readers of the check, the force "
         "assembly F_i = sum G(r_ij) e_ij of the generator, Python's integer-to-float division.")

NAMES = ["A-A", "A-B", "B-B", "bond1", "angle1", "CG-CG"]
GRID = 16.0


# ------------------------------------------------------------------------------------------------
# binaries: private copy (other checks relink the shared build tree while we spawn processes)
# ------------------------------------------------------------------------------------------------
def snapshot(bindir):
    snap = tempfile.mkdtemp(prefix="c06-bin-", dir=vlib.SCRATCH)
    lockf = open(os.path.join(vlib.ROOT, "build.lock"), "a")
    fcntl.flock(lockf, fcntl.LOCK_EX)
    try:
        for exe in ("csg_imc_solve", "csg_fmatch", "drv_lsq"):
            shutil.copy2(os.path.join(bindir, exe), snap)
        for lib in glob.glob(os.path.join(os.path.dirname(bindir), "lib", "libvotca_*.so*")):
            shutil.copy2(lib, snap)
    finally:
        fcntl.flock(lockf, fcntl.LOCK_UN)
        lockf.close()
    env = {"LD_LIBRARY_PATH": snap + (":" + os.environ["LD_LIBRARY_PATH"] if os.environ.get("LD_LIBRARY_PATH") else "")}
    return snap, env


# ------------------------------------------------------------------------------------------------
# Tikhonov / splitting clause: one run of csg_imc_solve per TLC record
# ------------------------------------------------------------------------------------------------
def tname(rec, ident):
    return NAMES[(ident - 1 + rec.get("s", 0)) % len(NAMES)]


def render_range(blocks):
    return ",".join(":".join(str(v) for v in bl) for bl in blocks)


def num(v):
    return "%d" % v


def write_tik(rec, d, var):
    """input files as imcio_write_matrix / imcio_write_dS / imcio_write_index write them (var 0) or in equally legal
    layouts (var 1: comment line, tabs, flag column; var 2: decimal/exponent number formats, table with a leading
    size line and an error column, as Table::Save writes tables with errors)."""
    with open(os.path.join(d, "sys.gmc"), "w") as f:
        if var == 1:
            f.write("# gmc\n")
        for row in rec["A"]:
            if var == 1:
                f.write("\t".join(num(v) for v in row) + "\n")
            elif var == 2:
                f.write(" ".join(("%.1f" % v) if (v + k) % 2 else ("%.3e" % v) for k, v in enumerate(row)) + "\n")
            else:
                f.write("".join(num(v) + " " for v in row) + "\n")
    with open(os.path.join(d, "sys.imc"), "w") as f:
        if var == 2:
            f.write("%d\n" % len(rec["b"]))
        for g, b in zip(rec["grid"], rec["b"]):
            if var == 2:
                f.write("%s %.1f 0.25 i\n" % (repr(g / GRID), b))
            else:
                f.write("%s %s%s\n" % (repr(g / GRID), num(b), " i" if var == 1 else ""))
    with open(os.path.join(d, "sys.idx"), "w") as f:
        for e in rec["idx"]:
            f.write("%s %s\n" % (tname(rec, e["name"]), render_range(e["blocks"])))


def tik_cmd(exe, rec, var):
    r = rec["rn"] / float(rec["rd"])          # dyadic: exact
    if var >= 1:
        cmd = [exe, "--imcfile", "sys.imc", "--gmcfile", "sys.gmc", "--idxfile", "sys.idx"]
        if rec["rn"] != 0:                     # 0 is the documented default
            cmd += ["--regularization", repr(r)]
    else:
        cmd = [exe, "-i", "sys.imc", "-g", "sys.gmc", "-n", "sys.idx", "-r", repr(r)]
    return cmd


def run_tik(exe, env, base, i, rec):
    d = os.path.join(base, "t%06d" % i)
    shutil.rmtree(d, ignore_errors=True)
    os.makedirs(d)
    var = rec.get("var", i % 3)         # a replayed record carries the file layout it failed with
    write_tik(rec, d, var)
    cmd = tik_cmd(exe, rec, var)
    e = dict(os.environ)
    e.update(env)
    try:
        p = subprocess.run(cmd, cwd=d, stdout=subprocess.PIPE, stderr=subprocess.STDOUT, text=True, timeout=120, env=e)
        rc, out = p.returncode, p.stdout
    except subprocess.TimeoutExpired:
        rc, out = -999, "TIMEOUT"
    tables = {}
    for path in glob.glob(os.path.join(d, "*.dpot.imc")):
        rows = []
        for ln in open(path):
            ln = ln.split("#")[0].split()
            if ln:
                rows.append(ln)
        tables[os.path.basename(path)[:-len(".dpot.imc")]] = rows
    shutil.rmtree(d, ignore_errors=True)
    return cmd, rc, out, tables


# graded spectra: matrix entries and solution components arrive as term lists (sums of n/d * 2^-e resp.
# n/d * 2^p / (1 + 2^-q)); Python only converts them to doubles
def gr_matrix(rec):
    return [[sum(t["n"] / float(t["d"]) * 2.0 ** -t["e"] for t in cell) for cell in row] for row in rec["Aterms"]]


def gr_solution(rec):
    return [sum(t["n"] / float(t["d"]) * 2.0 ** t["p"] / (1.0 + 2.0 ** -t["q"]) for t in comp) for comp in rec["xterms"]]


def run_gr(exe, env, base, i, rec):
    d = os.path.join(base, "g%06d" % i)
    shutil.rmtree(d, ignore_errors=True)
    os.makedirs(d)
    with open(os.path.join(d, "sys.gmc"), "w") as f:
        for row in gr_matrix(rec):
            f.write(" ".join(repr(v) for v in row) + "\n")
    with open(os.path.join(d, "sys.imc"), "w") as f:
        for g, b in zip(rec["grid"], rec["b"]):
            f.write("%s %s\n" % (repr(g / GRID), num(b)))
    with open(os.path.join(d, "sys.idx"), "w") as f:
        for e in rec["idx"]:
            f.write("%s %s\n" % (tname(rec, e["name"]), render_range(e["blocks"])))
    cmd = [exe, "-i", "sys.imc", "-g", "sys.gmc", "-n", "sys.idx", "-r", repr(2.0 ** -rec["t"])]
    e = dict(os.environ)
    e.update(env)
    try:
        p = subprocess.run(cmd, cwd=d, stdout=subprocess.PIPE, stderr=subprocess.STDOUT, text=True, timeout=120, env=e)
        rc, out = p.returncode, p.stdout
    except subprocess.TimeoutExpired:
        rc, out = -999, "TIMEOUT"
    tables = {}
    for path in glob.glob(os.path.join(d, "*.dpot.imc")):
        tables[os.path.basename(path)[:-len(".dpot.imc")]] = [ln.split() for ln in open(path) if ln.split()]
    shutil.rmtree(d, ignore_errors=True)
    return cmd, rc, out, tables


def gr_class(rec):
    live = [e for e in rec["e"] if e >= 0]
    tiny = any(e >= 20 for e in live)
    return "%s:%s" % ("tiny-sigma" if tiny else "moderate-sigma", "small-r" if rec["t"] >= 20 else "moderate-r")


def compare_gr(ctx, rec, rc, out, tables):
    if rc == -999:
        raise vlib.InfraError("csg_imc_solve timed out")
    if "error while loading shared libraries" in out or "file too short" in out:
        raise vlib.InfraError("csg_imc_solve could not be loaded: " + out[-300:])
    if rc != 0:
        return [("imc_solve:run:exit", "csg_imc_solve exit status %s: %s" % (rc, out[-300:]))]
    x = gr_solution(rec)
    # the real solver works in double precision: admissible relative error grows with cond(A^T A + r I) = 2^condlog2;
    # where the exact solution (nearly) vanishes by cancellation, the rounding noise of A^T b (~1e-16 |b|) amplified by
    # 1/(smallest eigenvalue + r) = 2^(condlog2 - log2(largest eigenvalue + r)) is admitted absolutely
    tol = 1e-7 + 4e-15 * 2.0 ** rec["condlog2"]
    scale = max(abs(v) for v in x)
    slack = 1e-14 * max([abs(v) for v in rec["b"]] + [1.0]) * 2.0 ** (rec["condlog2"] - max(0, -rec["t"]))
    bad = []
    for t in rec["tables"]:
        nm = tname(rec, t["name"])
        rows = tables.get(nm)
        if rows is None or len(rows) != len(t["rows"]):
            bad.append(("imc_solve:split:rows", "table %s.dpot.imc: %s rows, expected %d" % (nm, None if rows is None else len(rows), len(t["rows"]))))
            continue
        for k, (r_, (g, pos)) in enumerate(zip(rows, t["rows"])):
            ctx.count(2)
            try:
                gx, y = float(r_[0]), float(r_[1])
            except (ValueError, IndexError):
                bad.append(("imc_solve:split:format", "%s.dpot.imc row %d: %s" % (nm, k + 1, r_)))
                break
            if not vlib.close(gx, g / GRID, 1e-9, 1e-12):
                bad.append(("imc_solve:split:grid", "%s.dpot.imc row %d: grid value %r, expected %r" % (nm, k + 1, gx, g / GRID)))
                break
            if not abs(y - x[pos - 1]) <= tol * scale + slack:
                bad.append(("imc_solve:solution:graded:" + gr_class(rec),
                            "%s.dpot.imc row %d: written %r, solution of (A^T A + r I) x = -A^T b is %.10g (|x|max %.3g, "
                            "singular values 2^-%s, r = 2^%d, cond 2^%d, tolerance %.1e)" % (
                                nm, k + 1, y, x[pos - 1], scale, rec["e"], -rec["t"], rec["condlog2"], tol)))
                break
    return bad


def tik_class(rec):
    return "%s:%s" % ("rpos" if rec["rn"] > 0 else "rzero", "sym" if rec["sym"] else "nonsym")


def compare_tik(ctx, rec, rc, out, tables):
    """returns [(key, text)]"""
    if rc == -999:
        raise vlib.InfraError("csg_imc_solve timed out")
    if "error while loading shared libraries" in out or "file too short" in out:
        raise vlib.InfraError("csg_imc_solve could not be loaded: " + out[-300:])
    if rc != 0:
        return [("imc_solve:run:exit", "csg_imc_solve exit status %s: %s" % (rc, out[-300:]))]
    bad = []
    expected = {tname(rec, t["name"]): t["rows"] for t in rec["tables"]}
    for nm in sorted(set(expected) - set(tables)):
        bad.append(("imc_solve:split:table-missing", "table %s.dpot.imc was not written" % nm))
    for nm in sorted(set(tables) - set(expected)):
        bad.append(("imc_solve:split:table-extra", "unexpected table %s.dpot.imc" % nm))
    den = float(rec["den"])
    valbad = None
    for nm in sorted(set(expected) & set(tables)):
        rows, exp = tables[nm], expected[nm]
        try:
            got = [(float(r[0]), float(r[1])) for r in rows]
        except (ValueError, IndexError):
            bad.append(("imc_solve:split:format", "%s.dpot.imc is not a numeric table: %s" % (nm, rows[:3])))
            continue
        if len(got) != len(exp):
            bad.append(("imc_solve:split:rows", "%s.dpot.imc has %d rows, the index entry names %d positions" % (
                nm, len(got), len(exp))))
            continue
        for k, ((x, y), (g, n_)) in enumerate(zip(got, exp)):
            ctx.count(2)
            if not vlib.close(x, g / GRID, 1e-9, 1e-12):
                bad.append(("imc_solve:split:grid", "%s.dpot.imc row %d: grid value %r, expected %r" % (nm, k + 1, x, g / GRID)))
                break
            ev = n_ / den
            if abs(y - ev) > 1e-9 + 1e-7 * abs(ev):
                if valbad is None:
                    valbad = "%s.dpot.imc row %d (grid %r): written %r, solution of the normal equations %.10g = %d/%d" % (
                        nm, k + 1, x, y, ev, n_, rec["den"])
    if valbad is not None:
        bad.append((VALUE, valbad))      # solution or splitting at fault: decided over all systems, see value_key
    return bad


VALUE = "imc_solve:value"


def single_table(rec):
    return len(rec["idx"]) == 1 and rec["idx"][0]["blocks"] in ([[1, rec["n"]]], [[1]])


def value_key(rec, solver_wrong):
    """A wrong table value is the solver's fault if systems whose index file is the single entry `name 1:n` fail too
    (then every failure is keyed by the class of its system); if only multi-table systems fail, the splitting is."""
    if solver_wrong or single_table(rec):
        return "imc_solve:solution:" + tik_class(rec)
    return "imc_solve:split:wrong-rows"


def tik_text(rec, cmd):
    return "[A=%s b=%s r=%d/%d idx=%s; %s]" % (rec["A"], rec["b"], rec["rn"], rec["rd"],
                                               ["%s %s" % (tname(rec, e["name"]), render_range(e["blocks"])) for e in rec["idx"]],
                                               " ".join(cmd[1:]))


# ------------------------------------------------------------------------------------------------
# constrained clause: tools::linalg_constrained_qrsolve through drv_lsq
# ------------------------------------------------------------------------------------------------
def con_cmd(rec):
    flat = [v for row in rec["A"] for v in row] + list(rec["b"]) + [v for row in rec["C"] for v in row]
    return "cq %d %d %d %s" % (rec["m"], rec["n"], rec["p"], " ".join(num(v) for v in flat))


def con_cmd_scaled(rec):
    """same problem with constraint row i multiplied by 2^kexp[i] (exact in floating point, exact as 17-digit text)"""
    flat = [num(v) for row in rec["A"] for v in row] + [num(v) for v in rec["b"]]
    flat += [repr(float(v) * 2.0 ** k) for row, k in zip(rec["C"], rec["kexp"]) for v in row]
    return "cq %d %d %d %s" % (rec["m"], rec["n"], rec["p"], " ".join(flat))


def hist_cmd(rec):
    parts = ["cqseq %d %d %d %d" % (len(rec["calls"]), rec["m"], rec["n"], rec["p"])]
    for mode, c in zip(rec["mode"], rec["calls"]):
        flat = [v for row in c["A"] for v in row] + list(c["b"]) + [v for row in c["C"] for v in row]
        parts.append(mode + " " + " ".join(num(v) for v in flat))
    return " ".join(parts)


def compare_con(ctx, rec, lines, scaled=False, infix=""):
    """returns [(key, text)] ; lines = driver output of the one command.  scaled: the routine was given diag(2^k) C;
    the expectation is the SAME rational (row scaling does not change the minimiser) and C x = 0 is evaluated
    against the unscaled C of the TLC record."""
    tag = "constrained_qrsolve:p=%d" % rec["p"] + (":row-scaled" if scaled else "") + infix
    ex = [ln for ln in lines if ln.startswith("exc")]
    if ex:
        if rec["zerocol"] and "zero_column" in ex[0]:
            ctx.nontriv("constrained:zero-column:rejected")   # explicit precondition of the routine: admitted
            return []
        return [(tag + ":exception", "linalg_constrained_qrsolve threw on a well-posed problem: %s" % ex[0])]
    xl = [ln for ln in lines if ln.startswith("x")]
    if not xl:
        return [(tag + ":no-result", "no result line: %s" % lines)]
    try:
        x = [float(t) for t in xl[0].split("sameaddr")[0].split()[1:]]
    except ValueError:
        return [(tag + ":no-result", "unparseable result: %s" % xl[0])]
    if len(x) != rec["n"] or any(v != v or v in (float("inf"), float("-inf")) for v in x):
        return [(tag + ":no-result", "result %s is not a finite vector of length %d" % (x, rec["n"]))]
    den = float(rec["den"])
    exp = [n_ / den for n_ in rec["num"]]
    scale = max(1.0, max(abs(v) for v in exp))
    ctx.count(len(x))
    if all(abs(a - b) <= 1e-9 * scale for a, b in zip(x, exp)):
        return []
    # which of the two stated properties fails on the returned vector?  (C from the TLC record)
    xs = max(1.0, max(abs(v) for v in x))
    cx = [sum(c * v for c, v in zip(row, x)) for row in rec["C"]]
    if any(abs(v) > 1e-9 * xs * 2 * rec["n"] for v in cx):
        return [(tag + ":constraint-violated", "C x = %s for the returned x = %s (expected %s)" % (cx, x, exp))]
    return [(tag + ":not-minimiser", "returned x = %s satisfies C x = 0 but the constrained minimiser is %s "
             "(residual gradient not orthogonal to null(C))" % (x, exp))]


def con_text(rec):
    return "[A=%s b=%s C=%s]" % (rec["A"], rec["b"], rec["C"])


# ------------------------------------------------------------------------------------------------
# csg_fmatch clauses (spec/lsq/Fmatch.tla): relations between outputs of the real code
# ------------------------------------------------------------------------------------------------
UNIT = 8.0            # position lattice units per nm


def fm_variant(rec):
    return "constrained" if rec["con"] else "plain"


def fm_label(rec, c):
    it = rec["inter"][c]
    if rec["layout"] >= 3:
        return "angle" if rec["layout"] == 3 else "dihedral-periodic"
    return "bond" if it["bond"] else ("pair" if it["name"] == "A-A" else "pair-AB")


def fm_unit(rec):
    """size of one spline-grid unit of the TLC record in the units of the options file (nm resp. rad)"""
    if rec["layout"] >= 3:
        return math.radians(rec["inter"][0]["udeg"])
    return 1.0 / rec["gden"]


def fm_grid(rec):
    """(min, max, step, out_step) as the strings that go both into the options file and to the generator"""
    if rec["layout"] >= 3:
        return ("%.10f" % math.radians(rec["kdeg"][0]), "%.10f" % math.radians(rec["kdeg"][-1]),
                "%.10f" % math.radians(rec["stepdeg"]), "%.10f" % math.radians(rec["stepdeg"] / float(rec["osub"])))
    gmax = rec["gmin"] + (rec["n"] - 1) * rec["gstep"]
    d = float(rec["gden"])
    return repr(rec["gmin"] / d), repr(gmax / d), repr(rec["gstep"] / d), repr(rec["gstep"] / (d * rec["osub"]))


def fm_outgrid(rec):
    nout = rec["nout"]
    if rec["layout"] >= 3:
        mn, _, _, ost = fm_grid(rec)
        return [float(mn) + i * float(ost) for i in range(nout)]
    return [(rec["gmin"] * rec["osub"] + i * rec["gstep"]) / float(rec["gden"] * rec["osub"]) for i in range(nout)]


def fm_instance_cmds(rec):
    """angle/dihedral instances: the real IAngle/IDihedral evaluate variable and gradients of every molecule"""
    kind = "angle" if rec["layout"] == 3 else "dihedral"
    cmds = []
    for fr in rec["frames"]:
        for m in range(rec["nm"]):
            ps = fr["pos"][m * rec["mb"]:(m + 1) * rec["mb"]]
            cmds.append("ia %s %s" % (kind, " ".join(repr(c / UNIT) for p_ in ps for c in p_)))
    return cmds


def fm_generator_cmds(rec, ivars=None):
    """per interaction: the real CubicSpline evaluates the force function - given by its knot values and the exact
    second derivatives of the TLC record (setSplineData) - at every pair distance / instance variable of that class and
    at the output grid points"""
    mn, mx, st, _ = fm_grid(rec)
    u = fm_unit(rec)
    cmds = []
    for c, it in enumerate(rec["inter"]):
        if rec["layout"] >= 3:
            rs = [repr(v) for v in ivars]
        else:
            rs = [repr((p[2] ** 0.5) / UNIT) for fr in rec["frames"] for p in fr["pairs"] if p[3] == c + 1]
        rs += [repr(x) for x in fm_outgrid(rec)]
        f2 = [repr(v / float(it["m2den"]) / (u * u)) for v in it["m2num"]]
        cmds.append("spd %s %s %s %d %s %s %d %s" % (mn, mx, st, rec["n"], " ".join(num(v) for v in it["y"]), " ".join(f2),
                                                     len(rs), " ".join(rs)))
    return cmds


def fm_write_dump(path, rec, forces):
    with open(path, "w") as f:
        for fi, (fr, F) in enumerate(zip(rec["frames"], forces)):
            f.write("ITEM: TIMESTEP\n%d\nITEM: NUMBER OF ATOMS\n%d\nITEM: BOX BOUNDS pp pp pp\n0 80\n0 80\n0 80\n"
                    "ITEM: ATOMS id type x y z fx fy fz\n" % (fi, rec["nb"]))
            for i, (q, ff) in enumerate(zip(fr["pos"], F)):
                f.write("%d 1 %r %r %r %r %r %r\n" % (i + 1, q[0] * 1.25, q[1] * 1.25, q[2] * 1.25, ff[0], ff[1], ff[2]))


def fm_write_inputs(rec, d, gvals, grads=None):
    """reference forces F_i = sum_j G_class(r_ij) (p_i - p_j)/r_ij + noise_i ; lammps dump (positions k*1.25 Angstrom).
    gvals[c] = values of interaction c at its pair distances, in the order of the TLC pair lists."""
    nb = rec["nb"]
    mn, mx, st, ost = fm_grid(rec)
    with open(os.path.join(d, "topol.xml"), "w") as f:
        f.write("<topology><molecules>")
        if rec["layout"] == 2:
            f.write('<molecule name="M" nmols="%d" nbeads="2"><bead name="A" type="A" mass="1" q="0"/>'
                    '<bead name="B" type="A" mass="1" q="0"/></molecule>' % (nb // 2))
        elif rec["layout"] >= 3:
            f.write('<molecule name="M" nmols="%d" nbeads="%d">%s</molecule>' % (rec["nm"], rec["mb"], "".join(
                '<bead name="%s" type="A" mass="1" q="0"/>' % "ABCD"[k] for k in range(rec["mb"]))))
        else:
            na = sum(1 for t in rec["types"] if t == "A")
            f.write('<molecule name="MA" nmols="%d" nbeads="1"><bead name="A" type="A" mass="1" q="0"/></molecule>' % na)
            if nb > na:
                f.write('<molecule name="MB" nmols="%d" nbeads="1"><bead name="B" type="B" mass="1" q="0"/></molecule>' % (nb - na))
        f.write("</molecules>")
        if rec["layout"] == 2:
            f.write("<bonded><bond><name>bond1</name><beads>M:A M:B</beads></bond></bonded>")
        elif rec["layout"] == 3:
            f.write("<bonded><angle><name>angle1</name><beads>M:A M:B M:C</beads></angle></bonded>")
        elif rec["layout"] == 4:
            f.write("<bonded><dihedral><name>dih1</name><beads>M:A M:B M:C M:D</beads></dihedral></bonded>")
        f.write("</topology>\n")
    with open(os.path.join(d, "settings.xml"), "w") as f:
        f.write("<cg>%s<fmatch><constrainedLS>%s</constrainedLS><frames_per_block>%d</frames_per_block></fmatch>" % (
            "<nbsearch>grid</nbsearch>" if rec["s"] % 2 else "", "true" if rec["con"] else "false", rec["b"]))
        fm = "<fmatch><min>%s</min><max>%s</max><step>%s</step><out_step>%s</out_step></fmatch>" % (mn, mx, st, ost)
        for it in rec["inter"]:
            if rec["layout"] >= 3:
                fmb = fm.replace("</fmatch>", "<periodic>1</periodic></fmatch>") if it["periodic"] else fm
                f.write("<bonded><name>%s</name>%s</bonded>" % (it["name"], fmb))
            elif it["bond"]:
                f.write("<bonded><name>%s</name>%s</bonded>" % (it["name"], fm))
            else:
                t1, t2 = it["name"].split("-")
                f.write("<non-bonded><name>%s</name><type1>%s</type1><type2>%s</type2>%s</non-bonded>" % (it["name"], t1, t2, fm))
        f.write("</cg>\n")
    k = [0] * len(rec["inter"])
    forces = []
    inst = 0
    for fr in rec["frames"]:
        F = [[float(c) for c in nz] for nz in fr["noise"]]
        if rec["layout"] >= 3:
            # F_bead = G(variable) * d variable / d r_bead  (the written table is minus the coefficient of the fit)
            for m in range(rec["nm"]):
                g = gvals[0][inst]
                for kb in range(rec["mb"]):
                    for a in range(3):
                        F[m * rec["mb"] + kb][a] += g * grads[inst][3 * kb + a]
                inst += 1
        for (i, j, d2, cl) in fr["pairs"]:
            g = gvals[cl - 1][k[cl - 1]]
            k[cl - 1] += 1
            r = d2 ** 0.5
            for a in range(3):
                e = (fr["pos"][i - 1][a] - fr["pos"][j - 1][a]) / r
                F[i - 1][a] += g * e
                F[j - 1][a] -= g * e
        forces.append(F)
    fm_write_dump(os.path.join(d, "traj.dump"), rec, forces)
    if rec["tf"]:
        known = [[[float(c) for c in kv] for kv in fr["known"]] for fr in rec["frames"]]
        tot = [[[a + b for a, b in zip(fa, ka)] for fa, ka in zip(F, K_)] for F, K_ in zip(forces, known)]
        fm_write_dump(os.path.join(d, "traj_tot.dump"), rec, tot)
        fm_write_dump(os.path.join(d, "known.dump"), rec, known)


def fm_execute(exe, env, d, rec, run, gvals, grads=None):
    shutil.rmtree(d, ignore_errors=True)
    os.makedirs(d)
    fm_write_inputs(rec, d, gvals, grads)
    cmd = [exe, "--top", "topol.xml", "--trj", "traj_tot.dump" if run["tf"] else "traj.dump", "--options", "settings.xml", "--no-map"]
    if run["tf"]:
        cmd += ["--trj-force", "known.dump"]
    elif run["id"] != "full":
        cmd += ["--first-frame", str(run["first"]), "--nframes", str(run["nframes"])]
    e = dict(os.environ)
    e.update(env)
    try:
        p = subprocess.run(cmd, cwd=d, stdout=subprocess.PIPE, stderr=subprocess.STDOUT, text=True, timeout=300, env=e)
        rc, out = p.returncode, p.stdout
    except subprocess.TimeoutExpired:
        rc, out = -999, "TIMEOUT"
    tabs = {}
    for it in rec["inter"]:
        path = os.path.join(d, it["name"] + ".force")
        if os.path.exists(path):
            tabs[it["name"]] = [ln.split() for ln in open(path) if ln.strip() and not ln.startswith("#")]
    shutil.rmtree(d, ignore_errors=True)
    return cmd, rc, out, tabs


def fm_compare(ctx, rec, outs, conv, gout):
    """outs: {run id: (cmd, rc, out, {interaction: rows})}; gout[c] = generating spline at the output grid points
    -> [(key, text)]"""
    var = fm_variant(rec)
    bad = []
    xs = fm_outgrid(rec)
    tabs = {}
    for rid, (cmd, rc, out, files) in outs.items():
        if rc == -999:
            raise vlib.InfraError("csg_fmatch timed out")
        if "error while loading shared libraries" in out or "file too short" in out:
            raise vlib.InfraError("csg_fmatch could not be loaded: " + out[-300:])
        if rc != 0:
            bad.append(("fmatch:run:exit:%s:%s" % (var, "trj-force" if rid == "tf" else "plain-run"),
                        "csg_fmatch %s: exit status %s, %s" % (" ".join(cmd[1:]), rc, out[-300:])))
            continue
        for c, it in enumerate(rec["inter"]):
            lab = fm_label(rec, c)
            rows = files.get(it["name"])
            if rows is None:
                bad.append(("fmatch:table:missing:" + lab, "run %s wrote no %s.force" % (rid, it["name"])))
                continue
            try:
                tab = [(float(r[0]), float(r[1])) for r in rows]
            except (ValueError, IndexError):
                bad.append(("fmatch:table:format", "%s.force of run %s is not a numeric table: %s" % (it["name"], rid, rows[:3])))
                continue
            if len(tab) != len(xs) or any(not vlib.close(x, e, 1e-9, 1e-12) for (x, _), e in zip(tab, xs)):
                bad.append(("fmatch:table:grid:%s" % ("decimal" if rec["gden"] == 10 else "dyadic"),
                            "%s.force of run %s: grid %s, expected the %d points %s (min %s max %s out_step %s)" % (
                                it["name"], rid, [x for x, _ in tab], len(xs), xs, fm_grid(rec)[0], fm_grid(rec)[1], fm_grid(rec)[3])))
                continue
            tabs[(rid, c)] = [y for _, y in tab]
    if bad:
        return bad
    scale = max([1.0] + [abs(v) for t in tabs.values() for v in t if v == v])
    for rel in rec["rels"]:
        ncoef = sum(abs(cf) for cf, _ in rel["t"])
        for c in range(len(rec["inter"])):
            for i in range(len(xs)):
                ctx.count()
                tot = sum(cf * tabs[(rid, c)][i] for cf, rid in rel["t"])
                if not abs(tot) <= 1e-6 * scale * ncoef:
                    bad.append(("fmatch:%s:%s:%s" % (rel["c"], var, fm_label(rec, c)),
                                "%s.force, grid point %d: relation %s gives %r on the written tables %s" % (
                                    rec["inter"][c]["name"], i + 1, rel["t"], tot,
                                    {rid: tabs[(rid, c)][i] for _, rid in rel["t"]})))
                    break
    if not rec["noisy"]:
        for (rid, c) in sorted(tabs):
            exp = [conv * v for v in gout[c]]
            ys = max(1.0, max(abs(v) for v in exp))
            for i in range(len(xs)):
                ctx.count()
                if not abs(tabs[(rid, c)][i] - exp[i]) <= 1e-6 * ys:
                    bad.append(("fmatch:reproduction:%s:%s:%s" % (var, "full" if rid == "full" else "tf" if rid == "tf" else "block",
                                                                  fm_label(rec, c)),
                                "run %s, %s.force at %r: fitted force %r, generating spline has %r (= %r * %r)" % (
                                    rid, rec["inter"][c]["name"], xs[i], tabs[(rid, c)][i], exp[i], conv, gout[c][i])))
                    break
    return bad


def fm_text(rec):
    return ("[layout %d: %s%s; %d beads, %d frames, frames_per_block=%d (%d blocks), constrainedLS=%s, grid %s..%s step %s "
            "out_step %s, knot values %s%s%s, seed %d]" % (
                rec["layout"], "+".join(it["name"] for it in rec["inter"]),
                " (fmatch.periodic)" if rec["inter"][0].get("periodic") else "", rec["nb"], len(rec["frames"]), rec["b"], rec["K"],
                "true" if rec["con"] else "false", fm_grid(rec)[0], fm_grid(rec)[1], fm_grid(rec)[2], fm_grid(rec)[3],
                [it["y"] for it in rec["inter"]], " + noise" if rec["noisy"] else "", " + trj-force run" if rec["tf"] else "",
                rec["s"]))


def run_fmatch(ctx, fms, exe_fm, exe_drv, env, base, workers):
    # stage 1: variables and gradients of the angle/dihedral instances from the real interaction classes
    items = [("conv", ["fconv"])] + [(i, fm_instance_cmds(r)) for i, r in enumerate(fms) if r["layout"] >= 3]
    results, crashes = vlib.run_items(exe_drv, items, env=env)
    if crashes:
        raise vlib.InfraError("instance evaluation (drv_lsq ia) failed: %s" % list(crashes.values())[:1])
    conv = float(results["conv"][0][0].split()[1])
    ivars, grads = {}, {}
    for i, r in enumerate(fms):
        if r["layout"] >= 3:
            vals = [[float(t) for t in out[0].split()[1:]] for out in results[i]]
            ivars[i] = [v[0] for v in vals]
            grads[i] = [v[1:] for v in vals]
            mn, mx = float(fm_grid(r)[0]), float(fm_grid(r)[1])
            if any(not (mn < v < mx) for v in ivars[i]):
                raise vlib.InfraError("real interaction variable outside the grid the model placed it in: %s" % ivars[i])
    # stage 2: the force function at these variables / pair distances and on the output grid
    items = [(i, fm_generator_cmds(r, ivars.get(i))) for i, r in enumerate(fms)]
    results, crashes = vlib.run_items(exe_drv, items, env=env)
    if crashes:
        raise vlib.InfraError("force-field generator (drv_lsq spd) failed: %s" % list(crashes.values())[:1])
    gvals, gout = {}, {}
    for i, r in enumerate(fms):
        nout = len(fm_outgrid(r))
        gvals[i], gout[i] = [], []
        for c in range(len(r["inter"])):
            v = [ln for ln in results[i][c] if ln.startswith("v")]
            if not v:
                raise vlib.InfraError("force-field generator gave no values: %s" % results[i][c])
            vals = [float(t) for t in v[0].split()[1:]]
            gvals[i].append(vals[:-nout])
            gout[i].append(vals[-nout:])
    jobs = [(i, run) for i, r in enumerate(fms) for run in r["runs"]]

    def work(job):
        i, run = job
        return fm_execute(exe_fm, env, os.path.join(base, "f%06d-%s" % (i, run["id"])), fms[i], run, gvals[i], grads.get(i))

    with ThreadPoolExecutor(max_workers=workers) as ex:
        res = list(ex.map(work, jobs))
    outs = {}
    for (i, run), o in zip(jobs, res):
        outs.setdefault(i, {})[run["id"]] = o
    classes = {}
    feats = {"layout0": 0, "layout1:two-pair-interactions": 0, "layout2:bond+pair": 0, "layout3:angle": 0,
             "layout4:dihedral-periodic:plain": 0, "layout4:dihedral-periodic:constrained": 0,
             "layout4:non-equidistant-grid": 0, "decimal-grid": 0, "out_step<step": 0,
             "trj-force": 0, "nbsearch-grid": 0, "blocks>=2": 0}
    for i, rec in enumerate(fms):
        ctx.traces += len(rec["runs"])
        cl = "layout%d,%s,K=%d,b=%d%s" % (rec["layout"], fm_variant(rec), rec["K"], rec["b"], ",noisy" if rec["noisy"] else "")
        classes[cl] = classes.get(cl, 0) + 1
        for k, on in (("layout0", rec["layout"] == 0), ("layout1:two-pair-interactions", rec["layout"] == 1),
                      ("layout2:bond+pair", rec["layout"] == 2), ("layout3:angle", rec["layout"] == 3),
                      ("layout4:dihedral-periodic:plain", rec["layout"] == 4 and not rec["con"]),
                      ("layout4:dihedral-periodic:constrained", rec["layout"] == 4 and rec["con"]),
                      ("layout4:non-equidistant-grid", rec["layout"] == 4 and rec["stepdeg"] == 80),
                      ("decimal-grid", rec["gden"] == 10),
                      ("out_step<step", rec["osub"] > 1), ("trj-force", rec["tf"]), ("nbsearch-grid", rec["s"] % 2 == 1),
                      ("blocks>=2", rec["K"] >= 2)):
            feats[k] += 1 if on else 0
        if rec["K"] >= 2:
            ctx.nontriv(("fm", rec["s"]))
        bad = fm_compare(ctx, rec, outs[i], conv, gout[i])
        if bad:
            # re-run once before reporting (DESIGN 7.7)
            again = {run["id"]: fm_execute(exe_fm, env, os.path.join(base, "g%06d-%s" % (i, run["id"])), rec, run, gvals[i], grads.get(i))
                     for run in rec["runs"]}
            bad2 = {k for k, _ in fm_compare(ctx, rec, again, conv, gout[i])}
            for key, text in bad:
                if key in bad2:
                    ctx.violation(key, text + " " + fm_text(rec), rec)
        if i in (0, len(fms) - 1):
            ctx.sample({"csg_fmatch": fm_text(rec), "runs": [r_["id"] for r_ in rec["runs"]], "relations": rec["rels"]})
    ctx.extra["fmatch_instances_by_class"] = dict(sorted(classes.items()))
    ctx.extra["fmatch_instances_by_feature"] = feats
    ctx.extra["fmatch_force_conversion_of_dump_reader"] = conv
    if not getattr(ctx, "replay", None) and any(v == 0 for v in feats.values()):
        raise vlib.InfraError("csg_fmatch feature classes not all exercised in this run: %s" % feats)


# ------------------------------------------------------------------------------------------------
def run(ctx):
    bindir = vlib.ensure_build(["drv_lsq", "csg_imc_solve", "csg_fmatch"])
    snap, env = snapshot(bindir)
    exe_imc = os.path.join(snap, "csg_imc_solve")
    exe_drv = os.path.join(snap, "drv_lsq")
    quick = ctx.quick
    workers = 4
    ctx.rule = ("one system = one TLC state of LsqCheck at ph=1: (A, b, r, index file) replayed as one run of the real "
                "csg_imc_solve, or (A, b, C) as one call of linalg_constrained_qrsolve; one csg_fmatch instance = one "
                "TLC state of Fmatch at ph=1, K+1 runs of the real csg_fmatch; non-trivial = non-symmetric A with "
                "n >= 2 (Tikhonov), an active constraint (multiplier != 0), >= 2 blocks (fmatch); an evaluation = "
                "one compared number / one evaluated relation")
    ctx.assumptions += [
        "integer matrices/vectors with entries -2..2 / -3..3, r = rn/rd with rd in {1,2,4} (exact in text and double); "
        "grid values k/16",
        "well-posed systems only: r > 0, or r = 0 with det A != 0; KKT determinant != 0 (C of full row rank and A of "
        "full column rank on null(C)); not well-posed draws are counted and skipped",
        "condition numbers of these integer systems are < 1e7: floating-point error of the real solvers is < 1e-9 "
        "relative, the files carry 10 significant digits; tolerance 1e-7 (tables) / 1e-9 (library call)",
        "the constrained routine's explicit rejection of a matrix with an exactly zero column is admitted",
        "csg_fmatch instances: positions k/8 nm in an 8 nm box (minimum image = direct vector, guarded), one bead type, "
        "one pair interaction, --no-map, lammps dump with forces; forces written with 17 digits; relation tolerance "
        "1e-6 of the largest table value (tables carry 10 digits)",
        "the reference forces are assembled by the check from values of the real CubicSpline (G(r_ij) times the unit "
        "vector, plus integer noise)"]
    base = tempfile.mkdtemp(prefix="c06-run-", dir=vlib.SCRATCH)
    try:
        _run(ctx, quick, workers, exe_imc, exe_drv, env, base, os.path.join(snap, "csg_fmatch"))
    finally:
        shutil.rmtree(base, ignore_errors=True)
        shutil.rmtree(snap, ignore_errors=True)
    ctx.exhaustive = False


def _tlc(ctx, cfg, what, env, timeout=2400, expect=None, workers=4, module="MCLsq"):
    res = vlib.tlc("lsq", module, cfg=cfg + ".cfg", timeout=timeout, env=env, workers=workers)
    label = "%s %s" % (cfg, " ".join("%s=%s" % (k[4:].lower(), v) for k, v in sorted(env.items())))
    if expect:
        if res.ok or expect not in (res.violation or ""):
            raise vlib.InfraError("%s: TLC did not refute %s on the deliberately wrong model: %s" % (cfg, expect, res.violation))
        ctx.add_tlc(label + " (negative control: %s refuted as expected)" % expect, res)
        return []
    vlib.tlc_must_hold(res, what)
    ctx.add_tlc(label, res)
    return res.records


def _run(ctx, quick, workers, exe_imc, exe_drv, env, base, exe_fm):
    tik, con, fms, hists, grs = [], [], [], [], []
    replay_key = None
    if getattr(ctx, "replay", None):
        art = json.load(open(ctx.replay))
        rec = art["replay"]
        if str(art.get("key", "")).startswith(("imc_solve:solution", "imc_solve:split:wrong-rows")):
            replay_key = art["key"]     # one system alone cannot tell solver from splitting: keep the recorded class
        rec.pop("cmd", None)
        (grs if rec["k"] == "gr" else hists if rec["k"] == "hist" else fms if rec["k"] == "fm" else tik if rec["k"] in ("tik", "xt") else con).append(rec)
    else:
        wide = {"C06_WIDE": 0 if quick else 1}
        # ---- negative controls: the stated laws refute wrong models -------------------------------
        for v, law in ([("AAT", "TikNormalEq"), ("sign", "TikNormalEq"), ("noC", "ConExact"), ("zero", "ConGradRow")]
                       + ([] if quick else [("rhsA", "TikNormalEq")])):
            _tlc(ctx, "MCLsqCtl_" + v, "", {"C06_WIDE": 0}, expect=law, timeout=600)
        # ---- exhaustive 2x2 families ----------------------------------------------------------------
        laws_t = "Lsq: NormalEq, Cramer cross-check, strict minimiser on the lattice, index partition/reassembly"
        laws_c = "Lsq: KKT, C x = 0, residual gradient in rowspace(C) / orthogonal to null(C), feasible minimiser"
        xt = _tlc(ctx, "MCLsqExhTik", laws_t, wide)
        xc = _tlc(ctx, "MCLsqExhCon", laws_c, wide)
        if not xt or not xc:
            raise vlib.InfraError("exhaustive families exported nothing")
        xt.sort(key=lambda r: (r["A"], r["b"], r["rn"]))
        xc.sort(key=lambda r: (r["A"], r["b"], r["C"]))
        tik += xt[(ctx.seed % 4)::4] if quick else xt
        con += xc
        # ---- seed-indexed families --------------------------------------------------------------------
        seed0 = 1 + (ctx.seed - 1) * 200000
        ntik, ncon = (220, 400) if quick else (12000, 32000)
        chunk = 8000
        for kind, n, cfg, laws, dest in (("tik", ntik, "MCLsqTik", laws_t, tik), ("con", ncon, "MCLsqCon", laws_c, con)):
            got = []
            for s0 in range(seed0, seed0 + n, chunk):
                ns = min(chunk, seed0 + n - s0)
                got += _tlc(ctx, cfg, laws, {"C06_SEED0": s0, "C06_NSEEDS": ns})
            got.sort(key=lambda r: r["s"])
            if kind == "tik" and len(got) != n:
                raise vlib.InfraError("vector export incomplete: %d of %d Tikhonov systems" % (len(got), n))
            if kind == "con":
                ctx.extra["constrained_draws_not_well_posed"] = n - len(got)
                if len(got) < n // 2:
                    raise vlib.InfraError("too few well-posed constrained systems: %d of %d" % (len(got), n))
            dest += got
        _tlc(ctx, "MCLsqCtl_grP", "", {}, expect="GrNormalEq", timeout=600)
        grs += [r for r in _tlc(ctx, "MCLsqGraded", "Lsq: orthogonal factors, exponent identities, exact normal equations on the small sub-family",
                                {"C06_SEED0": seed0, "C06_NSEEDS": 120 if quick else 4000}) if r["k"] == "gr"]
        grs.sort(key=lambda r: r["s"])
        nh = 150 if quick else 6000
        hists += _tlc(ctx, "MCLsqHist", "Lsq: every call of a history satisfies KKT, C x = 0, gradient in rowspace(C) on its own data",
                      {"C06_SEED0": seed0, "C06_NSEEDS": nh})
        hists.sort(key=lambda r: r["s"])
        # vacuity guards of the minimiser lemmas (evaluated by TLC where the numbers are small)
        small_t = sum(1 for r in tik if r["n"] <= 2 and r["rd"] == 1 and r["rn"] > 0 and abs(r["den"]) <= 400
                      and max(abs(v) for v in r["num"]) <= 400)
        small_c = sum(1 for r in con if abs(r["den"]) <= 400 and max(abs(v) for v in r["num"]) <= 400)
        if small_t == 0 or small_c == 0:
            raise vlib.InfraError("minimiser lemmas were vacuous (%d, %d)" % (small_t, small_c))
        ctx.extra["minimiser_lemma_systems"] = {"tikhonov": small_t, "constrained": small_c}
        # ---- csg_fmatch instances (relational clauses) -------------------------------------------------
        nfm = 240 if quick else 4000
        for s0 in range(seed0, seed0 + nfm, 800):
            fms += _tlc(ctx, "MCFmatch", "Fmatch: block windows, relation coefficients, pair lists, chain construction, guard",
                        {"C06_SEED0": s0, "C06_NSEEDS": min(800, seed0 + nfm - s0)}, module="MCFmatch")
        fms.sort(key=lambda r: r["s"])
        ctx.extra["fmatch_draws_rejected_by_guard"] = nfm - len(fms)
        if len(fms) < nfm // 5 or not any(r["K"] >= 2 and not r["con"] for r in fms) or not any(r["K"] >= 2 and r["con"] for r in fms):
            raise vlib.InfraError("too few well-posed csg_fmatch instances: %d of %d" % (len(fms), nfm))

    # ---- (i) csg_imc_solve --------------------------------------------------------------------------
    def work(a):
        i, r = a
        return run_tik(exe_imc, env, base, i, r)

    with ThreadPoolExecutor(max_workers=workers) as ex:
        outs = list(ex.map(work, list(enumerate(tik))))
    shapes = {}
    confirmed = []
    tik_vars = {id(rec): rec.get("var", i % 3) for i, rec in enumerate(tik)}
    for i, (rec, (cmd, rc, out, tables)) in enumerate(zip(tik, outs)):
        ctx.traces += 1
        shapes[rec["n"]] = shapes.get(rec["n"], 0) + 1
        if not rec["sym"] and rec["n"] >= 2:
            ctx.nontriv(("tik", str(rec["A"]), str(rec["b"]), rec["rn"], rec["rd"], str(rec["idx"])))
        bad = compare_tik(ctx, rec, rc, out, tables)
        if bad:
            # re-run once from the recorded artefact before reporting (DESIGN 7.7)
            cmd2, rc2, out2, tables2 = run_tik(exe_imc, env, base, 9999999 + i - (i % 3) + tik_vars[id(rec)], rec)
            bad2 = {k for k, _ in compare_tik(ctx, rec, rc2, out2, tables2)}
            confirmed += [(key, text, rec, cmd) for key, text in bad if key in bad2]
        if i in (0, len(tik) - 1):
            ctx.sample({"csg_imc_solve": " ".join(cmd[1:]), "A": rec["A"], "b": rec["b"], "r": "%d/%d" % (rec["rn"], rec["rd"]),
                        "index": ["%s %s" % (tname(rec, e["name"]), render_range(e["blocks"])) for e in rec["idx"]],
                        "x": "%s/%d" % (rec["num"], rec["den"])})
    solver_wrong = any(key == VALUE and single_table(rec) for key, _, rec, _ in confirmed)
    for key, text, rec, cmd in confirmed:
        if key == VALUE:
            key = replay_key if replay_key else value_key(rec, solver_wrong)
        r2 = dict(rec)
        r2["cmd"] = cmd[1:]
        r2["var"] = tik_vars.get(id(rec), 0)
        ctx.violation(key, text + " " + tik_text(rec, cmd), r2)
    ctx.extra["tikhonov_systems_by_n"] = {str(k): v for k, v in sorted(shapes.items())}

    # ---- (i b) csg_imc_solve on graded spectra ------------------------------------------------------------
    if grs:
        def gwork(a):
            return run_gr(exe_imc, env, base, a[0], a[1])
        with ThreadPoolExecutor(max_workers=workers) as ex:
            gouts = list(ex.map(gwork, list(enumerate(grs))))
        gcls = {}
        for i, (rec, (cmd, rc, out, tables)) in enumerate(zip(grs, gouts)):
            ctx.traces += 1
            gcls[gr_class(rec)] = gcls.get(gr_class(rec), 0) + 1
            ctx.nontriv(("gr", rec["s"]))
            bad = compare_gr(ctx, rec, rc, out, tables)
            if bad:
                cmd2, rc2, out2, tables2 = run_gr(exe_imc, env, base, 5000000 + i, rec)
                bad2 = {k for k, _ in compare_gr(ctx, rec, rc2, out2, tables2)}
                for key, text in bad:
                    if key in bad2:
                        ctx.violation(key, text + " [%s]" % " ".join(cmd[1:]), rec)
        ctx.extra["graded_spectrum_systems"] = gcls
        if not getattr(ctx, "replay", None) and not gcls.get("tiny-sigma:small-r"):
            raise vlib.InfraError("no graded-spectrum system with a singular value below 1e-6 and r below 1e-6: %s" % gcls)

    # ---- (ii) linalg_constrained_qrsolve ----------------------------------------------------------------
    items = [(i, [con_cmd(r), con_cmd_scaled(r)]) for i, r in enumerate(con)]
    if con and not getattr(ctx, "replay", None) and not any(
            r["p"] == 2 and abs(r["kexp"][0] - r["kexp"][1]) >= 60 for r in con):
        raise vlib.InfraError("row-scaling relation vacuous: no instance with |k1 - k2| >= 60")
    if con and not getattr(ctx, "replay", None) and not any(r["p"] == 0 for r in con):
        raise vlib.InfraError("no unconstrained (p = 0) system in the constrained family")
    ctx.extra["row_scaling_instances_with_exponent_gap_ge_60"] = sum(
        1 for r in con if r["p"] == 2 and abs(r["kexp"][0] - r["kexp"][1]) >= 60)
    results, crashes = vlib.run_items(exe_drv, items, env=env) if items else ({}, {})
    shapes = {}
    for i, rec in enumerate(con):
        ctx.traces += 1
        sh = "%dx%d,p=%d" % (rec["m"], rec["n"], rec["p"])
        shapes[sh] = shapes.get(sh, 0) + 1
        if any(v != 0 for v in rec["lam"]):
            ctx.nontriv(("con", str(rec["A"]), str(rec["b"]), str(rec["C"])))
        if i in crashes:
            ctx.violation("constrained_qrsolve:p=%d:crash" % rec["p"],
                          "driver aborted (memory error) in linalg_constrained_qrsolve %s: %s" % (con_text(rec), crashes[i]), rec)
            continue
        for key, text in compare_con(ctx, rec, results[i][0]):
            ctx.violation(key, text + " " + con_text(rec), rec)
        for key, text in compare_con(ctx, rec, results[i][1], scaled=True):
            ctx.violation(key, text + " [constraint rows scaled by 2^%s] " % rec["kexp"] + con_text(rec), rec)
        if i in (0, len(con) - 1):
            ctx.sample({"linalg_constrained_qrsolve": con_text(rec), "x": "%s/%d" % (rec["num"], rec["den"])})
    ctx.extra["constrained_systems_by_shape"] = shapes

    # ---- (ii b) call histories of linalg_constrained_qrsolve ------------------------------------------------
    if hists:
        items = [(i, [hist_cmd(r)]) for i, r in enumerate(hists)]
        results, crashes = vlib.run_items(exe_drv, items, env=env)
        ninplace = nsame = 0
        for i, rec in enumerate(hists):
            ctx.traces += 1
            ctx.nontriv(("hist", rec["s"]))
            if i in crashes:
                ctx.violation("constrained_qrsolve:history:crash", "driver aborted during a call history: %s" % crashes[i], rec)
                continue
            lines = results[i][0]
            if len(lines) != len(rec["calls"]):
                ctx.violation("constrained_qrsolve:history:no-result", "call history gave %d result lines for %d calls: %s" % (
                    len(lines), len(rec["calls"]), lines), rec)
                continue
            for k, (mode, call, ln) in enumerate(zip(rec["mode"], rec["calls"], lines)):
                ninplace += mode == "inplace"
                nsame += ln.endswith("sameaddr 1")
                for key, text in compare_con(ctx, call, [ln], infix=":history:" + mode):
                    ctx.violation(key, "call %d of %d (%s; modes %s): %s %s" % (k + 1, len(rec["calls"]), mode, rec["mode"], text,
                                                                              con_text(call)), rec)
        ctx.extra["call_histories"] = {"histories": len(hists), "inplace_calls": ninplace, "calls_seeing_the_same_address": nsame}
        if not getattr(ctx, "replay", None) and (ninplace == 0 or nsame == 0):
            raise vlib.InfraError("call histories never reused the constraint matrix object (%d, %d)" % (ninplace, nsame))

    # ---- (iii) csg_fmatch: block independence and reproduction of representable force functions ------------
    if fms:
        run_fmatch(ctx, fms, exe_fm, exe_drv, env, base, workers)
