"""C07 - every analytic derivative equals the derivative of its value function.
spec/derivs: Derivs (closed forms + declarative characterisation of the true gradients of bond,
angle, dihedral as exact integer identities), DerivGeom (mode L vectors: geometry x rotation x
translation x periodic box x image shifts), PotFn (symbolic calculus for LJ 12-6 / LJ+Gaussian,
Cox-de Boor B-splines for CBSPL, SavePotTab), SplineLin (piecewise-linear and straight-line data)."""
import math
import vlib

LAT = 8.0           # lattice units per nm (Pbc.tla)
LN2 = math.log(2.0)

MANIFEST = dict(
        engine="derivs", design_ref="DESIGN.md 5/C07",
        technique="TLA+ spec stating value and true gradient of bond/angle/dihedral as exact integer identities "
                  "(closed form checked by TLC against a declarative characterisation: direction, magnitude, "
                  "sum = 0, torque = 0; covariance under the 48 lattice symmetries; translation / periodic-image "
                  "invariance via Pbc!SpecMI), symbolic differentiation of the LJ/LJG forms and Cox-de Boor "
                  "B-spline basis in TLA+; TLC-exported vectors replayed into Interaction::EvaluateVar/Grad, "
                  "PotentialFunction*::CalculateF/DF/D2F/SavePotTab and Spline::Calculate/CalculateDerivative",
        text="For every lattice geometry of the TLC domain the reported value and gradient of IBond/IAngle/IDihedral, "
             "multiplied by the integer scale factors exported by TLC, equal the integer right-hand sides of the true "
             "gradient (1e-9 relative), on rotated, translated and periodically shifted placements; for every "
             "lattice parameter vector and r the potential-function value, first and second parameter derivatives "
             "equal the symbolically differentiated form, second derivatives are symmetric, SavePotTab rows equal "
             "the function on the grid; LinSpline / straight-line data derivatives equal the exact slopes.",
        note="Trusted: TLC, the one-off 60-digit finite-difference cross-check of the identities "
             "(spec/derivs/crosscheck.py, recorded in README), the lattice argument (coordinates k/8 nm, dyadic r, "
             "B = m ln2). Not covered: curved-data derivative-of-value of cubic/Akima splines (C12), "
             "geometries off the integer lattice, singular geometries (collinear / planar), CBSPL table "
             "derivative w.r.t. the extrapolated core coefficients.")


# ---------------------------------------------------------------------------------------------
# conversion of the spec's exact numbers to reals (the only arithmetic done here)
# ---------------------------------------------------------------------------------------------

def real(terms):
    """terms: list of {n, d, l, e, bn, bd, bp}: value = sum n/d * ln2^l * 2^-e * (bn/bd)^bp.
    Returns (value, magnitude) where magnitude = sum of |term| (for the tolerance)."""
    s, mag = 0.0, 0.0
    for t in terms:
        v = t["n"] / t.get("d", 1)
        if t.get("l", 0):
            v *= LN2 ** t["l"]
        if t.get("e", 0):
            v *= 2.0 ** (-t["e"])
        if t.get("bp", 0):
            v *= (t["bn"] / t["bd"]) ** t["bp"]
        s += v
        mag += abs(v)
    return s, mag


def near(a, b, mag, rel=1e-9):
    return abs(a - b) <= rel * max(mag, abs(b)) + 1e-300


# ---------------------------------------------------------------------------------------------
# 1. bonded interactions
# ---------------------------------------------------------------------------------------------

def _geom_cmd(r):
    box = " ".join(repr(x / LAT) for x in r["box"])
    pos = "  ".join(" ".join(repr(x / LAT) for x in p) for p in r["p"])
    return "ia %s %s %s  %s" % (r["k"], r["typ"], box, pos)


CLASS = {"bond": "IBond", "angle": "IAngle", "dih": "IDihedral"}
FN = {"id": lambda x: x, "cos": math.cos, "sin": math.sin}


def _check_geom(ctx, r, out):
    cls = CLASS[r["k"]]
    ex = [l for l in out if l.startswith("exc")]
    if ex or not out or not out[0].startswith("res"):
        ctx.violation("%s:exception" % cls, "%s on %s" % (ex or out, r), r)
        return
    nums = [float(t) for t in out[0].split()[1:]]
    val, flat = nums[0], nums[1:]
    nb = len(r["g"])
    if len(flat) != 3 * nb:
        raise vlib.InfraError("driver output malformed: " + out[0])
    # value: fn(value) * sqrt(l) = v * sqrt(rr); a bond length is in nm -> lattice units
    vlat = val * LAT if r["k"] == "bond" else val
    for x in r["vals"]:
        lhs = FN[x["fn"]](vlat) * math.sqrt(x["l"])
        rhs = x["v"] * math.sqrt(x["rr"])
        if not near(lhs, rhs, math.sqrt(x["l"])):
            ctx.violation("%s:EvaluateVar:%s:%s" % (cls, r["typ"], x["fn"]),
                          "%s(value)*sqrt(%d) = %.12g but the geometry gives %d*sqrt(%d) = %.12g; value %r; %s"
                          % (x["fn"], x["l"], lhs, x["v"], x["rr"], rhs, val, _geom_cmd(r)), r)
            return
    # gradient: g * m * sqrt(r) = v  (g in 1/lattice units: bond dimensionless, angles rad/nm / 8)
    unit = 1.0 if r["k"] == "bond" else 1.0 / LAT
    bad = []
    for b, g in enumerate(r["g"]):
        scale = g["m"] * math.sqrt(g["r"]) * unit
        mag = max(1.0, max(abs(x) for x in g["v"]))
        for ax in range(3):
            if not near(flat[3 * b + ax] * scale, g["v"][ax], mag):
                bad.append(b)
                break
    if bad:
        b = bad[0]
        g = r["g"][b]
        scale = g["m"] * math.sqrt(g["r"]) * unit
        got = [flat[3 * b + ax] * scale for ax in range(3)]
        true = [x / scale for x in g["v"]]
        ctx.violation("%s:Grad:bead%d" % (cls, b),
                      "Grad(bead %d) = %s but the true gradient is %s (scaled by %d*sqrt(%d): %s vs integers %s); %s"
                      % (b, [flat[3 * b + ax] for ax in range(3)], true, g["m"], g["r"], got, g["v"], _geom_cmd(r)), r)
        return
    # sum of the reported gradients = 0 (translation invariance), in reported units
    for ax in range(3):
        s = sum(flat[3 * b + ax] for b in range(nb))
        mag = max(abs(flat[3 * b + ax]) for b in range(nb))
        if abs(s) > 1e-9 * max(mag, 1e-3):
            ctx.violation("%s:Grad:sum" % cls, "gradients do not sum to zero (%g on axis %d); %s" % (s, ax, _geom_cmd(r)), r)
            return


def run_geometry(ctx, exe):
    mod = "MCGeomQuick" if ctx.quick else "MCGeomThorough"
    res = vlib.tlc("derivs", mod, cfg=mod + ".cfg", workers=4, timeout=2400,
                   env={"C07_SLICE": ctx.seed % 1000})
    vlib.tlc_must_hold(res, "DerivGeom: closed forms satisfy the characterisation of the true gradient, "
                            "covariance, placement invariance")
    ctx.add_tlc(mod, res)
    vecs = res.records
    if 2 * len(vecs) != res.distinct:
        raise vlib.InfraError("vector export incomplete: %d records for %d states" % (len(vecs), res.distinct))
    kinds = {}
    per = 0
    for r in vecs:
        kinds[r["k"]] = kinds.get(r["k"], 0) + 1
        per += r["typ"] != "open"
    if min(kinds.get(k, 0) for k in CLASS) == 0 or per == 0:
        raise vlib.InfraError("vacuous geometry export: %s, %d periodic" % (kinds, per))
    items = [(i, [_geom_cmd(r)]) for i, r in enumerate(vecs)]
    results, crashes = vlib.run_items(exe, items)
    for i, r in enumerate(vecs):
        ctx.count()
        ctx.nontriv(("geom", r["k"], str(r["u"])))
        if i in crashes:
            ctx.violation("%s:crash" % CLASS[r["k"]], "driver died: " + crashes[i], r)
            continue
        _check_geom(ctx, r, results[i][0])
    ctx.extra["geometries"] = kinds
    ctx.extra["periodic_placements"] = per
    for k in CLASS:
        for r in vecs:
            if r["k"] == k and r["typ"] != "open":
                ctx.sample({"geometry": r})
                break



# ---------------------------------------------------------------------------------------------
# 2. potential functions
# ---------------------------------------------------------------------------------------------

PFCLASS = {"lj126": "PotentialFunctionLJ126", "ljg": "PotentialFunctionLJG", "cbspl": "PotentialFunctionCBSPL"}


def _val(lines):
    for ln in lines:
        if ln.startswith("v "):
            return [float(t) for t in ln.split()[1:]]
    return None


def _exc(lines):
    for ln in lines:
        if ln.startswith("exc"):
            return ln
    return None


def _rows(lines):
    rows, n = [], None
    for ln in lines:
        p = ln.split()
        if p and p[0] == "rows":
            n = int(p[1])
        elif p and p[0] == "row":
            rows.append((float(p[1]), float(p[2])))
    if n is None or n != len(rows):
        return None
    return rows


def _lj_cmds(r):
    np_ = 2 if r["fn"] == "lj126" else 5
    lam = r["lam"]
    par = [float(lam[0]), float(lam[1])]
    if np_ == 5:
        par += [float(lam[2]), lam[3] * LN2, lam[4] / 2.0]
    cmds = ["pf %s %r %r %d %s" % (r["fn"], r["mn"] / 2.0, r["cut"] / 2.0, np_, " ".join(repr(x) for x in par))]
    for pt in r["pts"]:
        x = pt["P"] / 2.0
        cmds.append("F %r" % x)
        for i in range(np_):
            cmds.append("DF %d %r" % (i, x))
        for i in range(np_):
            for j in range(np_):
                cmds.append("D2F %d %d %r" % (i, j, x))
    cmds.append("tab %r" % (r["tab"]["step"] / 2.0))
    t2 = r["tab2"]
    cmds.append("tab2 %r %r %r" % (t2["step"] / 2.0, t2["lo"] / 2.0, t2["hi"] / 2.0))
    return cmds, np_


def _check_table(ctx, cls, r, rows_exp, got, what, conv_x):
    """rows_exp: list of (x_real, zone, (value, mag)); got: parsed rows or None"""
    if got is None or len(got) != len(rows_exp):
        ctx.violation("%s:SavePotTab:grid" % cls, "%s: %s rows written, %d expected; scenario %s"
                      % (what, "no" if got is None else len(got), len(rows_exp), conv_x), r)
        return
    for (x, zone, (v, mag)), (gx, gy) in zip(rows_exp, got):
        if not near(gx, x, abs(x), 1e-9):
            ctx.violation("%s:SavePotTab:grid" % cls, "%s: row at r=%r, expected grid point %r" % (what, gx, x), r)
            return
        ok = near(gy, v, mag, 2e-9)
        if zone == "below":
            ok = ok or abs(gy) <= 1e-9 * mag
        if not ok:
            ctx.violation("%s:SavePotTab:value" % cls, "%s: tabulated %r at r=%r but the function is %r" % (what, gy, x, v), r)
            return


def _check_lj(ctx, r, out):
    cls = PFCLASS[r["fn"]]
    np_ = 2 if r["fn"] == "lj126" else 5
    if _exc(out[0]):
        ctx.violation("%s:constructor" % cls, "%s for %s" % (_exc(out[0]), r["lam"]), r)
        return
    k = 1
    for pt in r["pts"]:
        zone = pt["zone"]
        x = pt["P"] / 2.0
        exp = [("CalculateF", real(pt["F"]))]
        for i in range(np_):
            exp.append(("CalculateDF:%d" % i, real(pt["DF"][i])))
        d2 = {}
        for i in range(np_):
            for j in range(np_):
                exp.append(("CalculateD2F:%d,%d" % (i, j), real(pt["D2F"][i][j])))
        got = []
        for (name, _) in exp:
            v = _val(out[k])
            if v is None:
                ctx.violation("%s:%s:exception" % (cls, name), "%s at r=%r" % (out[k], x), r)
                return
            got.append(v[0])
            k += 1
        okf = [near(g, e[1][0], e[1][1]) for g, e in zip(got, exp)]
        okz = [abs(g) <= 1e-9 * max(e[1][1], 1e-300) if e[1][1] > 0 else g == 0.0 for g, e in zip(got, exp)]
        # r < min is outside the quantified range: consistently the formula or consistently cut to zero
        good = all(okf) or (zone == "below" and all(okz))
        bad = [n for (n, _), a in zip(exp, okf) if not a]
        if not good:
            name = bad[0] if bad else exp[0][0]
            idx = [n for n, _ in exp].index(name)
            ctx.violation("%s:%s:%s" % (cls, name, zone),
                          "%s(r=%r) = %r but the derivative of CalculateF is %r (lam=%s, min=%r, cut=%r)"
                          % (name, x, got[idx], exp[idx][1][0], r["lam"], r["mn"] / 2.0, r["cut"] / 2.0), r)
            return
        # symmetry of the reported second derivatives (two outputs of the code, compared exactly)
        for i in range(np_):
            for j in range(i):
                a, b = got[1 + np_ + i * np_ + j], got[1 + np_ + j * np_ + i]
                if a != b and not near(a, b, max(abs(a), abs(b)), 1e-12):
                    ctx.violation("%s:CalculateD2F:asymmetric" % cls,
                                  "D2F(%d,%d)=%r but D2F(%d,%d)=%r at r=%r lam=%s" % (i, j, a, j, i, b, x, r["lam"]), r)
                    return
    for name in ("tab", "tab2"):
        t = r[name]
        rows_exp = [(row["P"] / 2.0, row["zone"], real(row["F"])) for row in t["rows"]]
        rows_exp = [(x, z, (v, max(m, 1e-300))) for x, z, (v, m) in rows_exp]
        _check_table(ctx, cls, r, rows_exp, _rows(out[k]), "SavePotTab(%s)" % name, r["lam"])
        k += 1


def _spl_r(r, X):
    return (X / float(r["M"])) * ((r["cut8"] / LAT) / r["NI"])


def _spl_cmds(r):
    nl = len(r["lam"])
    cmds = ["pf cbspl %r %r %d %s" % (_spl_r(r, r["xmin"]), r["cut8"] / LAT, nl, " ".join(repr(float(x)) for x in r["lam"]))]
    for pt in r["pts"]:
        x = _spl_r(r, pt["X"])
        cmds.append("F %r" % x)
        for i in range(r["nopt"]):
            cmds.append("DF %d %r" % (i, x))
        cmds.append("D2F 0 %d %r" % (r["nopt"] - 1, x))
        cmds.append("D2F %d 0 %r" % (r["nopt"] - 1, x))
    for i in range(r["nopt"]):
        cmds.append("getopt %d" % i)
        cmds.append("setopt %d %r" % (i, float(r["lam"][i + r["nexcl"]] + 1)))
        for pt in r["pts"]:
            cmds.append("F %r" % _spl_r(r, pt["X"]))
        cmds.append("setopt %d %r" % (i, float(r["lam"][i + r["nexcl"]])))
    cmds.append("tab %r" % _spl_r(r, r["tab"]["step"]))
    cmds.append("params")
    for row in r["tab"]["rows"]:
        cmds.append("F %r" % _spl_r(r, row["X"]))
    return cmds


def _check_spl(ctx, r, out):
    cls = PFCLASS["cbspl"]
    den = float(r["den"])
    mag = float(max(1, max(abs(x) for x in r["lam"])) + 1)
    if _exc(out[0]) or not out[0] or not out[0][0].startswith("ok"):
        ctx.violation("%s:constructor" % cls, "%s for %s" % (out[0], r), r)
        return
    p = out[0][0].split()
    if int(p[4]) != r["nopt"]:
        ctx.violation("%s:getOptParamSize" % cls, "%s optimised coefficients, %d expected (min=%r, dr=%r)"
                      % (p[4], r["nopt"], _spl_r(r, r["xmin"]), _spl_r(r, r["M"])), r)
        return
    k = 1

    def take(name, x, exp, tol_mag):
        nonlocal k
        v = _val(out[k])
        k += 1
        if v is None:
            ctx.violation("%s:%s:exception" % (cls, name.split("(")[0]), "%s at r=%r" % (out[k - 1], x), r)
            return False
        if not near(v[0], exp, tol_mag):
            where = "beyond-cut" if exp == 0 and x > r["cut8"] / LAT else "in"
            ctx.violation("%s:%s:%s" % (cls, name.split("(")[0], where),
                          "%s = %r at r=%r but the spline gives %r (coefficients %s, dr=%r)"
                          % (name, v[0], x, exp, r["lam"], _spl_r(r, r["M"])), r)
            return False
        return True

    for pt in r["pts"]:
        x = _spl_r(r, pt["X"])
        if not take("CalculateF", x, pt["F"] / den, mag):
            return
        for i in range(r["nopt"]):
            if not take("CalculateDF(%d)" % i, x, pt["DF"][i] / den, 1.0):
                return
        for _ in range(2):
            if not take("CalculateD2F", x, 0.0, 1e-3):
                return
    for i in range(r["nopt"]):
        if not take("getOptParam(%d)" % i, 0.0, float(r["lam"][i + r["nexcl"]]), mag):
            return
        k += 1
        for pt in r["pts"]:
            # F after setOptParam(i, lam+1): the exact finite difference of the linear form
            if not take("CalculateF[setOptParam(%d)+1]" % i, _spl_r(r, pt["X"]), pt["Fb"][i] / den, mag):
                return
        k += 1
    got = _rows(out[k])
    k += 1
    params = None
    for ln in out[k]:
        if ln.startswith("params"):
            params = [float(t) for t in ln.split()[1:]]
    k += 1
    emag = float(max(1, max(abs(x) for x in r["ext"])) + 1)
    rows_exp = [(_spl_r(r, row["X"]), "in", (row["F"] / den, emag)) for row in r["tab"]["rows"]]
    n0 = len(ctx.violations) + len(ctx.known_hit)
    # is the table what the TLC model of extrapolExclParam + CalculateF says?
    model_ok = (got is not None and len(got) == len(rows_exp)
                and all(near(gx, x, abs(x)) and near(gy, v, m, 2e-9) for (x, _, (v, m)), (gx, gy) in zip(rows_exp, got)))
    if not model_ok:
        # the statement: the table equals the function (as it is after the call) on the grid
        after = []
        for row in r["tab"]["rows"]:
            v = _val(out[k])
            k += 1
            after.append(v[0] if v else float("nan"))
        self_ok = (got is not None and len(got) == len(rows_exp)
                   and all(near(gx, x, abs(x)) and near(gy, a, emag, 2e-9) for (x, _, _), (gx, gy), a in zip(rows_exp, got, after)))
        if self_ok:
            ctx.extra["algo_drift_warnings"] = ctx.extra.get("algo_drift_warnings", 0) + 1
            vlib.log("WARNING: CBSPL table equals CalculateF on the grid but the core extrapolation differs from "
                     "the transcription in PotFn.tla (Extrapolated): params %s, model %s" % (params, r["ext"]))
        else:
            _check_table(ctx, cls, r, rows_exp, got, "SavePotTab", r["lam"])
            if len(ctx.violations) + len(ctx.known_hit) == n0:
                ctx.violation("%s:SavePotTab:value" % cls, "table %s differs from the function after the call %s" % (got, after), r)


def run_potentials(ctx, exe):
    mod = "MCPotQuick" if ctx.quick else "MCPotThorough"
    res = vlib.tlc("derivs", mod, cfg=mod + ".cfg", workers=4, timeout=2400)
    vlib.tlc_must_hold(res, "PotFn: symbolic derivative = closed forms, symmetry, B-spline basis = Cox-de Boor")
    ctx.add_tlc(mod, res)
    vecs = res.records
    if 2 * len(vecs) != res.distinct:
        raise vlib.InfraError("potential vector export incomplete: %d records for %d states" % (len(vecs), res.distinct))
    fns = {}
    items = []
    for i, r in enumerate(vecs):
        fns[r["fn"]] = fns.get(r["fn"], 0) + 1
        items.append((i, _spl_cmds(r) if r["fn"] == "cbspl" else _lj_cmds(r)[0]))
    if sorted(fns) != ["cbspl", "lj126", "ljg"]:
        raise vlib.InfraError("vacuous potential export: %s" % fns)
    results, crashes = vlib.run_items(exe, items, env={"VERIF_SCRATCH": vlib.SCRATCH})
    npts = 0
    for i, r in enumerate(vecs):
        ctx.count(len(r["pts"]))
        ctx.traces += 1        # one object stepped through a command sequence (construct, evaluate, setOptParam, SavePotTab)
        npts += len(r["pts"])
        ctx.nontriv(("pot", r["fn"], str(r["lam"]), str(r.get("mn")), str(r.get("xmin")), str(r.get("NI"))))
        if i in crashes:
            ctx.violation("%s:crash" % PFCLASS[r["fn"]], "driver died: " + crashes[i], r)
            continue
        if r["fn"] == "cbspl":
            _check_spl(ctx, r, results[i])
        else:
            _check_lj(ctx, r, results[i])
    ctx.extra["potential_scenarios"] = fns
    ctx.extra["potential_points"] = npts
    for fn in ("ljg", "cbspl"):
        for r in vecs:
            if r["fn"] == fn:
                small = dict(r)
                small["pts"] = r["pts"][:2]
                ctx.sample({"potential": small}, limit=8)
                break


# ---------------------------------------------------------------------------------------------
# 3. splines
# ---------------------------------------------------------------------------------------------

SPLCLASS = {"lin": "LinSpline", "cubic": "CubicSpline", "akima": "AkimaSpline"}


def _spline_cmds(r):
    xs, ys = r["xs"], r["ys"]
    if r["mode"] == "interp":
        first = "spl %s 0 %d %s %s" % (r["typ"], len(xs), " ".join(repr(float(x)) for x in xs),
                                       " ".join(repr(float(y)) for y in ys))
    else:
        dx = [pt["X"] / 2.0 for pt in r["pts"]]
        dy = [pt["v"][0] / float(pt["v"][1]) for pt in r["pts"]]
        first = "splfit %s 0 %r %r %r %d %s %s" % (r["typ"], float(xs[0]), float(xs[-1]), float(xs[1] - xs[0]), len(dx),
                                                   " ".join(repr(x) for x in dx), " ".join(repr(y) for y in dy))
    return [first] + ["sv %r" % (pt["X"] / 2.0) for pt in r["pts"]]


def _check_spline(ctx, r, out):
    cls = SPLCLASS[r["typ"]]
    line = len(set((r["ys"][i + 1] - r["ys"][i]) * (r["xs"][1] - r["xs"][0]) ==
                   (r["ys"][1] - r["ys"][0]) * (r["xs"][i + 1] - r["xs"][i]) for i in range(len(r["xs"]) - 1))) == 1 \
        and all((r["ys"][i + 1] - r["ys"][i]) * (r["xs"][1] - r["xs"][0]) ==
                (r["ys"][1] - r["ys"][0]) * (r["xs"][i + 1] - r["xs"][i]) for i in range(len(r["xs"]) - 1))
    tag = r["mode"] + (":line" if line else "")
    if _exc(out[0]) or not out[0] or not out[0][0].startswith("ok"):
        ctx.violation("%s:%s:exception" % (cls, r["mode"]), "%s on xs=%s ys=%s" % (out[0], r["xs"], r["ys"]), r)
        return
    mag = float(max(1, max(abs(y) for y in r["ys"])))
    for pt, o in zip(r["pts"], out[1:]):
        v = _val(o)
        x = pt["X"] / 2.0
        if v is None or len(v) != 2:
            ctx.violation("%s:Calculate:%s:exception" % (cls, tag), "%s at x=%r" % (o, x), r)
            return
        ev = pt["v"][0] / float(pt["v"][1])
        if not near(v[0], ev, mag):
            ctx.violation("%s:Calculate:%s" % (cls, tag), "Calculate(%r) = %r, the interpolant is %r (xs=%s ys=%s)"
                          % (x, v[0], ev, r["xs"], r["ys"]), r)
            return
        slopes = [s[0] / float(s[1]) for s in pt["dv"]]
        if not any(near(v[1], s, mag) for s in slopes):
            ctx.violation("%s:CalculateDerivative:%s:%s" % (cls, tag, "knot" if len(slopes) > 1 else "inside"),
                          "CalculateDerivative(%r) = %r, the derivative of the value is %s (xs=%s ys=%s)"
                          % (x, v[1], slopes, r["xs"], r["ys"]), r)
            return


def run_splines(ctx, exe):
    res = vlib.tlc("derivs", "MCSpline", cfg="MCSpline.cfg", workers=2, timeout=900)
    vlib.tlc_must_hold(res, "SplineLin: exact finite differences of the piecewise-linear interpolant")
    ctx.add_tlc("MCSpline", res)
    vecs = res.records
    if 2 * len(vecs) != res.distinct:
        raise vlib.InfraError("spline vector export incomplete")
    items = [(i, _spline_cmds(r)) for i, r in enumerate(vecs)]
    results, crashes = vlib.run_items(exe, items)
    kinds = {}
    for i, r in enumerate(vecs):
        kinds[r["typ"] + ":" + r["mode"]] = kinds.get(r["typ"] + ":" + r["mode"], 0) + 1
        ctx.count(len(r["pts"]))
        ctx.traces += 1
        ctx.nontriv(("spline", r["typ"], r["mode"], str(r["xs"]), str(r["ys"])))
        if i in crashes:
            ctx.violation("%s:crash" % SPLCLASS[r["typ"]], "driver died: " + crashes[i], r)
            continue
        _check_spline(ctx, r, results[i])
    if len(kinds) < 4:
        raise vlib.InfraError("vacuous spline export: %s" % kinds)
    ctx.extra["spline_scenarios"] = kinds


def run(ctx):
    bindir = vlib.ensure_build(["drv_derivs"])
    exe = bindir + "/drv_derivs"
    ctx.rule = ("mode L: every lattice geometry (connection vectors in a cube, one of them canonical under the 48 "
                "lattice symmetries, non-singular) is one vector, placed with a hash-chosen rotation/reflection, "
                "translation, periodic box and per-bead image shift; every (potential form, parameter vector, "
                "min, cut) with all lattice r; every spline data set with all half-lattice x")
    ctx.assumptions += [
        "lattice: coordinates k/8 nm, box entries integers/8; connection vectors are the unique shortest image and "
        "(triclinic) below half the shortest box height, the class for which C02 shows BCShortestConnection exact",
        "the closed forms in Derivs.tla were cross-checked once against 60-digit central differences of the value "
        "function (spec/derivs/crosscheck.py, 7106 configurations, worst deviation 5e-28)",
        "comparison at 1e-9 relative after multiplying by the integer scale factors; singular geometries excluded"]
    if getattr(ctx, "replay", None):
        # re-run exactly one recorded vector (the expectation inside it came from TLC)
        import json
        r = json.load(open(ctx.replay))["replay"]
        if "k" in r:
            cmds, chk = [_geom_cmd(r)], (lambda out: _check_geom(ctx, r, out[0]))
        elif r.get("fn") == "cbspl":
            cmds, chk = _spl_cmds(r), (lambda out: _check_spl(ctx, r, out))
        elif "fn" in r:
            cmds, chk = _lj_cmds(r)[0], (lambda out: _check_lj(ctx, r, out))
        else:
            cmds, chk = _spline_cmds(r), (lambda out: _check_spline(ctx, r, out))
        results, crashes = vlib.run_items(exe, [(0, cmds)], env={"VERIF_SCRATCH": vlib.SCRATCH})
        ctx.count()
        if 0 in crashes:
            ctx.violation("replay:crash", crashes[0], r)
        else:
            chk(results[0])
        return
    run_geometry(ctx, exe)
    run_potentials(ctx, exe)
    run_splines(ctx, exe)
    ctx.exhaustive = False
