"""C07 - every analytic derivative equals the derivative of its value function.
spec/derivs: Derivs (closed forms + declarative characterisation of the true gradients of bond,
angle, dihedral as exact integer identities), DerivGeom (mode L vectors: geometry x rotation x
translation x periodic box x image shifts), PotFn (symbolic calculus for LJ 12-6 / LJ+Gaussian,
Cox-de Boor B-splines for CBSPL, SavePotTab), SplineLin (piecewise-linear and straight-line data)."""
import math
import vlib

LAT = 8.0           # lattice units per nm (Pbc.tla)
LN2 = math.log(2.0)

MANIFEST = dict(
        engine="derivs", design_ref="DESIGN.md 5/C07",
        technique="TLA+ spec stating value and true gradient of bond/angle/dihedral as exact integer identities "
                  "(closed form checked by TLC against a declarative characterisation: direction, magnitude, "
                  "sum = 0, torque = 0; covariance under the 48 lattice symmetries; translation / periodic-image "
                  "invariance via Pbc!SpecMI), symbolic differentiation of the LJ/LJG forms and Cox-de Boor "
                  "B-spline basis in TLA+; TLC-exported vectors replayed into Interaction::EvaluateVar/Grad, "
                  "PotentialFunction*::CalculateF/DF/D2F/SavePotTab and Spline::Calculate/CalculateDerivative",
        text="For every lattice geometry of the TLC domain the reported value and gradient of IBond/IAngle/IDihedral, "
             "multiplied by the integer scale factors exported by TLC, equal the integer right-hand sides of the true "
             "gradient (1e-9 relative), on rotated, translated and periodically shifted placements; for every "
             "lattice parameter vector and r the potential-function value, first and second parameter derivatives "
             "equal the symbolically differentiated form, second derivatives are symmetric, SavePotTab rows equal "
             "the function on the grid; LinSpline / straight-line data derivatives equal the exact slopes.",
        note="Trusted: TLC, the one-off 60-digit finite-difference cross-check of the identities "
             "(spec/derivs/crosscheck.py, recorded in README), the lattice argument (coordinates k/8 nm, dyadic r, "
             "B = m ln2). Not covered: curved-data derivative-of-value of cubic/Akima splines (C12), "
             "geometries off the integer lattice, singular geometries (collinear / planar), CBSPL table "
             "derivative w.r.t. the extrapolated core coefficients.")


# ---------------------------------------------------------------------------------------------
# conversion of the spec's exact numbers to reals (the only arithmetic done here)
# ---------------------------------------------------------------------------------------------

def real(terms):
    """terms: list of {n, d, l, e, bn, bd, bp}: value = sum n/d * ln2^l * 2^-e * (bn/bd)^bp.
    Returns (value, magnitude) where magnitude = sum of |term| (for the tolerance)."""
    s, mag = 0.0, 0.0
    for t in terms:
        v = t["n"] / t.get("d", 1)
        if t.get("l", 0):
            v *= LN2 ** t["l"]
        if t.get("e", 0):
            v *= 2.0 ** (-t["e"])
        if t.get("bp", 0):
            v *= (t["bn"] / t["bd"]) ** t["bp"]
        s += v
        mag += abs(v)
    return s, mag


def near(a, b, mag, rel=1e-9):
    return abs(a - b) <= rel * max(mag, abs(b)) + 1e-300


# ---------------------------------------------------------------------------------------------
# 1. bonded interactions
# ---------------------------------------------------------------------------------------------

def _geom_cmd(r, verb="ia"):
    box = " ".join(repr(x / LAT) for x in r["box"])
    pos = "  ".join(" ".join(repr(x / LAT) for x in p) for p in r["p"])
    return "%s %s %s %s  %s" % (verb, r["k"], r.get("req", r["typ"]), box, pos)


CLASS = {"bond": "IBond", "angle": "IAngle", "dih": "IDihedral"}
FN = {"id": lambda x: x, "cos": math.cos, "sin": math.sin}


def _check_geom(ctx, r, out, tag=""):
    """tag: "" for a fresh Topology + index constructors, ":via-topology" for the session path (list
    constructors, AddBondedInteraction, repeated setBox / moved beads on the same objects)"""
    cls = CLASS[r["k"]]
    ex = [l for l in out if l.startswith("exc")]
    if ex or not out or not out[0].startswith("res"):
        ctx.violation("%s:exception%s" % (cls, tag), "%s on %s" % (ex or out, r), r)
        return
    nums = [float(t) for t in out[0].split()[1:]]
    val, flat = nums[0], nums[1:]
    nb = len(r["g"])
    if len(flat) != 3 * nb:
        raise vlib.InfraError("driver output malformed: " + out[0])
    # value: fn(value) * sqrt(l) = v * sqrt(rr); a bond length is in nm -> lattice units
    vlat = val * LAT if r["k"] == "bond" else val
    for x in r["vals"]:
        lhs = FN[x["fn"]](vlat) * math.sqrt(x["l"])
        rhs = x["v"] * math.sqrt(x["rr"])
        if not near(lhs, rhs, math.sqrt(x["l"])):
            ctx.violation("%s:EvaluateVar:%s:%s%s" % (cls, r["typ"], x["fn"], tag),
                          "%s(value)*sqrt(%d) = %.12g but the geometry gives %d*sqrt(%d) = %.12g; value %r; %s"
                          % (x["fn"], x["l"], lhs, x["v"], x["rr"], rhs, val, _geom_cmd(r)), r)
            return
    # gradient: g * m * sqrt(r) = v  (g in 1/lattice units: bond dimensionless, angles rad/nm / 8)
    unit = 1.0 if r["k"] == "bond" else 1.0 / LAT
    bad = []
    for b, g in enumerate(r["g"]):
        scale = g["m"] * math.sqrt(g["r"]) * unit
        mag = max(1.0, max(abs(x) for x in g["v"]))
        for ax in range(3):
            if not near(flat[3 * b + ax] * scale, g["v"][ax], mag):
                bad.append(b)
                break
    if bad:
        b = bad[0]
        g = r["g"][b]
        scale = g["m"] * math.sqrt(g["r"]) * unit
        got = [flat[3 * b + ax] * scale for ax in range(3)]
        true = [x / scale for x in g["v"]]
        ctx.violation("%s:Grad:bead%d%s" % (cls, b, tag),
                      "Grad(bead %d) = %s but the true gradient is %s (scaled by %d*sqrt(%d): %s vs integers %s); %s"
                      % (b, [flat[3 * b + ax] for ax in range(3)], true, g["m"], g["r"], got, g["v"], _geom_cmd(r)), r)
        return
    # sum of the reported gradients = 0 (translation invariance), in reported units
    for ax in range(3):
        s = sum(flat[3 * b + ax] for b in range(nb))
        mag = max(abs(flat[3 * b + ax]) for b in range(nb))
        if abs(s) > 1e-9 * max(mag, 1e-3):
            ctx.violation("%s:Grad:sum%s" % (cls, tag), "gradients do not sum to zero (%g on axis %d); %s" % (s, ax, _geom_cmd(r)), r)
            return


def run_geometry(ctx, exe):
    mod = "MCGeomQuick" if ctx.quick else "MCGeomThorough"
    res = vlib.tlc("derivs", mod, cfg=mod + ".cfg", workers=4, timeout=2400,
                   env={"C07_SLICE": ctx.seed % 1000})
    vlib.tlc_must_hold(res, "DerivGeom: closed forms satisfy the characterisation of the true gradient, "
                            "covariance, placement invariance")
    ctx.add_tlc(mod, res)
    vecs = res.records
    if 2 * len(vecs) != res.distinct:
        raise vlib.InfraError("vector export incomplete: %d records for %d states" % (len(vecs), res.distinct))
    kinds = {}
    per = 0
    for r in vecs:
        kinds[r["k"]] = kinds.get(r["k"], 0) + 1
        per += r["typ"] != "open"
    if min(kinds.get(k, 0) for k in CLASS) == 0 or per == 0:
        raise vlib.InfraError("vacuous geometry export: %s, %d periodic" % (kinds, per))
    # vacuity guards for the placement layer: many distinct boxes, extreme skew, every way of requesting the
    # box type, image shifts of thousands of boxes
    boxes = set(tuple(r["box"]) for r in vecs if r["typ"] != "open")
    skew = sum(1 for r in vecs if r["typ"] == "tric" and r["box"][1] != 0
               and 2 * abs(r["box"][1]) >= r["box"][0] - 1 and 2 * abs(r["box"][5]) >= r["box"][4] - 1)
    far = sum(1 for r in vecs if max(abs(x) for p in r["p"] for x in p) > 20000)
    reqs = set((r["typ"], r.get("req")) for r in vecs)
    need = {("tric", "tric"), ("tric", "auto"), ("ortho", "ortho"), ("ortho", "auto"), ("open", "open"), ("open", "auto")}
    if len(boxes) < 200 or skew < 20 or far < 100 or not need <= reqs:
        raise vlib.InfraError("vacuous placement layer: %d boxes, %d extreme-skew, %d far, %s" % (len(boxes), skew, far, reqs))
    # even vectors: fresh Topology + index constructors (ia); odd vectors: sessions of 16 on ONE topology whose
    # interactions were built from a bead list and are reached through BondedInteractions() (tev)
    items = [(i, [_geom_cmd(r)]) for i, r in enumerate(vecs) if i % 2 == 0]
    odd = [i for i in range(len(vecs)) if i % 2 == 1]
    sessions = [odd[j:j + 16] for j in range(0, len(odd), 16)]
    for n, ids in enumerate(sessions):
        items.append((("s", n), ["top new"] + [_geom_cmd(vecs[i], "tev") for i in ids]))
    results, crashes = vlib.run_items(exe, items)
    outs = {}
    for i in range(0, len(vecs), 2):
        outs[i] = ("", crashes.get(i), results.get(i, [None])[0])
    nsess = 0
    for n, ids in enumerate(sessions):
        sid = ("s", n)
        ctx.traces += 1
        if sid in crashes:
            for i in ids:
                outs[i] = (":via-topology", crashes[sid], None)
            continue
        o = results[sid]
        if not o[0] or not o[0][0].startswith("ok 3"):
            ctx.violation("Topology:AddBondedInteraction", "session topology not built: %s" % o[0], {"session": n})
            for i in ids:
                outs[i] = (":via-topology", None, None)
            continue
        nsess += len(ids) >= 2
        for j, i in enumerate(ids):
            outs[i] = (":via-topology", None, o[1 + j])
    if nsess == 0:
        raise vlib.InfraError("vacuous: no topology session with a second evaluation")
    for i, r in enumerate(vecs):
        ctx.count()
        ctx.nontriv(("geom", r["k"], str(r["u"])))
        tag, crash, out = outs[i]
        if crash:
            ctx.violation("%s:crash%s" % (CLASS[r["k"]], tag), "driver died: " + crash, r)
            continue
        if out is None:
            continue
        _check_geom(ctx, r, out, tag)
    ctx.extra["distinct_boxes"] = len(boxes)
    ctx.extra["extreme_skew_placements"] = skew
    ctx.extra["far_image_placements"] = far
    ctx.extra["topology_sessions"] = len(sessions)
    ctx.extra["geometries"] = kinds
    ctx.extra["periodic_placements"] = per
    for k in CLASS:
        for r in vecs:
            if r["k"] == k and r["typ"] != "open":
                ctx.sample({"geometry": r})
                break



# ---------------------------------------------------------------------------------------------
# 2. potential functions
# ---------------------------------------------------------------------------------------------

PFCLASS = {"lj126": "PotentialFunctionLJ126", "ljg": "PotentialFunctionLJG", "cbspl": "PotentialFunctionCBSPL"}


def _val(lines):
    for ln in lines:
        if ln.startswith("v "):
            return [float(t) for t in ln.split()[1:]]
    return None


def _exc(lines):
    for ln in lines:
        if ln.startswith("exc"):
            return ln
    return None


def _rows(lines):
    rows, n = [], None
    for ln in lines:
        p = ln.split()
        if p and p[0] == "rows":
            n = int(p[1])
        elif p and p[0] == "row":
            rows.append((float(p[1]), float(p[2])))
    if n is None or n != len(rows):
        return None
    return rows


def _rows3(lines):
    rows, n = [], None
    for ln in lines:
        p = ln.split()
        if p and p[0] == "rows":
            n = int(p[1])
        elif p and p[0] == "row":
            rows.append((float(p[1]), float(p[2]), p[3] if len(p) > 3 else ""))
    if n is None or n != len(rows):
        return None
    return rows


class Script:
    """a command sequence against ONE driver object with a checker per command; the first failing checker
    (which reports the violation itself and returns False) ends the evaluation of the scenario"""

    def __init__(self):
        self.cmds, self.chk = [], []

    def add(self, cmd, fn=None):
        self.cmds.append(cmd)
        self.chk.append(fn)

    def run(self, out):
        for o, fn in zip(out, self.chk):
            if fn is not None and fn(o) is False:
                return False
        return True


def _table_match(rows_exp, got, rel=2e-9):
    """rows_exp: [(x, accept, value, mag)], accept in {"exact", "either"} (either = the function or zero).
    Returns None if the written rows are that table, else (kind, text)."""
    if got is None:
        return ("grid", "no table written")
    if len(got) != len(rows_exp):
        return ("grid", "%d rows written, %d expected" % (len(got), len(rows_exp)))
    for (x, acc, v, mag), row in zip(rows_exp, got):
        gx, gy = row[0], row[1]
        if not near(gx, x, abs(x), 1e-9):
            return ("grid", "row at r=%r, expected grid point %r" % (gx, x))
        ok = near(gy, v, mag, rel)
        if acc == "either":
            ok = ok or abs(gy) <= 1e-9 * mag
        if not ok:
            return ("value", "tabulated %r at r=%r but the function is %r" % (gy, x, v))
    return None


def _lj_par(r):
    lam, q = r["lam"], float(r["Q"])
    par = [float(lam[0]), float(lam[1])]
    if r["fn"] == "ljg":
        par += [float(lam[2]), lam[3] * LN2, lam[4] / q]
    return par


def _lj_rows(r, rows):
    """TLC rows -> [(x, accept, value, mag)].  Off the dyadic lattice the code's `r += step` accumulates
    round-off, so an INTERIOR row that sits exactly on min or cut may fall on either side (DESIGN 7.5)."""
    q = float(r["Q"])
    out = []
    for n, row in enumerate(rows):
        v, mag = real(row["F"])
        edge = r["Q"] != 2 and row["P"] in (r["mn"], r["cut"]) and 0 < n < len(rows) - 1
        if edge or row["zone"] == "below":
            fv, fm = real(row["Ff"]) if "Ff" in row else (v, mag)
            out.append((row["P"] / q, "either", fv, max(fm, 1e-300)))
        else:
            out.append((row["P"] / q, "exact", v, mag))
    return out


def _lj_script(ctx, r, nxt):
    cls = PFCLASS[r["fn"]]
    np_ = 2 if r["fn"] == "lj126" else 5
    q = float(r["Q"])
    par = _lj_par(r)
    S = Script()

    def viol(key, text):
        ctx.violation("%s:%s" % (cls, key), "%s (lam=%s, min=%r, cut=%r)" % (text, r["lam"], r["mn"] / q, r["cut"] / q), r)
        return False
    viol0 = viol

    def point(rec, pt, full, sfx):
        x = pt["P"] / q
        if rec is not r:
            def viol(key, text):     # second use of the object: report the parameters it has then
                ctx.violation("%s:%s" % (cls, key), "%s (object re-parameterised to lam=%s, min=%r, cut=%r after lam=%s)"
                              % (text, rec["lam"], rec["mn"] / q, rec["cut"] / q, r["lam"]), {"first": r, "then": rec})
                return False
        else:
            viol = viol0
        exp = [("CalculateF", "F %r" % x, real(pt["F"]))]
        for i in range(np_):
            exp.append(("CalculateDF:%d" % i, "DF %d %r" % (i, x), real(pt["DF"][i])))
        if full:
            for i in range(np_):
                for j in range(np_):
                    exp.append(("CalculateD2F:%d,%d" % (i, j), "D2F %d %d %r" % (i, j, x), real(pt["D2F"][i][j])))
        got = []

        def step(name, last):
            def fn(o):
                v = _val(o)
                if v is None:
                    return viol("%s:exception%s" % (name, sfx), "%s at r=%r" % (o, x))
                got.append(v[0])
                if not last:
                    return True
                zone = pt["zone"]
                okf = [near(g, e[2][0], e[2][1]) for g, e in zip(got, exp)]
                okz = [(abs(g) <= 1e-9 * e[2][1]) if e[2][1] > 0 else g == 0.0 for g, e in zip(got, exp)]
                # r < min is outside the quantified range: consistently the formula or consistently cut to zero
                if not (all(okf) or (zone == "below" and all(okz))):
                    k = okf.index(False)
                    where = zone + (":at-cut" if pt["P"] == rec["cut"] else ":at-min" if pt["P"] == rec["mn"] else "")
                    return viol("%s:%s%s" % (exp[k][0], where, sfx),
                                "%s(r=%r) = %r but the derivative of CalculateF is %r" % (exp[k][0], x, got[k], exp[k][2][0]))
                if full:
                    for i in range(np_):
                        for j in range(i):
                            a, b = got[1 + np_ + i * np_ + j], got[1 + np_ + j * np_ + i]
                            if a != b and not near(a, b, max(abs(a), abs(b)), 1e-12):
                                return viol("CalculateD2F:asymmetric", "D2F(%d,%d)=%r but D2F(%d,%d)=%r at r=%r" % (i, j, a, j, i, b, x))
                return True
            return fn
        for n, (name, cmd, _) in enumerate(exp):
            S.add(cmd, step(name, n == len(exp) - 1))

    S.add("pf %s %r %r %d %s" % (r["fn"], r["mn"] / q, r["cut"] / q, np_, " ".join(repr(x) for x in par)),
          lambda o: True if (o and o[0].startswith("ok")) else viol("constructor", "%s" % o))
    for pt in r["pts"]:
        point(r, pt, True, "")
    # SavePotTab, both overloads, steps that divide the range and steps that do not
    for t in r["tabs"]:
        cmd = ("tab %r" % (t["step"] / q)) if t["call"] == "tab" else ("tab2 %r %r %r" % (t["step"] / q, t["lo"] / q, t["hi"] / q))

        def tabfn(o, t=t, cmd=cmd):
            got = _rows3(o)
            res = [_table_match(_lj_rows(r, v), got) for v in t["variants"]]
            if any(x is None for x in res):
                return True
            kind, text = sorted(res, key=lambda x: x[0] != "value")[0]
            nd = "" if len(t["variants"]) == 1 else ":nondividing-step"
            return viol("SavePotTab:%s%s" % (kind, nd), "%s: %s" % (cmd, text))
        S.add(cmd, tabfn)
    if r["big"]:
        bt = r["bigtab"]

        def bigfn(o):
            got = _rows3(o)
            if got is None or len(got) != bt["n"]:
                return viol("SavePotTab:grid:long", "%s rows written, %d expected" % (None if got is None else len(got), bt["n"]))
            exp = _lj_rows(r, bt["rows"])
            m = _table_match(exp, [got[k * bt["every"]] for k in range(len(exp))])
            return True if m is None else viol("SavePotTab:%s:long" % m[0], m[1])
        S.add("tab %r" % (1.0 / q), bigfn)
    # SaveParam: the parameters, numbered; kept for the round trip below

    def savefn(o):
        got = _rows3(o)
        if got is None or len(got) != np_ or any(not near(g[0], i, 1, 1e-12) or not near(g[1], p, abs(p), 2e-9)
                                                 for i, (g, p) in enumerate(zip(got, par))):
            return viol("SaveParam", "file %s for parameters %s" % (got, par))
        return True
    S.add("saveparam", savefn)
    # the SAME object used again: every parameter through setParam(i, v), the window through setMinDist /
    # setCutOffDist, then value and first derivatives of the next scenario
    if nxt is not None:
        par2 = _lj_par(nxt)
        for k, v in enumerate(par2):
            S.add("setpar %d %r" % (k, v))
        S.add("setmin %r" % (nxt["mn"] / q))
        S.add("setcut %r" % (nxt["cut"] / q))
        for pt in nxt["pts"]:
            point(nxt, pt, False, ":reuse")
    # setParam(file) brings the saved parameters back

    def loadfn(o):
        return True if (o and o[0].startswith("ok")) else viol("setParam(file)", "%s" % o)

    def parfn(o):
        got = [float(t) for ln in o if ln.startswith("params") for t in ln.split()[1:]]
        if len(got) != np_ or any(not near(g, p, abs(p), 2e-9) for g, p in zip(got, par)):
            return viol("setParam(file):roundtrip", "parameters %s after SaveParam + setParam(file), saved %s" % (got, par))
        return True
    S.add("loadfile", loadfn)
    S.add("params", parfn)
    # error path: a file with the wrong number of parameters is rejected
    S.add("loadparam %d %s" % (np_ + 1, " ".join("1" for _ in range(np_ + 1))),
          lambda o: True if _exc(o) else viol("setParam(file):size", "a file with %d parameters was accepted" % (np_ + 1)))
    return S


def _spl_r(r, X):
    return (X / float(r["M"])) * ((r["cut8"] / LAT) / r["NI"])


def _spl_script(ctx, r, nxt):
    cls = PFCLASS["cbspl"]
    den = float(r["den"])
    mag = float(max(1, max(abs(x) for x in r["lam"])) + 1)
    emag = float(max(1, max(abs(x) for x in r["ext"])) + 1)
    nl = len(r["lam"])
    S = Script()
    st = {}

    def viol(key, text):
        ctx.violation("%s:%s" % (cls, key), "%s (coefficients %s, dr=%r, min=%r)" % (text, r["lam"], _spl_r(r, r["M"]), _spl_r(r, r["xmin"])), r)
        return False

    def ctor(o):
        if _exc(o) or not o or not o[0].startswith("ok"):
            return viol("constructor", "%s" % o)
        p = o[0].split()
        if int(p[4]) != r["nopt"]:
            return viol("getOptParamSize", "%s optimised coefficients, %d expected" % (p[4], r["nopt"]))
        return True

    def take(name, x, exp, tol_mag, sfx=""):
        def fn(o):
            v = _val(o)
            if v is None:
                return viol("%s:exception%s" % (name.split("(")[0].split("[")[0], sfx), "%s at r=%r" % (o, x))
            if not near(v[0], exp, tol_mag):
                where = "beyond-cut" if x > r["cut8"] / LAT else ("at-cut" if x == r["cut8"] / LAT else "in")
                return viol("%s:%s%s" % (name.split("(")[0].split("[")[0], where, sfx),
                            "%s = %r at r=%r but the spline gives %r" % (name, v[0], x, exp))
            return True
        return fn

    def pf_cmd(lam):
        return "pf cbspl %r %r %d %s" % (_spl_r(r, r["xmin"]), r["cut8"] / LAT, nl, " ".join(repr(float(x)) for x in lam))

    S.add(pf_cmd(r["lam"]), ctor)
    for pt in r["pts"]:
        x = _spl_r(r, pt["X"])
        S.add("F %r" % x, take("CalculateF", x, pt["F"] / den, mag))
        for i in range(r["nopt"]):
            S.add("DF %d %r" % (i, x), take("CalculateDF(%d)" % i, x, pt["DF"][i] / den, 1.0))
        S.add("D2F 0 %d %r" % (r["nopt"] - 1, x), take("CalculateD2F", x, 0.0, 1e-3))
        S.add("D2F %d 0 %r" % (r["nopt"] - 1, x), take("CalculateD2F", x, 0.0, 1e-3))
    for i in range(r["nopt"]):
        S.add("getopt %d" % i, take("getOptParam(%d)" % i, 0.0, float(r["lam"][i + r["nexcl"]]), mag))
        S.add("setopt %d %r" % (i, float(r["lam"][i + r["nexcl"]] + 1)))
        for pt in r["pts"]:
            # F after setOptParam(i, lam+1): the exact finite difference of the linear form
            S.add("F %r" % _spl_r(r, pt["X"]),
                  take("CalculateF[setOptParam(%d)+1]" % i, _spl_r(r, pt["X"]), pt["Fb"][i] / den, mag))
        S.add("setopt %d %r" % (i, float(r["lam"][i + r["nexcl"]])))
    rows_exp = [(_spl_r(r, row["X"]), "exact", row["F"] / den, emag) for row in r["tab"]["rows"]]

    # SavePotTab: is the table what the TLC model of extrapolExclParam + CalculateF says?  If only the core
    # extrapolation differs from the transcription but the table is the function (as it is after the call) on
    # the grid, that is a warning (DESIGN 7.8)
    def tab1(o):
        st["got"] = _rows3(o)
        st["m"] = _table_match(rows_exp, st["got"])
        return True

    def par1(o):
        st["params"] = [float(t) for ln in o if ln.startswith("params") for t in ln.split()[1:]]
        st["after"] = []
        return True

    def after(last):
        def fn(o):
            v = _val(o)
            st["after"].append(v[0] if v else float("nan"))
            if not last or st["m"] is None:
                return True
            self_exp = [(x, "exact", a, emag) for (x, _, _, _), a in zip(rows_exp, st["after"])]
            if _table_match(self_exp, st["got"]) is None:
                ctx.extra["algo_drift_warnings"] = ctx.extra.get("algo_drift_warnings", 0) + 1
                vlib.log("WARNING: CBSPL table equals CalculateF on the grid but the core extrapolation differs from "
                         "the transcription in PotFn.tla (Extrapolated): params %s, model %s" % (st["params"], r["ext"]))
                st["drift"] = True
                return True
            return viol("SavePotTab:%s" % st["m"][0], "SavePotTab: %s" % st["m"][1])
        return fn
    S.add("tab %r" % _spl_r(r, r["tab"]["step"]), tab1)
    S.add("params", par1)
    for n, row in enumerate(r["tab"]["rows"]):
        S.add("F %r" % _spl_r(r, row["X"]), after(n == len(r["tab"]["rows"]) - 1))

    # the same object again: a second SavePotTab writes the same table (the extrapolation is idempotent)
    def tab2(o):
        if st.get("drift"):
            return True
        m = _table_match(rows_exp, _rows3(o))
        return True if m is None else viol("SavePotTab:%s:second-call" % m[0], "second SavePotTab: %s" % m[1])
    S.add("tab %r" % _spl_r(r, r["tab"]["step"]), tab2)

    # SaveParam: knot positions, extrapolated coefficients, flags; then setParam(file) into a NEW object
    def savefn(o):
        if st.get("drift"):
            return True
        got = _rows3(o)
        if got is None or len(got) != nl:
            return viol("SaveParam", "file %s" % got)
        for k, (g, e, f) in enumerate(zip(got, r["ext"], r["flags"])):
            if not near(g[0], _spl_r(r, k * r["M"]), 1.0) or not near(g[1], e, emag, 2e-9):
                return viol("SaveParam", "row %d is %s, expected knot %r coefficient %r" % (k, g, _spl_r(r, k * r["M"]), e))
            if g[2] != f:
                return viol("SaveParam:flag", "row %d has flag '%s', expected '%s'" % (k, g[2], f))
        return True
    S.add("saveparam", savefn)
    S.add(pf_cmd([9] * nl), ctor)
    S.add("loadfile", lambda o: True if (o and o[0].startswith("ok")) else viol("setParam(file)", "%s" % o))

    def parfn(o):
        if st.get("drift"):
            return True
        got = [float(t) for ln in o if ln.startswith("params") for t in ln.split()[1:]]
        if len(got) != nl or any(not near(g, e, emag, 2e-9) for g, e in zip(got, r["reload"])):
            return viol("setParam(file):roundtrip", "coefficients %s after SaveParam + setParam(file), expected %s (last four zero)"
                        % (got, r["reload"]))
        return True
    S.add("params", parfn)
    for pt in r["pts"]:
        x = _spl_r(r, pt["X"])
        S.add("F %r" % x, take("CalculateF[reloaded]", x, pt["Fr"] / den, emag, ":reloaded"))
    # error path, then the object is used again (setParam(vector) + CalculateF of another scenario)
    S.add("loadparam 3 1 2 3", lambda o: True if _exc(o) else viol("setParam(file):size", "a file with 3 coefficients was accepted"))
    other = nxt if nxt is not None else r
    S.add("setvec %d %s" % (nl, " ".join(repr(float(x)) for x in other["lam"])),
          lambda o: True if (o and o[0].startswith("ok")) else viol("setParam(vector):after-failed-load", "%s" % o))
    for pt in other["pts"]:
        x = _spl_r(r, pt["X"])
        S.add("F %r" % x, take("CalculateF[after failed load]", x, pt["F"] / den, mag + 10, ":reuse"))
    return S


def run_potentials(ctx, exe):
    mod = "MCPotQuick" if ctx.quick else "MCPotThorough"
    res = vlib.tlc("derivs", mod, cfg=mod + ".cfg", workers=4, timeout=2400)
    vlib.tlc_must_hold(res, "PotFn: symbolic derivative = closed forms, symmetry, B-spline basis = Cox-de Boor, "
                            "admitted tables are the function on their grid")
    ctx.add_tlc(mod, res)
    vecs = res.records
    if 2 * len(vecs) != res.distinct:
        raise vlib.InfraError("potential vector export incomplete: %d records for %d states" % (len(vecs), res.distinct))
    # partner for the second use of the same object: the next scenario of the same class / lattice / knots
    def cls_of(r):
        return (r["fn"], r.get("Q"), r.get("big"), r.get("NI"), r.get("M"), r.get("xmin"), r.get("cut8"))
    groups = {}
    for i, r in enumerate(vecs):
        groups.setdefault(cls_of(r), []).append(i)
    partner = {}
    for ids in groups.values():
        for n, i in enumerate(ids):
            if len(ids) > 1:
                partner[i] = ids[(n + 1) % len(ids)]
    fns, items, scripts = {}, [], {}
    stats = dict(reuse=0, nondiv=0, decimal=0, long_rows=0, at_cut=0, at_min=0, spl_all_zero=0,
                 zero_c12=0, zero_c6=0, zero_A=0, zero_B=0, zero_r0=0, neg_c12=0, neg_c6=0, neg_A=0, neg_B=0, neg_r0=0)
    for i, r in enumerate(vecs):
        fns[r["fn"]] = fns.get(r["fn"], 0) + 1
        nxt = vecs[partner[i]] if i in partner else None
        if r["fn"] == "cbspl":
            S = _spl_script(ctx, r, nxt)
            stats["spl_all_zero"] += all(x == 0 for x in r["lam"])
        else:
            if r["fn"] == "ljg":
                # parameter points ON the coordinate hyperplanes (a parameter exactly 0) and on both sides
                for k, nm in enumerate(("c12", "c6", "A", "B", "r0")):
                    stats["zero_" + nm] += r["lam"][k] == 0
                    stats["neg_" + nm] += r["lam"][k] < 0
            if r["big"]:
                nxt = None
                stats["long_rows"] = max(stats["long_rows"], r["bigtab"]["n"])
            S = _lj_script(ctx, r, nxt)
            stats["nondiv"] += sum(1 for t in r["tabs"] if len(t["variants"]) == 2)
            stats["decimal"] += r["Q"] == 10
            stats["at_cut"] += sum(1 for pt in r["pts"] if pt["P"] == r["cut"])
            stats["at_min"] += sum(1 for pt in r["pts"] if pt["P"] == r["mn"])
        stats["reuse"] += nxt is not None
        scripts[i] = S
        items.append((i, S.cmds))
    if sorted(fns) != ["cbspl", "lj126", "ljg"]:
        raise vlib.InfraError("vacuous potential export: %s" % fns)
    if (stats["reuse"] < 100 or stats["nondiv"] < 100 or stats["decimal"] < 2 or stats["long_rows"] < 100000
            or stats["at_cut"] < 100 or stats["at_min"] < 100 or stats["spl_all_zero"] < 1
            or min(v for k, v in stats.items() if k.startswith("zero_") or k.startswith("neg_")) < 2):
        raise vlib.InfraError("vacuous potential layers: %s" % stats)
    results, crashes = vlib.run_items(exe, items, env={"VERIF_SCRATCH": vlib.SCRATCH})
    npts = 0
    for i, r in enumerate(vecs):
        ctx.count(len(r["pts"]))
        ctx.traces += 1        # one object stepped through a command sequence (construct, evaluate, setOptParam, SavePotTab, ...)
        npts += len(r["pts"])
        ctx.nontriv(("pot", r["fn"], str(r["lam"]), str(r.get("mn")), str(r.get("xmin")), str(r.get("NI")), str(r.get("Q"))))
        if i in crashes:
            ctx.violation("%s:crash" % PFCLASS[r["fn"]], "driver died: " + crashes[i], r)
            continue
        if len(results[i]) != len(scripts[i].cmds):
            raise vlib.InfraError("driver answered %d of %d commands" % (len(results[i]), len(scripts[i].cmds)))
        scripts[i].run(results[i])
    ctx.extra["potential_scenarios"] = fns
    ctx.extra["potential_points"] = npts
    ctx.extra["potential_layers"] = stats
    for fn in ("ljg", "cbspl"):
        for r in vecs:
            if r["fn"] == fn:
                small = dict(r)
                small["pts"] = r["pts"][:2]
                small.pop("tabs", None)
                ctx.sample({"potential": small}, limit=8)
                break


# ---------------------------------------------------------------------------------------------
# 3. splines
# ---------------------------------------------------------------------------------------------

SPLCLASS = {"lin": "LinSpline", "cubic": "CubicSpline", "akima": "AkimaSpline"}


def _spline_cmds(r):
    xs, ys = r["xs"], r["ys"]
    if r["mode"] == "interp":
        first = "spl %s 0 %d %s %s" % (r["typ"], len(xs), " ".join(repr(float(x)) for x in xs),
                                       " ".join(repr(float(y)) for y in ys))
    else:
        dx = [pt["X"] / 2.0 for pt in r["pts"]]
        dy = [pt["v"][0] / float(pt["v"][1]) for pt in r["pts"]]
        first = "splfit %s 0 %r %r %r %d %s %s" % (r["typ"], float(xs[0]), float(xs[-1]), float(xs[1] - xs[0]), len(dx),
                                                   " ".join(repr(x) for x in dx), " ".join(repr(y) for y in dy))
    return [first] + ["sv %r" % (pt["X"] / 2.0) for pt in r["pts"]]


def _check_spline(ctx, r, out):
    cls = SPLCLASS[r["typ"]]
    line = len(set((r["ys"][i + 1] - r["ys"][i]) * (r["xs"][1] - r["xs"][0]) ==
                   (r["ys"][1] - r["ys"][0]) * (r["xs"][i + 1] - r["xs"][i]) for i in range(len(r["xs"]) - 1))) == 1 \
        and all((r["ys"][i + 1] - r["ys"][i]) * (r["xs"][1] - r["xs"][0]) ==
                (r["ys"][1] - r["ys"][0]) * (r["xs"][i + 1] - r["xs"][i]) for i in range(len(r["xs"]) - 1))
    tag = r["mode"] + (":line" if line else "")
    if _exc(out[0]) or not out[0] or not out[0][0].startswith("ok"):
        ctx.violation("%s:%s:exception" % (cls, r["mode"]), "%s on xs=%s ys=%s" % (out[0], r["xs"], r["ys"]), r)
        return
    mag = float(max(1, max(abs(y) for y in r["ys"])))
    for pt, o in zip(r["pts"], out[1:]):
        v = _val(o)
        x = pt["X"] / 2.0
        if v is None or len(v) != 2:
            ctx.violation("%s:Calculate:%s:exception" % (cls, tag), "%s at x=%r" % (o, x), r)
            return
        ev = pt["v"][0] / float(pt["v"][1])
        if not near(v[0], ev, mag):
            ctx.violation("%s:Calculate:%s" % (cls, tag), "Calculate(%r) = %r, the interpolant is %r (xs=%s ys=%s)"
                          % (x, v[0], ev, r["xs"], r["ys"]), r)
            return
        slopes = [s[0] / float(s[1]) for s in pt["dv"]]
        if not any(near(v[1], s, mag) for s in slopes):
            ctx.violation("%s:CalculateDerivative:%s:%s" % (cls, tag, "knot" if len(slopes) > 1 else "inside"),
                          "CalculateDerivative(%r) = %r, the derivative of the value is %s (xs=%s ys=%s)"
                          % (x, v[1], slopes, r["xs"], r["ys"]), r)
            return


def run_splines(ctx, exe):
    res = vlib.tlc("derivs", "MCSpline", cfg="MCSpline.cfg", workers=2, timeout=900)
    vlib.tlc_must_hold(res, "SplineLin: exact finite differences of the piecewise-linear interpolant")
    ctx.add_tlc("MCSpline", res)
    vecs = res.records
    if 2 * len(vecs) != res.distinct:
        raise vlib.InfraError("spline vector export incomplete")
    items = [(i, _spline_cmds(r)) for i, r in enumerate(vecs)]
    results, crashes = vlib.run_items(exe, items)
    kinds = {}
    for i, r in enumerate(vecs):
        kinds[r["typ"] + ":" + r["mode"]] = kinds.get(r["typ"] + ":" + r["mode"], 0) + 1
        ctx.count(len(r["pts"]))
        ctx.traces += 1
        ctx.nontriv(("spline", r["typ"], r["mode"], str(r["xs"]), str(r["ys"])))
        if i in crashes:
            ctx.violation("%s:crash" % SPLCLASS[r["typ"]], "driver died: " + crashes[i], r)
            continue
        _check_spline(ctx, r, results[i])
    if len(kinds) < 4:
        raise vlib.InfraError("vacuous spline export: %s" % kinds)
    ctx.extra["spline_scenarios"] = kinds


def run(ctx):
    bindir = vlib.ensure_build(["drv_derivs"])
    exe = bindir + "/drv_derivs"
    ctx.rule = ("mode L: every lattice geometry (connection vectors in a cube, one of them canonical under the 48 "
                "lattice symmetries, non-singular) is one vector, placed with a hash-chosen rotation/reflection, "
                "translation, periodic box and per-bead image shift; every (potential form, parameter vector, "
                "min, cut) with all lattice r; every spline data set with all half-lattice x")
    ctx.assumptions += [
        "lattice: coordinates k/8 nm, box entries integers/8; connection vectors are the unique shortest image and "
        "(triclinic) below half the shortest box height, the class for which C02 shows BCShortestConnection exact",
        "the closed forms in Derivs.tla were cross-checked once against 60-digit central differences of the value "
        "function (spec/derivs/crosscheck.py, 7106 configurations, worst deviation 5e-28)",
        "comparison at 1e-9 relative after multiplying by the integer scale factors; singular geometries excluded"]
    if getattr(ctx, "replay", None):
        # re-run exactly one recorded vector (the expectation inside it came from TLC)
        import json
        r = json.load(open(ctx.replay))["replay"]
        if "k" in r:
            cmds, chk = [_geom_cmd(r)], (lambda out: _check_geom(ctx, r, out[0]))
        elif "fn" in r:
            S = _spl_script(ctx, r, None) if r["fn"] == "cbspl" else _lj_script(ctx, r, None)
            cmds, chk = S.cmds, S.run
        else:
            cmds, chk = _spline_cmds(r), (lambda out: _check_spline(ctx, r, out))
        results, crashes = vlib.run_items(exe, [(0, cmds)], env={"VERIF_SCRATCH": vlib.SCRATCH})
        ctx.count()
        if 0 in crashes:
            ctx.violation("replay:crash", crashes[0], r)
        else:
            chk(results[0])
        return
    run_geometry(ctx, exe)
    run_potentials(ctx, exe)
    run_splines(ctx, exe)
    ctx.exhaustive = False
