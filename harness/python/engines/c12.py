"""C12 - tables and splines interpolate, fit and resample faithfully (partial claim).
spec/spline: SplineLattice (exact operators on an integer lattice: interval selection, grid
generation, complete linear spline, straight-line data, Table::Smooth scaled by 4^n, csg_resample
flag rule), SplineRel (relational clauses as integer linear relations between observations of the
real code), families SplineEval / SplineLine / SplinePairs / TableOps (library level, drv_spline)
and Resample (the real csg_resample executable).

Python only converts lattice integers to reals (x = k/16, y = v/4), feeds them to the real code,
converts the observations back to lattice units and compares with the numbers / evaluates the
integer relations that TLC emitted."""
import os
import shutil
import subprocess
from concurrent.futures import ThreadPoolExecutor
import json
import math
import vlib

XD = 16.0     # abscissa lattice: x = k / XD
YD = 4.0      # ordinate lattice: y = v / YD
WORKERS = 4

MANIFEST = dict(
    engine="spline", design_ref="DESIGN.md 5/C12",
    technique="TLA+ lattice spec (exact rational operators + relational clauses as integer linear relations) "
              "model-checked with TLC; every TLC-emitted vector is replayed into LinSpline/CubicSpline/AkimaSpline/"
              "Table (driver drv_spline) and into the real csg_resample executable",
    text="Partial claim. TLC enumerates knot grids (2..6 knots, uniform and non-uniform, multiples of 8 lattice "
         "units) with ordinates in -3..3 and checks on each the design-level theorems (getInterval transcription = "
         "declarative interval, grid count/pinning, linear spline interpolates/continuous/convex, line data "
         "reproduced, Smooth^n fixes ends and lines, csg_resample flag loops = declarative rule). Every state is "
         "exported as a vector with (a) exact expectations: knot values for all spline types and boundaries, the "
         "complete linear spline incl. extrapolation and getInterval, GenerateGrid/GenerateGridSpacing points, "
         "straight-line data under natural boundaries for interpolation and for fits on coarser grids, Smooth^n "
         "exactly (times 4^n) with Save/Load round trip, complete csg_resample output (points, values, flags, "
         "derivative) for --type linear, identity on the input grid for all types; and (b) relations with integer "
         "coefficients between outputs of the real code: knot continuity of value and slope, derivative = "
         "derivative of value inside every interval (exact finite-difference identities for piecewise cubics), "
         "zero end curvature (natural cubic), periodic joins of value/slope/curvature, linearity in the ordinates "
         "(interpolation and fit), a fit reproduces a spline that lies in its space (same and refined grid), and the "
         "residual of a fit of data outside the space is orthogonal to every cardinal spline of the fit grid "
         "(normal equations, a bilinear relation). Mode H (SplineHist): all call histories of depth <= 3 on ONE spline "
         "object (setBC, Interpolate, Fit with set or inherited grid; equal and different N) - after every call the "
         "object equals a fresh object given only the last call, exactly. Derivative-of-value identities also in both "
         "extrapolation regions for all three types; csg_resample identity clause also on long decimal tables with "
         "negative/zero-crossing abscissae and early/late flag transitions, and with 4-column (x y yerr flag) input "
         "tables. Scale family: ordinates x 2^{-60,-40,40}, abscissae x 2^{-20,20,30} (exact in binary): scaled instance = "
         "base instance and all smoothness relations on the scaled instances (guard: some 0 < |f''| < 1e-12). Reflection "
         "symmetry (mirrored data, natural boundaries, all types, Interpolate and Fit). In the call histories the probe "
         "order is part of the history (first point after a call = last point before it, varying order and "
         "derivative/value order). Fits do not depend on the listing order of the samples (descending, scrambled, two "
         "blocks; library and csg_resample --nocut); natural fits succeed and are covariant for abscissae x 2^-20..2^20; "
         "half of the csg_resample vectors carry magnitudes 2^-40..2^40 (ordinates) / 2^-20..2^20 (abscissae).",
    note="NOT covered: least-squares optimality of Fit beyond its first-order condition on small lattice data "
         "sets (normal equations against the cardinal splines of the fit grid, data on the quarter points of 3-5 "
         "knot grids; plus its consequences linearity, smoothness, boundary conditions, reproduction of in-space "
         "functions) - no claim for general/ill-conditioned data, --nocut, fit grids not aligned with the data; "
         "derivative-of-value for curved data beyond the piecewise-polynomial identities inside one interval "
         "(nothing about approximating the derivative of the sampled function); grids with more than 6 knots except "
         "the patterned 40/200-knot family; non-lattice abscissae; splineDerivativeZero; AkimaSpline::Fit (throws by "
         "design); abscissa scale invariance of Fit beyond 2^+-4 and of Interpolate tighter than 2^|m| 1e-13 (conditioning), "
         "Akima homogeneity at |y| ~ 1e-18 (absolute slope tolerance in getSlope). Trusted: TLC, the lattice argument (abscissae dyadic, discrete decisions exact; "
         "grid counts also on a decimal lattice), tolerance 1e-9 relative (2e-9 at the 10-digit file level), the "
         "text driver protocol, Python float conversion.")

BCNAME = {0: "natural", 1: "periodic", 2: "derivzero"}


def fx(k):
    return repr(k / XD)


def fy(v):
    return repr(v / YD)


def _where(r, k):
    if r < k[0]:
        return "below"
    if r > k[-1]:
        return "above"
    if r in k:
        return "knot"
    return "inside"


# ------------------------------------------------------------------------------------------------
# library level: generic evaluator of {data, inst, exact, rel}
# ------------------------------------------------------------------------------------------------
def lib_commands(rec, vec_overload):
    """-> (commands, plan) ; plan tells how to read the observations back"""
    cmds = []
    plan = []          # (what, inst, kind, [points]) per command
    inst = rec["inst"]
    need = {}          # (inst, kind) -> ordered list of points
    ex = rec["exact"]
    for j in range(0, len(ex), 5):
        need.setdefault((ex[j], ex[j + 1]), {})[ex[j + 2]] = None
    for rel in rec["rel"]:
        t = rel[2:]
        for j in range(0, len(t), 4):
            need.setdefault((t[j + 1], t[j + 2]), {})[t[j + 3]] = None
    for rel in rec.get("probe", []):
        t = rel[2:]
        for j in range(0, len(t), 4):
            need.setdefault((t[j + 1], t[j + 2]), {})[t[j + 3]] = None
    for rel in rec.get("bil", []):
        t = rel[2:]
        for j in range(0, len(t), 7):
            need.setdefault((t[j + 1], t[j + 2]), {})[t[j + 3]] = None
            if t[j + 4]:
                need.setdefault((t[j + 4], t[j + 5]), {})[t[j + 6]] = None
    for si, ins in enumerate(inst, start=1):
        slot = "s%d" % si
        # exact power-of-two scales of this instance (family "scale"): x -> 2^xs x, y -> 2^ys y
        sx, sy = 2.0 ** ins.get("xs", 0), 2.0 ** ins.get("ys", 0)

        def fx(k, sx=sx):
            return repr(k / XD * sx)

        def fy(v, sy=sy):
            return repr(v / YD * sy)
        cmds.append("new %s %s %s%d" % (slot, ins["t"], ins["api"], ins["b"]))
        plan.append(("new", si, None, None))
        if "steps" in ins:
            # one object, several calls (mode H): setBC/setBCInt, [getX() = g], Interpolate/Fit per step
            for j, st in enumerate(ins["steps"]):
                if j > 0:
                    cmds.append("bc %s %s%d" % (slot, st["api"], st["b"]))
                    plan.append(("ok", si, None, None))
                else:
                    cmds[-1] = "new %s %s %s%d" % (slot, ins["t"], st["api"], st["b"])
                if st["g"]:
                    cmds.append("setgrid %s %d %s" % (slot, len(st["g"]), " ".join(fx(k) for k in st["g"])))
                    plan.append(("ok", si, None, None))
                cmds.append("%s %s %d %s %s" % (st["op"], slot, len(st["k"]), " ".join(fx(k) for k in st["k"]),
                                                " ".join(fy(v) for v in st["y"])))
                plan.append(("build", si, None, None))
                # probe order is part of the history: evaluate exactly in the order the spec gives; the
                # observations after the LAST call are the ones the relations talk about
                last = j == len(ins["steps"]) - 1
                for grp in st.get("pr", []):
                    kind, pts = grp[0], grp[1:]
                    name = ("calc", "der")[kind] + ("v" if vec_overload else "")
                    cmds.append("%s %s %d %s" % (name, slot, len(pts), " ".join(fx(r) for r in pts)))
                    plan.append(("obs" if last else "ok", si, kind, pts))
                    if last:
                        for r in pts:
                            need.get((si, kind), {}).pop(r, None)
        elif ins["op"] == "interp":
            d = rec["data"][ins["d"] - 1]
            cmds.append("interp %s %d %s %s" % (slot, len(d["k"]), " ".join(fx(k) for k in d["k"]),
                                                " ".join(fy(v) for v in d["y"])))
            plan.append(("build", si, None, None))
        else:
            if "gg" in ins:
                mn, mx, h = ins["gg"]
                cmds.append("grid %s %s %s %s" % (slot, fx(mn), fx(mx), fx(h)))
                plan.append(("grid", si, None, ins["g"]))
            else:
                cmds.append("setgrid %s %d %s" % (slot, len(ins["g"]), " ".join(fx(k) for k in ins["g"])))
                plan.append(("ok", si, None, None))
            if ins["op"] == "fit":
                d = rec["data"][ins["d"] - 1]
                cmds.append("fit %s %d %s %s" % (slot, len(d["k"]), " ".join(fx(k) for k in d["k"]),
                                                 " ".join(fy(v) for v in d["y"])))
            else:
                cmds.append("fitfrom %s s%d %d %s" % (slot, ins["src"], len(ins["p"]),
                                                      " ".join(fx(k) for k in ins["p"])))
            plan.append(("build", si, None, None))
    for (si, kind), pts in need.items():
        pts = list(pts)
        if not pts:
            continue
        name = ("calc", "der", "ivl")[kind]
        if vec_overload and kind < 2:
            name += "v"
        sx = 2.0 ** inst[si - 1].get("xs", 0)
        cmds.append("%s s%d %d %s" % (name, si, len(pts), " ".join(repr(r / XD * sx) for r in pts)))
        plan.append(("obs", si, kind, pts))
    return cmds, plan


def inst_key(rec, si):
    ins = rec["inst"][si - 1]
    return "%s:%s:%s" % (ins["t"], BCNAME[ins["b"]], "interp" if ins["op"] == "interp" else "fit")


def knots_of(rec, si):
    ins = rec["inst"][si - 1]
    if ins["op"] == "interp":
        return rec["data"][ins["d"] - 1]["k"]
    return ins["g"]


def lib_check(ctx, rec, out, plan, exact_abs):
    """compare one replayed vector; returns number of compared observations"""
    fam = rec["fam"]
    obs = {}
    raw = {}
    dead = set()
    for (what, si, kind, arg), lines in zip(plan, out):
        first = lines[0] if lines else "(no output)"
        if first.startswith("exc") or first.startswith("err"):
            if si not in dead:
                ctx.violation("%s:exception" % inst_key(rec, si), "%s: %s threw: %s" % (fam, what, first), rec)
            dead.add(si)
            continue
        if what == "grid":
            p = first.split()
            got = [float(t) for t in p[2:]]
            exp = [k / XD for k in arg]
            if int(p[1]) != len(exp) or len(got) != len(exp):
                ctx.violation("GenerateGrid:count", "%s: GenerateGrid%s gave %s points, expected %d" % (
                    fam, rec["inst"][si - 1]["gg"], p[1], len(exp)), rec)
                dead.add(si)
            elif any(not vlib.close(a, b, 1e-12, 1e-12) for a, b in zip(got, exp)):
                ctx.violation("GenerateGrid:points", "%s: GenerateGrid points %s expected %s" % (fam, got, exp), rec)
        elif what == "obs":
            p = first.split()
            if p[0] != "val" or len(p) != len(arg) + 1:
                raise vlib.InfraError("driver protocol: %s" % first)
            ins = rec["inst"][si - 1]
            sx, sy = 2.0 ** ins.get("xs", 0), 2.0 ** ins.get("ys", 0)
            back = (1.0 / sy, sx / sy, 1.0)[kind]       # observation of a scaled instance -> unscaled units (exact)
            for r, t in zip(arg, p[1:]):
                if (si, kind, r) in obs:
                    continue                      # a point evaluated twice in a history: the FIRST evaluation counts
                obs[(si, kind, r)] = float(t) * back
                raw[(si, kind, r)] = float(t)
    n = 0
    maxy = max([1] + [abs(v) for d in rec["data"] for v in d["y"]])
    ex = rec["exact"]
    for j in range(0, len(ex), 5):
        si, kind, r, num, den = ex[j:j + 5]
        if si in dead:
            continue
        n += 1
        got = obs[(si, kind, r)]
        k = knots_of(rec, si)
        if kind == 2:
            if got != num:
                ctx.violation("getInterval:%s" % _where(r, k), "%s: getInterval(%s) on knots %s = %s, expected %d" % (
                    fam, r / XD, [x / XD for x in k], got, num), rec)
            continue
        exp = (num / den) / YD if kind == 0 else (num / den) * XD / YD
        if not vlib.close(got, exp, 1e-9, exact_abs):
            if fam.startswith("line"):
                clause = "line-data:" + ("value" if kind == 0 else "derivative") + ":" + _where(r, rec["data"][0]["k"])
            elif rec["inst"][si - 1]["t"] == "lin":
                clause = ("value" if kind == 0 else "derivative") + ":" + _where(r, k)
            else:
                clause = "knot-value"
            ctx.violation("%s:%s" % (inst_key(rec, si), clause),
                          "%s: %s at x=%s is %r, expected %r (data x=%s y=%s)" % (
                              fam, "S" if kind == 0 else "S'", r / XD, got, exp,
                              [x / XD for x in rec["data"][0]["k"]], [v / YD for v in rec["data"][0]["y"]]), rec)
    for rel in rec["rel"]:
        clause, si = rel[0], rel[1]
        t = rel[2:]
        insts = set(t[j + 1] for j in range(0, len(t), 4))
        if insts & dead:
            continue
        n += 1
        res = 0.0
        scale = 0.0
        csum = 0
        for j in range(0, len(t), 4):
            cf, s2, kind, r = t[j:j + 4]
            o = obs[(s2, kind, r)]
            o = o * YD if kind == 0 else o * YD / XD          # back to lattice units
            res += cf * o
            scale += abs(cf * o)
            csum += abs(cf)
        tol = 1e-9 * scale + 1e-10 * csum * maxy
        # abscissa-scaled instances: Interpolate's system mixes O(1) boundary rows with O(h) smoothing rows, its
        # condition number grows like 2^|xs| (measured 5e-8 relative at 2^30); ordinate scaling is bit-exact
        mx = max(abs(rec["inst"][s2 - 1].get("xs", 0)) for s2 in insts)
        if mx:
            # a FIT solves a constrained QR in unscaled unknowns (f, f''): error ~ 4^|xs| eps (measured 3e-6 at 2^20)
            # (natural fits only when the abscissae are scaled UP; scaled down they are accurate; periodic fits both ways)
            amp = 1.0
            for s2 in insts:
                i2 = rec["inst"][s2 - 1]
                x2 = i2.get("xs", 0)
                if i2["op"] == "interp":
                    amp = max(amp, 2.0 ** abs(x2))
                elif i2["b"] == 1:
                    amp = max(amp, 4.0 ** abs(x2))
                else:
                    amp = max(amp, 4.0 ** max(x2, 0))
            tol = max(1e-9, amp * 1e-13) * scale + max(1e-10, amp * 1e-14) * csum * maxy
        if clause.startswith("history-independence"):
            tol = 1e-12 * scale + 1e-12          # same arithmetic on the same inputs: exact
        if not (abs(res) <= tol):
            pts = [(t[j], t[j + 1], "S" if t[j + 2] == 0 else "S'", t[j + 3] / XD) for j in range(0, len(t), 4)]
            ctx.violation("%s:%s" % (inst_key(rec, si), clause),
                          "%s: relation %s fails: sum coef*obs = %.6g (scale %.3g) over (coef, inst, obs, x) %s; "
                          "instances %s; data %s" % (
                              fam, clause, res, scale, pts, [inst_key(rec, s) for s in sorted(insts)],
                              [([x / XD for x in d["k"]], [v / YD for v in d["y"]]) for d in rec["data"]][:2]), rec)
    for rel in rec.get("bil", []):
        clause, si = rel[0], rel[1]
        t = rel[2:]
        insts = set(t[j + 1] for j in range(0, len(t), 7)) | set(t[j + 4] for j in range(0, len(t), 7) if t[j + 4])
        if insts & dead:
            continue
        n += 1
        res = scale = 0.0
        for j in range(0, len(t), 7):
            cf, s1, k1, r1, s2, k2, r2 = t[j:j + 7]
            o = obs[(s1, k1, r1)] * (YD if k1 == 0 else YD / XD)
            if s2:
                o *= obs[(s2, k2, r2)] * (YD if k2 == 0 else YD / XD)
            res += cf * o
            scale += abs(cf * o)
        if not (abs(res) <= 1e-9 * scale + 1e-9 * maxy):
            d = rec["data"][rec["inst"][si - 1]["d"] - 1]
            ctx.violation("%s:%s" % (inst_key(rec, si), clause),
                          "%s: %s fails: sum_j (y_j - S(x_j)) B(x_j) = %.6g (scale %.3g) for the fit %s on grid %s of "
                          "data x=%s y=%s against cardinal spline instance %s (%s)" % (
                              fam, clause, res / (YD * YD), scale / (YD * YD), inst_key(rec, si),
                              [x / XD for x in knots_of(rec, si)], [x / XD for x in d["k"]], [v / YD for v in d["y"]],
                              sorted(insts - {si}), [rec["data"][rec["inst"][b - 1]["d"] - 1]["y"] for b in sorted(insts - {si})]), rec)
    for rel in rec.get("probe", []):
        # vacuity guard of the scale family: f'' at a knot of a scaled cubic instance, in the units the code sees
        t = rel[2:]
        si = rel[1]
        if si in dead:
            continue
        ins = rec["inst"][si - 1]
        d_real = (t[7] - t[3]) / XD * 2.0 ** ins.get("xs", 0)
        f2 = sum(t[j] * raw[(t[j + 1], t[j + 2], t[j + 3])] for j in range(0, len(t), 4)) / (2 * d_real)
        if 0 < abs(f2) < 1e-12:
            ctx.extra["tiny_curvature_instances"] = ctx.extra.get("tiny_curvature_instances", 0) + 1
    return n


def run_lib(ctx, exe, recs, label, exact_abs=1e-12):
    items = []
    plans = []
    for i, rec in enumerate(recs):
        cmds, plan = lib_commands(rec, i % 2 == 1)
        items.append((i, cmds))
        plans.append(plan)
    results, crashes = vlib.run_items(exe, items)
    for i, rec in enumerate(recs):
        ctx.count()
        ctx.nontriv((rec["fam"], json.dumps(rec["data"][0]), len(rec["inst"])))
        if i in crashes:
            ctx.violation("driver:crash:%s" % rec["fam"], "driver died on %s: %s" % (label, crashes[i]), rec)
            continue
        ctx.extra["observations_compared"] = ctx.extra.get("observations_compared", 0) + \
            lib_check(ctx, rec, results[i], plans[i], exact_abs)


# ------------------------------------------------------------------------------------------------
# tables: grid + smooth
# ------------------------------------------------------------------------------------------------
def run_tables(ctx, exe, recs):
    """grid vectors are replayed on the dyadic lattice (k/16) and on a decimal one (k/10: steps like 0.1, where the
    quotient (max-min)/step is NOT exact in binary and the code's +1.00000001 guard is what makes the count right)"""
    items = []
    tmp = vlib.scratch_file("c12-table.tab")
    for i, r in enumerate(recs):
        if r["fam"] == "grid":
            cmds = []
            for xd in (XD, 10.0):
                a = "%r %r %r" % (r["mn"] / xd, r["mx"] / xd, r["h"] / xd)
                cmds += ["new g lin e0", "grid g " + a, "tgrid " + a]
            items.append((i, cmds))
        else:
            n = len(r["y"])
            xs_, ys_ = " ".join(repr(0.5 * j) for j in range(n)), " ".join(repr(v * 2.0 ** r["ys"]) for v in r["y"])
            first = ("tnewe %d %s %s %s %s" % (n, xs_, ys_, " ".join(repr(v / 4.0) for v in r["e"]), "".join(r["f"]))
                     if r["e"] else "tnew %d %s %s %s" % (n, xs_, ys_, "".join(r["f"])))
            items.append((i, [first,
                              "tsmooth %d" % r["n"], "tdump", "tsave " + tmp, "tload " + tmp, "tdump"]))
    results, crashes = vlib.run_items(exe, items)
    for i, r in enumerate(recs):
        ctx.count()
        ctx.nontriv(json.dumps(r, sort_keys=True)[:200])
        if i in crashes:
            ctx.violation("driver:crash:%s" % r["fam"], "driver died: " + crashes[i], r)
            continue
        out = results[i]
        if r["fam"] == "grid":
            for base, xd, lat in ((0, XD, "dyadic"), (3, 10.0, "decimal")):
                for lines, exp, who in ((out[base + 1], [k / xd for k in r["sg"]], "Spline::GenerateGrid"),
                                        (out[base + 2], [p[0] / p[1] / xd for p in r["tg"]], "Table::GenerateGridSpacing")):
                    arg = "(%r, %r, %r)" % (r["mn"] / xd, r["mx"] / xd, r["h"] / xd)
                    p = lines[0].split() if lines else ["?"]
                    if p[0] != "grid":
                        ctx.violation("%s:exception" % who, "%s%s: %s" % (who, arg, lines), r)
                        continue
                    got = [float(t) for t in p[2:]]
                    if int(p[1]) != r["n"] or len(got) != r["n"]:
                        ctx.violation("%s:count:%s" % (who, lat), "%s%s: %s points, expected %d" % (who, arg, p[1], r["n"]), r)
                    elif got[-1] != exp[-1]:
                        ctx.violation("%s:end-point" % who, "%s%s: last point %r, expected exactly %r" % (who, arg, got[-1], exp[-1]), r)
                    elif any(not vlib.close(a, b, 1e-12, 1e-12) for a, b in zip(got, exp)):
                        ctx.violation("%s:points" % who, "%s%s: points %s expected %s" % (who, arg, got, exp), r)
            continue
        bad = [ln for o in out for ln in o if ln.startswith("exc")]
        if bad:
            ctx.violation("Table:smooth:exception", "Smooth/Save/Load threw %s on %s" % (bad, r), r)
            continue
        exp = [s / r["p"] * 2.0 ** r["ys"] for s in r["s"]]     # exact in binary: small integers over 4^n times 2^ys
        for step, lines in (("smooth", out[2]), ("save-load", out[5])):
            p = lines[0].split()
            n = int(p[1])
            xs = [float(t) for t in p[3:3 + n]]
            ys = [float(t) for t in p[4 + n:4 + 2 * n]]
            fl = p[5 + 2 * n] if len(p) > 5 + 2 * n else ""
            # Smooth is exact at every magnitude; a file carries 10 significant digits (relative 1e-9)
            same = (ys == exp) if (step == "smooth" or r["ys"] == 0) else \
                (len(ys) == len(exp) and all(abs(a - b) <= 1e-9 * abs(b) for a, b in zip(ys, exp)))
            if n != len(exp) or not same:
                what = "end-point" if (n == len(exp) and (ys[0] != exp[0] or ys[-1] != exp[-1])) else "value"
                ctx.violation("Table:%s:%s" % (step, what), "Table %s after Smooth(%d) of %s: y = %s, expected %s" % (
                    step, r["n"], r["y"], ys, exp), r)
            col = "4-column" if r["e"] else "3-column"
            if xs != [0.5 * j for j in range(len(exp))]:
                ctx.violation("Table:%s:x" % step, "Table %s: x %s" % (step, xs), r)
            if fl != "".join(r["f"]):
                ctx.violation("Table:%s:flags:%s" % (step, col), "Table %s (%s table): flags %s, expected %s" % (
                    step, col, fl, "".join(r["f"])), r)
            if r["e"]:
                es = [float(t) for t in p[7 + 2 * n:7 + 3 * n]] if len(p) > 6 + 2 * n and p[6 + 2 * n] == "e" else None
                if es != [v / 4.0 for v in r["e"]]:
                    ctx.violation("Table:%s:yerr" % step, "Table %s: error column %s, expected %s" % (
                        step, es, [v / 4.0 for v in r["e"]]), r)


# ------------------------------------------------------------------------------------------------
# executable level: csg_resample
# ------------------------------------------------------------------------------------------------
def read_table(path):
    rows = []
    comments = []
    with open(path) as f:
        for ln in f:
            if ln.startswith("#"):
                comments.append(ln.rstrip("\n"))
                continue
            p = ln.split()
            if len(p) >= 2:
                rows.append((float(p[0]), float(p[1]), p[2] if len(p) > 2 else ""))
    return rows, comments


def resample_one(exe, d, idx, r):
    os.makedirs(d, exist_ok=True)
    xd = float(r.get("xd", XD)) / 2.0 ** r.get("xs", 0)   # abscissa lattice (16 dyadic; 10/20 decimal), times 2^xs
    sy = 2.0 ** r.get("ys", 0)                             # ordinate magnitude

    def gx(k):
        return repr(k / xd)              # shortest decimal text: the same text goes into the file and into --grid
    with open(os.path.join(d, "in.tab"), "w") as f:
        order = r.get("order") or list(range(1, len(r["k"]) + 1))      # listing order of the rows (from the spec)
        for j in [o - 1 for o in order]:
            k, v, fl = r["k"][j], r["y"][j], r["f"][j]
            if r.get("ye"):
                f.write("%s %s %s %s\n" % (gx(k), repr(v / YD * sy), repr((j % 3) / 4.0 * sy), fl))   # x y yerr flag
            else:
                f.write("%s %s %s\n" % (gx(k), repr(v / YD * sy), fl))
    mn, h, mx = r["grid"]
    cmd = [exe, "--in", "in.tab", "--out", "out.tab", "--derivative", "der.tab",
           "--grid", "%s:%s:%s" % (gx(mn), gx(h), gx(mx))]
    if not (r["type"] == "akima" and idx % 2 == 1):
        cmd += ["--type", r["type"]]                        # akima is the default: leave the option out in half of the runs
    if order != sorted(order):
        cmd += ["--nocut"]                                  # the cut of --fitgrid presumes an ascending table
    if r["fit"]:
        cmd += ["--fitgrid", "%s:%s:%s" % tuple(gx(v) for v in r["fit"])]
    if r["per"]:
        cmd += ["--boundaries", "periodic"]
    comment = None
    if idx % 2 == 0:
        comment = "c12 vector %d" % idx
        cmd += ["--comment", comment]
    try:
        p = subprocess.run(cmd, cwd=d, stdout=subprocess.PIPE, stderr=subprocess.STDOUT, text=True, timeout=120)
    except subprocess.TimeoutExpired:
        return dict(rc="timeout", out="", cmd=cmd)
    res = dict(rc=p.returncode, out=p.stdout[-800:], cmd=cmd, comment=comment)
    if p.returncode == 0:
        try:
            res["val"], res["vc"] = read_table(os.path.join(d, "out.tab"))
            res["der"], res["dc"] = read_table(os.path.join(d, "der.tab"))
        except (OSError, ValueError) as e:
            res["rc"] = "unreadable output: %s" % e
    return res


def run_resample(ctx, exe, recs):
    base = vlib.scratch_file("c12-resample")
    shutil.rmtree(base, ignore_errors=True)
    with ThreadPoolExecutor(max_workers=WORKERS) as ex:
        outs = list(ex.map(lambda a: resample_one(exe, os.path.join(base, "w%d" % (a[0] % 64), str(a[0])), a[0], a[1]),
                           list(enumerate(recs))))
    shutil.rmtree(base, ignore_errors=True)
    for i, (r, o) in enumerate(zip(recs, outs)):
        ctx.traces += 1
        ctx.nontriv(("resample", r["fam"], r["type"], tuple(r["k"]), tuple(r["y"]), "".join(r["f"]), tuple(r["grid"])))
        key = "csg_resample:%s:%s%s%s" % (r["fam"], r["type"], ":periodic" if r["per"] else "", ":yerr-input" if r.get("ye") else "")
        rr = dict(r)
        rr["cmd"] = o["cmd"]
        if o["rc"] != 0:
            ctx.violation(key + ":exit", "csg_resample failed (rc=%s): %s ; %s" % (o["rc"], " ".join(o["cmd"]), o["out"]), rr)
            continue
        val, der = o["val"], o["der"]
        n = r["n"]
        if len(val) != n or len(der) != n:
            ctx.violation(key + ":count", "output has %d/%d rows, expected %d for --grid %s" % (
                len(val), len(der), n, o["cmd"][o["cmd"].index("--grid") + 1]), rr)
            continue
        xd = float(r.get("xd", XD)) / 2.0 ** r.get("xs", 0)
        sy = 2.0 ** r.get("ys", 0)
        ascending = not r.get("order") or r["order"] == sorted(r["order"])
        if r.get("xs") or r.get("ys"):
            key += ":scaled"
        if not ascending:
            key += ":unordered-input"
        expx = [k / xd for k in r["x"]]
        if any(not vlib.close(a[0], b, 1e-9, 1e-12) or not vlib.close(d[0], b, 1e-9, 1e-12) for a, d, b in zip(val, der, expx)):
            ctx.violation(key + ":grid", "output points %s, expected %s" % ([a[0] for a in val], expx), rr)
            continue
        if not ascending:
            pass                                   # flags of an unordered table are not defined by the statement
        elif [a[2] for a in val] != r["fl"]:
            where = "on-input-grid" if r["fam"] in ("ident", "identdec") else "transfer"
            ctx.violation(key + ":flags:" + where, "flags %s expected %s (input x=%s..%s flags=%s, %s)" % (
                "".join(a[2] for a in val), "".join(r["fl"]), r["k"][0] / xd, r["k"][-1] / xd, "".join(r["f"]), " ".join(o["cmd"][1:])), rr)
        if ascending and [a[2] for a in der] != r["fl"]:
            ctx.violation(key + ":flags:derivative-file", "derivative flags %s expected %s" % (
                "".join(a[2] for a in der), "".join(r["fl"])), rr)
        if o["comment"] is not None and (not o["vc"] or o["vc"][0] != "# " + o["comment"]):
            ctx.violation(key + ":comment", "comment line %s, expected '# %s'" % (o["vc"][:1], o["comment"]), rr)
        maxy = max([1] + [abs(v) for v in r["y"]])
        for name, got, exp, conv in (("value", val, r["val"], sy / YD), ("derivative", der, r["der"], sy * xd / YD)):
            for row in range(len(exp) // 2):
                e = exp[2 * row] / exp[2 * row + 1] * conv
                # relative to the magnitude of the table (10 significant digits in the files)
                rtol = 2e-9
                if r["fit"] and r["type"] == "cubic" and r.get("xs", 0) > 0:
                    rtol = max(rtol, 4.0 ** r["xs"] * 1e-13)     # conditioning of the constrained QR, see spec/spline/README.md
                if not vlib.close(got[row][1], e, rtol, rtol / 2 * conv * maxy):
                    ctx.violation("%s:%s:%s" % (key, name, _where(r["x"][row], r["k"])),
                                  "%s at x=%s is %r, expected %r (input x=%s y=%s)" % (
                                      name, expx[row], got[row][1], e, [k / xd for k in r["k"]], [v / YD for v in r["y"]]), rr)
                    break
        for rel in r["rel"]:
            clause, t = rel[0], rel[1:]
            res = scale = 0.0
            csum = 0
            for j in range(0, len(t), 3):
                cf, kind, row = t[j:j + 3]
                o2 = val[row - 1][1] * YD / sy if kind == 0 else der[row - 1][1] * YD / xd / sy   # back to lattice units
                res += cf * o2
                scale += abs(cf * o2)
                csum += abs(cf)
            # files carry 10 significant digits: each observation is off by up to 5e-10 relative
            if not (abs(res) <= 2e-9 * scale + 1e-9 * csum * maxy):
                ctx.violation("%s:%s" % (key, clause), "relation %s between output rows fails: %.6g (scale %.3g), rows %s; %s" % (
                    clause, res, scale, [(t[j], "val" if t[j + 1] == 0 else "der", t[j + 2]) for j in range(0, len(t), 3)],
                    " ".join(o["cmd"])), rr)


# ------------------------------------------------------------------------------------------------
def _tlc(ctx, module, what, env=None, timeout=1500):
    res = vlib.tlc("spline", module, cfg=module + ".cfg", workers=WORKERS, timeout=timeout, env=env, heap="4g")
    vlib.tlc_must_hold(res, what)
    name = module + ("" if not env else "[" + ",".join("%s=%s" % kv for kv in sorted(env.items())) + "]")
    ctx.add_tlc(name, res)
    if 2 * len(res.records) != res.distinct:
        raise vlib.InfraError("%s: vector export incomplete: %d records for %d states" % (module, len(res.records), res.distinct))
    return res.records


def run(ctx):
    bindir = vlib.ensure_build(["drv_spline", "csg_resample"])
    exe = bindir + "/drv_spline"
    resample = bindir + "/csg_resample"
    tier = "Quick" if ctx.quick else "Thorough"
    ctx.rule = ("mode L: one vector per TLC state = one data set (knot grid x ordinates) or one csg_resample run; "
                "non-trivial = distinct (family, data set) pairs; every vector carries exact expectations and/or "
                "integer linear relations between observations of the real code")
    ctx.assumptions += [
        "lattice: x = k/16 with knots at multiples of 8 (quarter and eighth points are lattice points), y = v/4; "
        "all abscissae and grid steps dyadic, so interval selection, grid counts and flag comparisons are exact",
        "relations are exact identities for piecewise polynomials of degree <= 3 evaluated inside one interval "
        "((deg+1)-th differences vanish; one-sided difference formulas exact for cubics); tolerance 1e-9 of the sum of "
        "|coef*obs| (2e-9 for files with 10 significant digits)",
        "least-squares optimality only through the normal equations on small lattice data sets; derivative-of-value "
        "only as piecewise-polynomial identity inside one interval (see MANIFEST note for what is NOT covered)"]

    if getattr(ctx, "replay", None):
        rec = json.load(open(ctx.replay))["replay"]
        if "cmd" in rec or "grid" in rec and "type" in rec:
            run_resample(ctx, resample, [rec])
        elif rec.get("fam") in ("grid", "smooth"):
            run_tables(ctx, exe, [rec])
        else:
            run_lib(ctx, exe, [rec], "replay", 1e-10)
        return

    # 1. tables: grid generation and smoothing
    recs = _tlc(ctx, "MCTable" + tier, "TableOps: grid pinning, Smooth^n theorems")
    run_tables(ctx, exe, recs)
    ctx.sample({"table_vector": recs[0]})

    # 2. straight-line data: interpolation and fit on coarser grids
    recs = _tlc(ctx, "MCLine" + tier, "SplineLine: line data lies in every spline space")
    run_lib(ctx, exe, recs, "line", 1e-10)
    ctx.sample({"line_vector": {k: recs[-1][k] for k in ("fam", "data", "inst")}})

    # 3. data sets: exact linear spline, knot values, single-instance relations (sliced: bounded memory)
    nsl = 3 if ctx.quick else 12
    for sl in range(nsl):
        recs = _tlc(ctx, "MCEval" + tier, "SplineEval: interval/linear-spline theorems",
                    env={"C12_SLICE": sl, "C12_NSLICES": nsl})
        run_lib(ctx, exe, recs, "eval")
        if sl == 0 and recs:
            ctx.sample({"eval_vector": {k: recs[len(recs) // 2][k] for k in ("fam", "data", "inst")},
                        "relations": recs[len(recs) // 2]["rel"][:3]})
        del recs

    # 4. several splines on one grid: linearity, fit reproduces in-space functions, periodic fit
    nsl = 2 if ctx.quick else 8
    for sl in range(nsl):
        recs = _tlc(ctx, "MCPairs" + tier, "SplinePairs: linearity of the linear model, nested refinement",
                    env={"C12_SLICE": sl, "C12_NSLICES": nsl})
        run_lib(ctx, exe, recs, "pairs", 1e-10)
        del recs

    if not ctx.extra.get("tiny_curvature_instances"):
        raise vlib.InfraError("scale family is vacuous: no scaled cubic instance with 0 < |f''| < 1e-12")

    # 5. call histories on one object (mode H): history independence
    res = vlib.tlc("spline", "MCHist" + tier, cfg="MCHist" + tier + ".cfg", workers=WORKERS, timeout=1500, heap="4g")
    vlib.tlc_must_hold(res, "SplineHist: abstract state = last call (+ inherited grid)")
    ctx.add_tlc("MCHist" + tier, res)
    hist = res.records
    if not ctx.quick:
        res = vlib.tlc("spline", "MCHistSim", cfg="MCHistSim.cfg", workers=WORKERS, timeout=1500, heap="4g",
                       simulate=400, depth=7, seed=ctx.seed)
        vlib.tlc_must_hold(res, "SplineHist simulation")
        ctx.add_tlc("MCHistSim(simulate)", res)
        hist += res.records
    run_lib(ctx, exe, hist, "history")
    ctx.traces += len(hist)
    if hist:
        ctx.sample({"history_vector": {"type": hist[-1]["inst"][0]["t"],
                                       "calls": [(st["b"], st["op"], st["k"], st["g"]) for st in hist[-1]["inst"][0]["steps"]]}})
    ctx.extra["call_histories"] = len(hist)
    del hist

    # 6. the real csg_resample
    recs = _tlc(ctx, "MCResample" + tier, "Resample: flag loops = declarative rule, grid pinning",
                env={"C12_PICK": ctx.seed})
    run_resample(ctx, resample, recs)
    if recs:
        ctx.sample({"csg_resample_vector": {k: recs[0][k] for k in ("fam", "type", "k", "y", "f", "grid", "n", "fl")}})
    ctx.extra["csg_resample_runs"] = len(recs)
    ctx.exhaustive = False
