"""C10 - every job of a shared job file is executed exactly once and never lost; job file or
backup always complete; a restart pattern re-opens exactly what it names.
spec/jobfile: JobFile.tla (one action per hook point of ProgObserver/WRITE_JOBS, crashes),
TraceJobFile.tla (trace validation), FinalJobFile.tla (end state of free-running executions).
Binding: real ProgObserver<std::vector<Job>> / LOAD_JOBS / WRITE_JOBS / UPDATE_JOBS in worker
processes (harness/drivers/jobfile.cc) under the process coordinator (c10_coord.py)."""
import concurrent.futures as cf
import json
import os
import random
import re
import shutil
import subprocess
import tempfile
import time

import vlib
from engines import c10_coord as cc

MANIFEST = dict(
    engine="jobfile", design_ref="DESIGN.md 5/C10, Appendix A.2",
    technique="TLA+ protocol spec of the shared job file (processes x threads, file lock, load/merge/backup/assign/write "
              "steps, crashes at every hook) model-checked with TLC (safety, action property, liveness under fairness); "
              "conformance: TLC behaviours incl. crash points replayed on real worker processes under a process coordinator, "
              "recorded multi-process executions validated by TLC (trace spec), exhaustive real-code schedule enumeration "
              "compared with TLC's state graph, free-running multi-thread/multi-process executions checked on their end state; "
              "verdict = the spec's property predicates evaluated by TLC on the observed states (ObsJobFile.tla), a mere "
              "conformance failure is reported as SPEC-DRIFT",
    text="TLC explores every interleaving of 2-3 processes (1-2 worker threads each) over job files of up to 3-4 jobs, all "
         "cache sizes/maxjobs limits/restart patterns of the configured sets, with up to 2 process crashes at any hook "
         "point: no job assigned or executed twice, no job lost, results never overwritten, job file or backup always "
         "parseable and holding every recorded result, restart pattern exact, lock section exclusive, termination. The real "
         "ProgObserver/Job code runs in separate processes whose hook events are totally ordered by a coordinator: TLC "
         "schedules are imposed step by step, random schedules (with crashes inside WRITE_JOBS and lock probes observed "
         "through /proc/<pid>/syscall) are recorded and accepted/rejected by TLC, for the smallest configuration every "
         "schedule of the real code is enumerated and the transition graph must equal TLC's, and TLC's counterexample for a "
         "non-excluding (sharable) lock must not be realisable on the real code.",
    note="Trusted: the coordinator and hook placement, the stub calculator (EvalJob) of the driver, LOAD_JOBS as the judge "
         "of 'parseable', the kernel's fcntl lock semantics, TLC. One worker thread per process is fully controlled; a "
         "second thread is controlled at RequestNextJob/EvalJob/ReportJobDone granularity with the thread mutex modelled "
         "by the coordinator. Crash = _exit at a hook (not power loss: no torn sectors, no fsync modelling).")

AV = {"st": "AVAILABLE", "host": 0, "out": 0}
UNL = 99


def R(st, h, o):
    return {"st": st, "host": h, "out": o}


def C(init, cache=1, maxjobs=UNL, rstat=(), rhost=(), fail=()):
    return {"init": list(init), "cache": cache, "maxjobs": maxjobs, "rstat": list(rstat), "rhost": list(rhost), "fail": list(fail)}


OLD3 = [R("COMPLETE", 9, 9), R("FAILED", 9, 9), AV]
OLD4 = [R("COMPLETE", 9, 9), R("FAILED", 8, 8), R("ASSIGNED", 8, 0), AV]
# a FINISHED earlier run: no AVAILABLE job at start-up, only a restart pattern can re-open anything
DONE3 = [R("COMPLETE", 9, 9), R("FAILED", 9, 9), R("ASSIGNED", 8, 0)]
DONE2F = [R("FAILED", 9, 9), R("FAILED", 8, 8)]
DONE_PATTERNS = [dict(rstat=["FAILED"]), dict(rhost=[9]), dict(rhost=[8]), dict(rstat=["FAILED"], rhost=[8]),
                 dict(rhost=[7]), dict()]           # stat, host, host, both, matches nothing, no pattern


def finished_cfg(rnd, extra=0):
    init = rnd.choice([DONE3, DONE3, DONE2F]) + [R("COMPLETE", 9, 9)] * extra
    return C(init, cache=rnd.choice([1, 2]), maxjobs=rnd.choice([UNL, UNL, 1]), **rnd.choice(DONE_PATTERNS))


# restart patterns naming a status that THIS run produces: only the per-run clauses apply across processes
#   kind (a): stat(FAILED) while jobs fail, more startable jobs than the cache;  kind (b): stat(ASSIGNED)
def live_cfg(rnd, kind, n=None):
    n = n or rnd.randint(2, 4)
    if kind == "a":
        init = rnd.choice([[AV] * n, [R("FAILED", 9, 9)] + [AV] * (n - 1)])
        return C(init, cache=rnd.choice([1, 1, 2]), rstat=["FAILED"], fail=sorted({1, rnd.randint(1, n), rnd.randint(1, n)}))
    init = rnd.choice([[R("ASSIGNED", 8, 0)] + [AV] * (n - 1), [R("ASSIGNED", 8, 0), R("ASSIGNED", 9, 0)] + [AV] * (n - 2)])
    return C(init, cache=rnd.choice([1, 1, 2]), rstat=["ASSIGNED"])


def live_kind(cfg):
    if "ASSIGNED" in cfg["rstat"]:
        return "b"
    if "FAILED" in cfg["rstat"] and cfg["fail"]:
        return "a"
    return None


def witnesses(trace, cfg):
    """vacuity guard only: syncs at which the job just before the cursor of the assigning process is one that this very
    process holds and that has a status named by the pattern (the situation in which a cursor that is not moved past the
    last job of a full chunk would re-open it).  An assignment loop ran in a step iff nextjit_ went stale in it."""
    n = {"a": 0, "b": 0}
    prev = None
    for x in trace:
        if x["e"] == "step" and x["k"] == 0 and prev is not None:
            p = x["p"] - 1
            if x["s"]["next"][p] == 0 and prev["next"][p] != 0:
                m_ = prev["meta"][p]       # cursor (1-based); the job before it, or the job it stands on if it was not moved
                for r in prev["mem"][p][max(0, m_ - 2):m_]:
                    if r["host"] == x["p"] and r["st"] in cfg["rstat"]:
                        n["a" if r["st"] == "FAILED" else "b"] += 1
        if x["e"] in ("begin", "step"):
            prev = x["s"]
    return n


def restart_only(cfg):
    """no AVAILABLE job at start-up and a pattern that names at least one job (used for the vacuity guard only)"""
    return (all(r["st"] != "AVAILABLE" for r in cfg["init"]) and
            any(r["st"] in cfg["rstat"] or r["host"] in cfg["rhost"] for r in cfg["init"]))


def random_cfg(rnd, maxn=4):
    k = rnd.random()
    if k < 0.15:
        return finished_cfg(rnd)
    if k < 0.27:
        return live_cfg(rnd, rnd.choice("ab"), n=rnd.randint(2, min(3, maxn)))
    k = (k - 0.27) / 0.73
    if k < 0.55:
        n = rnd.randint(1, maxn)
        return C([AV] * n, cache=rnd.choice([1, 1, 2, 3]), maxjobs=rnd.choice([UNL, UNL, 1, 2]),
                 fail=[j for j in range(1, n + 1) if rnd.random() < 0.2])
    if k < 0.8:
        return C(OLD3, cache=rnd.choice([1, 2]), maxjobs=rnd.choice([UNL, 1]),
                 rstat=rnd.choice([[], ["FAILED"]]), rhost=rnd.choice([[], [9]]))
    return C(OLD4, cache=rnd.choice([1, 2, 3]), maxjobs=rnd.choice([UNL, 2]),
             rstat=rnd.choice([[], ["FAILED"]]), rhost=rnd.choice([[], [8], [9], [8, 9]]))


def canon(s):
    return json.dumps(s, sort_keys=True, separators=(",", ":"))


def norm_proj(s):
    """TLC's Proj record -> the coordinator's state layout (functions over 1..n are already lists)"""
    return {"pc": s["pc"], "phase": s["phase"], "lock": sorted(s["lock"]), "file": s["file"], "backup": s["backup"],
            "mem": s["mem"], "meta": s["meta"], "toProc": s["toProc"], "next": s["next"], "more": s["more"],
            "started": s["started"], "cur": s["cur"], "execLog": [list(x) for x in s["execLog"]], "crashes": s["crashes"]}


class Pool:
    """a few threads, each with its own LOAD_JOBS server, running coordinator jobs side by side"""

    def __init__(self, exe, n):
        self.exe = exe
        self.n = n
        self.base = tempfile.mkdtemp(prefix="c10-runs-", dir=vlib.SCRATCH)
        self.loaders = [cc.Loader(exe) for _ in range(n)]
        self.free = list(range(n))
        self.retries = 0
        self.ex = cf.ThreadPoolExecutor(max_workers=n)

    def map(self, fn, items):
        """fn(loader, base, item) for every item, results in order"""
        def wrap(item):
            i = self.free.pop()
            try:
                try:
                    return fn(self.loaders[i], self.base, item)
                except cc.CoordError as e:
                    # infrastructure trouble (a timeout on an overloaded machine): one fresh attempt, then give up (exit 2)
                    vlib.log("coordinator trouble, retrying once: %s" % str(e)[:1500])
                    self.retries += 1
                    self.loaders[i].close()
                    self.loaders[i] = cc.Loader(self.exe)
                    return fn(self.loaders[i], self.base, item)
            finally:
                self.free.append(i)
        return list(self.ex.map(wrap, items))

    def close(self):
        self.ex.shutdown(wait=True)
        for l in self.loaders:
            l.close()
        shutil.rmtree(self.base, ignore_errors=True)


def snapshot_binaries(bindir):
    """This check starts thousands of worker processes over many minutes while other checks may rebuild the shared
    build tree (a relinked libvotca_tools.so is 'too short' for a moment).  Work on a private copy of the driver and
    the library, taken under the build lock.  (The driver has a RUNPATH, so LD_LIBRARY_PATH takes precedence.)"""
    import fcntl
    import glob
    snap = tempfile.mkdtemp(prefix="c10-bin-", dir=vlib.SCRATCH)
    lockf = open(os.path.join(vlib.ROOT, "build.lock"), "a")
    fcntl.flock(lockf, fcntl.LOCK_EX)
    try:
        shutil.copy2(os.path.join(bindir, "drv_jobfile"), snap)
        for lib in glob.glob(os.path.join(os.path.dirname(bindir), "lib", "libvotca_tools.so*")):
            shutil.copy2(lib, snap)       # follows symlinks: every name becomes a regular file
    finally:
        fcntl.flock(lockf, fcntl.LOCK_UN)
        lockf.close()
    os.environ["LD_LIBRARY_PATH"] = snap + (":" + os.environ["LD_LIBRARY_PATH"] if os.environ.get("LD_LIBRARY_PATH") else "")
    r = subprocess.run([os.path.join(snap, "drv_jobfile"), "load", "/nonexistent"], stdout=subprocess.PIPE, stderr=subprocess.PIPE, text=True)
    if r.returncode != 0 or '"ok":false' not in r.stdout:
        raise vlib.InfraError("snapshot of drv_jobfile does not run: %s %s" % (r.stdout[-200:], r.stderr[-300:]))
    return snap


def run(ctx):
    t00 = time.time()
    bindir = vlib.ensure_build(["drv_jobfile"])
    snap = snapshot_binaries(bindir)
    exe = snap + "/drv_jobfile"
    quick = ctx.quick
    rnd = random.Random(ctx.seed)
    ctx.rule = ("configurations (processes, threads, job list, cache, maxjobs, restart pattern, failing jobs) x schedules "
                "(x crash points); every multi-process schedule is non-trivial; distinct = distinct (configuration, schedule) "
                "pairs executed on the real code")
    ctx.assumptions += [
        "one TLA+ action = the real code between two consecutive hook events of one thread",
        "a process granted a lock request is 'blocked' iff /proc shows its thread asleep in fcntl(F_SETLKW); no timing inference",
        "a crash is _exit at a hook point (including after every record inside WRITE_JOBS): the on-disk file is a prefix",
        "restart patterns name only statuses/hosts of an earlier run (FAILED, dead hosts); patterns naming ASSIGNED/COMPLETE "
        "re-open jobs of live processes by design (the code itself warns) and are not checked",
        "job file, backup and lock file live on one local file system with POSIX record locks"]
    if not os.access("/proc/self/syscall", os.R_OK):
        raise vlib.InfraError("/proc/<pid>/syscall is not readable: lock blocking cannot be observed")
    pool = Pool(exe, 6 if quick else 8)
    try:
        if getattr(ctx, "replay", None):
            return replay_artifact(ctx, exe, pool)
        _run(ctx, exe, pool, quick, rnd)
    except cc.CoordError as e:
        raise vlib.InfraError("coordinator: %s" % e)
    finally:
        pool.close()
        shutil.rmtree(snap, ignore_errors=True)
    vlib.log("C10 total %.0fs" % (time.time() - t00))


# ----------------------------------------------------------------------------------------------------
PRED = {"ObsMutexInSync": "MutexInSync", "ObsNoAbort": "NoAbort", "ObsResultsNotOverwritten": "ResultsNotOverwritten",
        "ObsWellFormed": "JobListComplete"}


class Judge:
    """What decides the verdict (DESIGN.md 12.2): the property predicates of JobFile.tla evaluated by TLC on the states
    OBSERVED from the real code (spec/jobfile/ObsJobFile.tla) plus the coordinator's own hard observations.  A conformance
    failure (replay not followable, trace rejected, graph differs) whose observed states satisfy every predicate is
    reported as SPEC-DRIFT, not as a violation."""

    def __init__(self, ctx):
        self.ctx = ctx
        self.drift = []
        self.seq = 0
        self.nobs = 0

    def note_drift(self, kind, meta, text):
        if len(self.drift) < 20:
            self.drift.append({"kind": kind, "cfg": meta.get("cfg"), "np": meta.get("np"), "nt": meta.get("nt"), "what": text[:400]})
        self.ctx.extra["spec_drift"] = self.drift
        vlib.log("SPEC-DRIFT (%s, not a property violation): %s" % (kind, text[:300]))

    def hard(self, res, meta):
        """observations of the coordinator that need no spec: two lock holders, both files unparseable after a crash,
        a dead worker, nobody schedulable; keys are predicate names"""
        for key, text in res["issues"]:
            self.ctx.violation(key, text, dict(meta, schedule=[[x["p"], x["t"], x["k"]] for x in res["trace"] if x["e"] == "step"]))

    @staticmethod
    def states_of(trace, meta):
        return [{"c": meta["cfg"], "np": meta["np"], "nt": meta["nt"], "s": x["s"], "h": x["h"], "meta": meta}
                for x in trace if x["e"] in ("begin", "step")]

    def obs_check(self, records, where):
        """records: [{c, np, nt, s, h, meta}].  True iff every property predicate holds in every observed state."""
        ok = True
        groups = {}
        for r in records:
            groups.setdefault((r["np"], r["nt"]), []).append(r)
        for (np_, nt), recs in sorted(groups.items()):
            for _ in range(8):          # report up to a few distinct violated predicates
                if not recs:
                    break
                self.seq += 1
                path = vlib.scratch_file("jf-obs-%d.ndjson" % self.seq)
                vlib.write_ndjson(path, [{"c": r["c"], "s": r["s"], "h": r["h"]} for r in recs])
                r = vlib.tlc("jobfile", "ObsJobFile", cfg="ObsJobFile_%d_%d.cfg" % (np_, nt), workers=1, env={"TRACE": path},
                             timeout=1800, heap="4g")
                os.unlink(path)
                if r.ok:
                    if r.distinct != len(recs):
                        raise vlib.InfraError("ObsJobFile: %d states for %d records" % (r.distinct, len(recs)))
                    self.ctx.add_tlc("ObsJobFile_%d_%d(%s)" % (np_, nt, where), r)
                    self.nobs += len(recs)
                    break
                ok = False
                m = re.search(r"Invariant (\w+) is violated", r.out)
                inv = m.group(1) if m else "property"
                m = re.search(r"\bidx = (\d+)", r.out)
                bad = recs[int(m.group(1)) - 1] if m else recs[0]
                key = PRED.get(inv, inv)
                s_ = bad["s"]
                self.ctx.violation(key, "%s is false in a state reached by the real code (%s): pcs %s, lock holders %s, job file %s, "
                                   "backup %s, EvalJob log %s" % (key, where, s_["pc"], s_["lock"],
                                                                  canon(s_["file"])[:300], canon(s_["backup"])[:300], s_["execLog"]),
                                   dict(bad["meta"], state=s_, observed=bad["h"]))
                # drop the states of executions of that configuration in which this predicate is false (cheap approximation:
                # all records of the same execution), then look for other predicates / executions
                recs = [x for x in recs if x["meta"] is not bad["meta"]]
        return ok


def validate_traces(ctx, runs, np_, nt, lockmode, label):
    """runs: list of dict(trace=[records], meta=...).  Returns the runs of every chunk TLC does not accept as behaviours
    of the protocol spec, with a description of the first rejected step: [(run, text)]."""
    chunk = 40

    def check(i):
        part = runs[i:i + chunk]
        path = vlib.scratch_file("jf-trace-%s-%d.ndjson" % (label, i))
        recs = [{k: v for k, v in r.items() if k != "h"} for run in part for r in run["trace"]]
        vlib.write_ndjson(path, recs)
        nlines = len(recs)

        def validate():
            r = vlib.tlc("jobfile", "TraceJobFile", cfg="TraceJobFile_%d_%d_%s.cfg" % (np_, nt, lockmode), workers=1,
                         env={"TRACE": path}, timeout=900, heap="3g")
            maxl = None
            for ln in r.out.splitlines():
                if '"maxl"' in ln:
                    nums = [int(x) for x in re.findall(r"-?\d+", ln)]
                    maxl = nums[0]
            return r, maxl
        r, maxl = validate()
        r2 = maxl2 = None
        if r.violation or maxl is None or maxl != nlines + 1:
            r2, maxl2 = validate()       # only a repeated rejection counts
        os.unlink(path)
        return i, part, nlines, r, r2, maxl2
    with cf.ThreadPoolExecutor(max_workers=5) as ex:
        results = list(ex.map(check, range(0, len(runs), chunk)))
    rejected = []
    for i, part, nlines, r, r2, maxl2 in results:
        ctx.add_tlc("TraceJobFile[%s %d..%d]" % (label, i, i + len(part)), r)
        if r2 is not None and (r2.violation or maxl2 != nlines + 1):
            acc, bad = 0, part[-1]
            for run in part:
                acc += len(run["trace"])
                if (maxl2 or 0) <= acc:
                    bad = run
                    off = (maxl2 or 0) - (acc - len(run["trace"])) - 1
                    break
            else:
                off = len(bad["trace"]) - 1
            off = max(0, min(off, len(bad["trace"]) - 1))
            rec = bad["trace"][off]
            at = "?"
            if rec["e"] == "step" and off > 0:
                prev = bad["trace"][off - 1]["s"]
                at = "crash" if rec["k"] == 1 else prev["pc"][rec["p"] - 1][rec["t"]]
            elif rec["e"] == "begin":
                at = "initial-state"
            text = ("%s: the step of thread (%s,%s) parked at '%s' (record %d of an execution with configuration %s) leads to a "
                    "state the protocol spec does not allow" % (r2.violation or "trace rejected", rec.get("p"), rec.get("t"), at, off,
                                                                canon(bad["meta"]["cfg"])[:200]))
            # TLC stops at the first rejected step: nothing after it in this chunk has been judged
            rejected += [(run, text) for run in part]
    return rejected


def _run(ctx, exe, pool, quick, rnd):
    T0 = ctx.t0
    judge = Judge(ctx)
    guard = {"replay": 0, "random": 0, "free": 0}    # executions that start without AVAILABLE jobs but with a matching pattern
    wit = {"a": 0, "b": 0}        # controlled executions with a sync at which the job before the cursor has the pattern's status
    freekind = {"a": 0, "b": 0}   # free-running executions with such a pattern

    # ---- 1. design level: exhaustive TLC, LockMode = "exclusive" (what the code asks for) ----------------------
    if quick:
        tlc_jobs = [("MCQuick", {}), ("MCCrashQuick", {}), ("MCP3Quick", {}), ("MCT2Quick", {}), ("MCP1T2", {})]
    else:
        tlc_jobs = [("MCThorough", {}), ("MCCrashThorough", {}), ("MCP3", {}), ("MCT2", {}), ("MCP1T2", {}),
                    ("MCP3CrashSim", dict(simulate=20000, depth=400, seed=ctx.seed))]

    def one(job):
        name, kw = job
        return name, vlib.tlc("jobfile", "MCJobFile", cfg=name + ".cfg", timeout=3000, heap="12g",
                              workers=8 if name == "MCP3" else 3, **kw)
    # the exhaustive runs take the longest and need no input from the other phases: they run in the background and
    # are collected (and required to hold) at the end
    tlc_ex = cf.ThreadPoolExecutor(max_workers=6)
    tlc_futs = [tlc_ex.submit(one, j) for j in tlc_jobs]

    # ---- 2. the sharable-lock counterexample must exist in the model and must NOT be realisable on the code -----
    res = vlib.tlc("jobfile", "MCJobFile", cfg="MCSharable.cfg", timeout=600, workers=4)
    ctx.add_tlc("MCSharable(expected to fail)", res)
    if res.ok:
        raise vlib.InfraError("spec-internal: the model with a sharable lock shows no violation")
    ctx.extra["sharable_model"] = {"tlc": res.violation}
    res = vlib.tlc("jobfile", "MCJobFile", cfg="MCSharableEmit.cfg", timeout=600, workers=4)
    vlib.tlc_must_hold(res, "export of sharable counterexamples")
    ctx.add_tlc("MCSharableEmit", res)
    cex = sorted(res.records, key=lambda r: (len(r["sched"]), canon(r["sched"])))
    pick = []
    for kind in ("files", "exec"):
        sel = [r for r in cex if r["bad"][kind]]
        pick += [(kind, r) for r in sel[:1]] + [(kind, r) for r in rnd.sample(sel[1:], min(len(sel) - 1, 2 if quick else 10))]
    if len({k for k, _ in pick}) < 2:
        raise vlib.InfraError("spec-internal: sharable counterexamples for both properties expected")

    def replay_cex(loader, base, item):
        kind, r = item
        return cc.run_script(exe, loader, r["c"], 2, 1, r["sched"], lockmode="sharable", base=base)
    outs = pool.map(replay_cex, pick)
    demo = []
    for (kind, r), out in zip(pick, outs):
        ctx.traces += 1
        ctx.nontriv(("cex", kind, canon(r["sched"])))
        fin = out["final"]
        real_bad = {"files": not fin["file"]["ok"] and not fin["backup"]["ok"],
                    "exec": any(sum(1 for e in fin["execLog"] if e[1] == j) > 1 for j in range(1, len(r["c"]["init"]) + 1))}
        demo.append({"kind": kind, "len": len(r["sched"]), "outcome": out["outcome"][:60], "reproduced": real_bad[kind]})
        if out["outcome"].startswith("blocked") and not out["overlap"]:
            continue             # the real lock excludes the second process: the counterexample is not realisable
        # the schedule went on: the property predicates on the observed states decide (with two writers inside the section
        # the real files can be even worse than the model's: a shorter list written over a longer one leaves trailing garbage)
        meta = {"cfg": r["c"], "np": 2, "nt": 1, "schedule": r["sched"], "lockmode": "sharable",
                "origin": "TLC counterexample (%s) for a non-excluding (sharable) file lock imposed on the real code" % kind}
        judge.hard(out, meta)
        if judge.obs_check(Judge.states_of(out["trace"], meta), "replay of TLC's sharable-lock counterexample"):
            judge.note_drift("sharable-counterexample", meta, "the schedule neither blocks nor breaks a predicate: %s" % out["outcome"])
    ctx.extra["sharable_demo"] = demo
    ctx.sample({"sharable_counterexample": {"cfg": pick[0][1]["c"], "sched": pick[0][1]["sched"], "on_real_code": outs[0]["outcome"]}})
    vlib.log("phase 2 (sharable counterexample on the real code) done %.0fs" % (time.time() - T0))

    # ---- 3. replay of TLC behaviours (incl. crashes) with an exclusive lock --------------------------------------
    sims = []
    if quick:
        plan = [("MCEmitCrash", 2, 1, {}, 45), ("MCSimQuick", 2, 1, dict(simulate=40, depth=600, seed=ctx.seed), 15),
                ("MCEmitP1T2", 1, 2, {}, 20)]
    else:
        plan = [("MCEmitCrash", 2, 1, {}, 1200), ("MCSim", 2, 1, dict(simulate=600, depth=600, seed=ctx.seed), 400),
                ("MCSimP3", 3, 1, dict(simulate=300, depth=600, seed=ctx.seed), 150),
                ("MCSimT2", 2, 2, dict(simulate=400, depth=600, seed=ctx.seed), 250), ("MCEmitP1T2", 1, 2, {}, 700)]
    for name, np_, nt, kw, lim in plan:
        res = vlib.tlc("jobfile", "MCJobFile", cfg=name + ".cfg", workers=4, timeout=1500, **kw)
        vlib.tlc_must_hold(res, "JobFile behaviours " + name)
        ctx.add_tlc(name + ("(simulate)" if kw else "(terminal states)"), res)
        seen = {}
        for r in res.records:
            seen[(canon(r["c"]), canon(r["sched"]))] = r
        lst = sorted(seen.values(), key=lambda r: (canon(r["c"]), canon(r["sched"])))
        if len(lst) > lim:
            keep = [r for r in lst if restart_only(r["c"]) and not any(x[2] for x in r["sched"])]
            lst = rnd.sample(keep, min(len(keep), 6)) + rnd.sample(lst, lim)     # never without finished-run restarts
        for r in lst:
            sims.append((np_, nt, r))

    def replay_sim(loader, base, item):
        np_, nt, r = item
        rr = random.Random(hash(canon(r["sched"])) & 0xffffff)
        return cc.run_script(exe, loader, r["c"], np_, nt, r["sched"], base=base, crash_rec=rr.choice([None, 0, 1, 2]))
    outs = pool.map(replay_sim, sims)
    by = {}
    for (np_, nt, r), out in zip(sims, outs):
        ctx.traces += 1
        guard["replay"] += restart_only(r["c"])
        if live_kind(r["c"]):
            for k_, v_ in witnesses(out["trace"], r["c"]).items():
                wit[k_] += v_ > 0
        ctx.nontriv(("replay", np_, nt, canon(r["c"]), canon(r["sched"])))
        meta = {"cfg": r["c"], "np": np_, "nt": nt, "schedule": r["sched"], "lockmode": "exclusive"}
        judge.hard(out, meta)
        why = None
        if out["outcome"] != "ok":
            why = "the real code does not follow a TLC behaviour: %s" % out["outcome"]
        elif canon(out["final"]) != canon(norm_proj(r["fin"])):
            why = "after replaying a TLC behaviour the real state %s differs from the spec's %s" % (
                canon(out["final"])[:300], canon(norm_proj(r["fin"]))[:300])
        if why:
            if judge.obs_check(Judge.states_of(out["trace"], meta), "replay of a TLC behaviour"):
                judge.note_drift("replay", meta, why)
            continue
        by.setdefault((np_, nt), []).append({"trace": out["trace"], "meta": meta})
    for (np_, nt), runs in sorted(by.items()):
        rej = validate_traces(ctx, runs, np_, nt, "exclusive", "replay%d%d" % (np_, nt))
        if rej and judge.obs_check([x for run, _ in rej for x in Judge.states_of(run["trace"], run["meta"])],
                                   "replayed TLC behaviour rejected by the protocol spec"):
            judge.note_drift("trace-rejected", rej[0][0]["meta"], rej[0][1])
    if sims:
        ctx.sample({"tlc_schedule": {"cfg": sims[0][2]["c"], "np": sims[0][0], "sched_len": len(sims[0][2]["sched"]),
                                     "crashes": sum(1 for x in sims[0][2]["sched"] if x[2] == 1)}})
    vlib.log("phase 3 (replay of %d TLC behaviours) done %.0fs" % (len(sims), time.time() - T0))

    # ---- 4. random controlled runs (crashes inside WRITE_JOBS, lock probes) validated by TLC ------------------------
    nrand = 70 if quick else 1500
    items = []
    for i in range(nrand):
        shape = rnd.choice([(2, 1), (2, 1), (2, 1), (3, 1), (2, 2)])
        maxcr = rnd.choice([0, 0, 1, 2])
        cfg = random_cfg(rnd, 3 if shape != (2, 1) else 4)
        policy = None
        if i < 6:       # always some crash-free restarts of a finished run: stat, host, host, both
            cfg = C(rnd.choice([DONE3, DONE2F]) if i % 4 == 0 else DONE3, cache=rnd.choice([1, 2]), **DONE_PATTERNS[i % 4])
            maxcr = 0
        elif i < 8:     # kind (a): the last job of a full chunk fails and is reported before the same process syncs again
            shape, cfg, maxcr, policy = (2, 1), C([AV] * 3, cache=1 + i % 2, rstat=["FAILED"], fail=[1, 2]), 0, "eager"
        elif i < 10:    # kind (b): a worker still runs the last job of a full chunk when the other worker syncs
            shape, cfg, maxcr, policy = (1 + i % 2, 2), C([R("ASSIGNED", 8, 0), AV, AV], cache=1, rstat=["ASSIGNED"]), 0, "lazy"
        items.append((shape[0], shape[1], cfg, rnd.randrange(1 << 30), maxcr, policy))

    def rand_run(loader, base, item):
        np_, nt, cfg, seed, maxcr, policy = item
        return cc.run_random(exe, loader, cfg, np_, nt, random.Random(seed), maxcrashes=maxcr, pcrash=0.04, pprobe=0.5, base=base,
                             policy=policy)
    outs = pool.map(rand_run, items)
    by = {}
    ncrash = nprobe = 0
    for (np_, nt, cfg, seed, maxcr, policy), out in zip(items, outs):
        ctx.traces += 1
        guard["random"] += restart_only(cfg) and out["final"]["crashes"] == 0
        if live_kind(cfg):
            for k_, v_ in witnesses(out["trace"], cfg).items():
                wit[k_] += v_ > 0
        sched = [[x["p"], x["t"], x["k"]] for x in out["trace"] if x["e"] == "step"]
        ctx.nontriv(("random", np_, nt, canon(cfg), canon(sched)))
        ncrash += sum(1 for x in sched if x[2] == 1)
        nprobe += out["blocked"]
        meta = {"cfg": cfg, "np": np_, "nt": nt, "seed": seed, "lockmode": "exclusive", "schedule": sched}
        judge.hard(out, meta)
        fin = out["final"]
        if fin["crashes"] == 0 and any("aborted" in pcs for pcs in fin["pc"]):
            ctx.violation("NoAbort", "a process gave up on an unparseable job file although nobody crashed", meta)
        by.setdefault((np_, nt), []).append({"trace": out["trace"], "meta": meta})
    for (np_, nt), runs in sorted(by.items()):
        rej = validate_traces(ctx, runs, np_, nt, "exclusive", "random%d%d" % (np_, nt))
        if rej and judge.obs_check([x for run, _ in rej for x in Judge.states_of(run["trace"], run["meta"])],
                                   "random schedule rejected by the protocol spec"):
            judge.note_drift("trace-rejected", rej[0][0]["meta"], rej[0][1])
    ctx.extra["random_runs"] = {"runs": nrand, "crashes": ncrash, "lock_requests_observed_blocked_in_fcntl": nprobe}
    ctx.sample({"validated_run": {"cfg": items[0][2], "np": items[0][0], "nt": items[0][1],
                                  "steps": len(outs[0]["trace"]) - 2}})
    vlib.log("phase 4 (%d random controlled runs, %d crashes) done %.0fs" % (nrand, ncrash, time.time() - T0))

    # ---- 5. every schedule of the real code vs TLC's state graph -------------------------------------------------
    gcfg = "MCGraphQuick.cfg" if quick else "MCGraphThorough.cfg"
    res = vlib.tlc("jobfile", "MCJobFile", cfg=gcfg, timeout=1500, workers=4)
    vlib.tlc_must_hold(res, "graph export")
    ctx.add_tlc(gcfg, res)
    spec_edges, cfgs = {}, {}
    for r in res.records:
        k = canon(r["c"])
        cfgs[k] = r["c"]
        spec_edges.setdefault(k, set()).add((canon(norm_proj(r["from"])), canon(norm_proj(r["to"]))))
    for k in sorted(spec_edges):
        g = explore_parallel(exe, pool, cfgs[k], 2, 1)
        ctx.traces += g["runs"]
        ctx.nontriv(("graph", k))
        meta = {"cfg": cfgs[k], "np": 2, "nt": 1, "lockmode": "exclusive", "origin": "exhaustive schedule enumeration of the real code"}
        for key, text in g["issues"]:
            ctx.violation(key, text, meta)
        # exhaustiveness over the real code's schedules decides the property also when code and spec have drifted apart:
        # every state the real code reached goes through the property predicates
        judge.obs_check([{"c": cfgs[k], "np": 2, "nt": 1, "s": o["s"], "h": o["h"], "meta": meta} for o in g["obs"]],
                        "exhaustive schedule enumeration of the real code")
        extra = g["edges"] - spec_edges[k]
        missing = spec_edges[k] - g["edges"]
        if extra:
            fr, to = sorted(extra)[0]
            judge.note_drift("graph-extra-transition", meta, "the real code takes %d transitions the spec does not have, e.g. %s -> %s" % (
                len(extra), fr[:300], to[:300]))
        elif missing:
            fr, to = sorted(missing)[0]
            judge.note_drift("graph-missing-transition", meta, "the real code never takes %d transitions the spec allows, e.g. %s -> %s" % (
                len(missing), fr[:300], to[:300]))
        ctx.extra.setdefault("graphs_compared", []).append({"cfg": cfgs[k], "edges": len(g["edges"]), "states": len(g["states"]),
                                                            "runs": g["runs"]})
    vlib.log("phase 5 (state graph) done %.0fs" % (time.time() - T0))

    # ---- 6. free-running processes (2 threads each, no coordinator): end state judged by TLC ----------------------
    nfree = 40 if quick else 600
    items = []
    for i in range(nfree):
        np_ = rnd.choice([2, 2, 3])
        n = rnd.randint(2, 8)
        cfg = rnd.choice([C([AV] * n, cache=rnd.choice([1, 2, 3]), maxjobs=rnd.choice([UNL, UNL, 2]), fail=[j for j in range(1, n + 1) if rnd.random() < 0.15]),
                          C(OLD4 + [AV] * (n - 2), cache=rnd.choice([1, 2]), rstat=rnd.choice([[], ["FAILED"]]), rhost=rnd.choice([[], [8], [8, 9]])),
                          finished_cfg(rnd, extra=rnd.randint(0, 3))])
        if rnd.random() < 0.15:
            cfg = live_cfg(rnd, rnd.choice("ab"), n=n)
        if i < 4:
            cfg = C(DONE3 + [R("COMPLETE", 9, 9)] * rnd.randint(0, 3), cache=rnd.choice([1, 2]), **DONE_PATTERNS[i % 4])
        elif i < 8:
            cfg = live_cfg(rnd, "ab"[i % 2], n=rnd.randint(3, 6))
        items.append((np_, cfg, rnd.randrange(1 << 30)))

    def free(loader, base, item):
        return free_run(exe, loader, base, *item)
    outs = pool.map(free, items)
    by = {}
    for (np_, cfg, seed), out in zip(items, outs):
        ctx.traces += 1
        guard["free"] += restart_only(cfg)
        if live_kind(cfg):
            freekind[live_kind(cfg)] += 1
        ctx.nontriv(("free", np_, canon(cfg), seed))
        meta = {"cfg": cfg, "np": np_, "nt": 2, "seed": seed, "mode": "free"}
        if out["bad"]:
            ctx.violation(out.get("badkey") or "NoAbort", "free-running processes, nobody crashed: %s" % out["bad"], meta)
            continue
        by.setdefault(np_, []).append((out["rec"], meta))
    for np_, lst in sorted(by.items()):
        path = vlib.scratch_file("jf-final-%d.ndjson" % np_)
        vlib.write_ndjson(path, [x[0] for x in lst])
        r = vlib.tlc("jobfile", "FinalJobFile", cfg="FinalJobFile_%d.cfg" % np_, workers=1, env={"TRACE": path}, timeout=600)
        ctx.add_tlc("FinalJobFile_%d" % np_, r)
        if r.violation:
            m = re.search(r"/\\ i = (\d+)", r.out)
            idx = int(m.group(1)) - 1 if m else 0
            inv = re.search(r"Invariant (\w+)", r.violation)
            ctx.violation(inv.group(1) if inv else "NoLostJob",
                          "end state of a free-running execution violates %s: %s" % (r.violation, canon(lst[idx][0])[:800]),
                          dict(lst[idx][1], record=lst[idx][0]))
        elif r.distinct != len(lst):
            raise vlib.InfraError("FinalJobFile: %d states for %d records" % (r.distinct, len(lst)))
        os.unlink(path)
    ctx.extra["free_runs"] = nfree
    ctx.extra["executions_from_finished_job_file_with_matching_restart_pattern"] = guard
    vlib.log("phase 6 (%d free-running executions) done %.0fs" % (nfree, time.time() - T0))

    for f in tlc_futs:
        name, res = f.result()
        vlib.tlc_must_hold(res, "JobFile (%s): safety + liveness with an exclusive lock" % name)
        ctx.add_tlc(name, res)
    tlc_ex.shutdown()
    vlib.log("phase 1 (TLC exhaustive, exclusive lock) done %.0fs" % (time.time() - T0))
    ctx.extra["infrastructure_retries"] = pool.retries
    ctx.extra["observed_states_judged_by_predicates"] = judge.nobs
    ctx.extra["restart_pattern_names_a_status_of_this_run"] = {"controlled_runs_with_witness_sync": wit, "free_runs": freekind}
    ctx.extra["executions_from_finished_job_file_with_matching_restart_pattern"] = guard
    if not ctx.violations and not ctx.known_hit:      # a vacuity complaint must never hide a verdict
        if min(wit.values()) == 0 or min(freekind.values()) == 0:
            raise vlib.InfraError("vacuity guard: no execution in which the job before the cursor has the restart pattern's status "
                                  "at a sync (stat(FAILED) with failing jobs / stat(ASSIGNED)): %s %s" % (wit, freekind))
        if min(guard.values()) == 0:
            raise vlib.InfraError("vacuity guard: no execution started from a job file without AVAILABLE jobs and with a matching "
                                  "restart pattern in %s" % [k for k, v in guard.items() if v == 0])
    ctx.exhaustive = False


# ----------------------------------------------------------------------------------------------------
def explore_parallel(exe, pool, cfg, np_, nt):
    """exhaustive enumeration of the real code's schedules (see c10_coord.explore), work shared by the pool's threads"""
    import threading
    visited, edges, issues = set(), set(), []
    obs = {}
    lockobj = threading.Lock()

    def see(co):
        r = co.trace[-1]
        with lockobj:
            obs.setdefault(canon([r["s"], r["h"]]), {"s": r["s"], "h": r["h"]})
    work = [[]]
    runs = [0]

    def expand(loader, base, prefix):
        new_work = []
        co = cc.Coordinator(exe, loader, cfg, np_, nt, "exclusive", base=base)
        try:
            cur = canon(co.trace[0]["s"])
            see(co)
            with lockobj:
                fresh = (not prefix) and cur not in visited
                if fresh:
                    visited.add(cur)
            for i, (p, t) in enumerate(prefix):
                co.step(p, t)
                see(co)
                nxt = canon(co.trace[-1]["s"])
                if i == len(prefix) - 1:
                    with lockobj:
                        edges.add((cur, nxt))
                        fresh = nxt not in visited
                        visited.add(nxt)
                cur = nxt
            sched = list(prefix)
            while fresh and not co.all_stopped():
                opts = co.step_options()
                if not opts:
                    with lockobj:
                        issues.append(("protocol:deadlock", "no thread can be scheduled after %s" % sched))
                    break
                for o in opts[1:]:
                    new_work.append(sched + [o])
                p, t = opts[0]
                co.step(p, t)
                see(co)
                sched.append((p, t))
                nxt = canon(co.trace[-1]["s"])
                with lockobj:
                    edges.add((cur, nxt))
                    fresh = nxt not in visited
                    visited.add(nxt)
                cur = nxt
            with lockobj:
                issues.extend(co.issues)
        finally:
            co.close()
        return new_work
    while work:
        batch, work = work[:pool.n * 4], work[pool.n * 4:]
        runs[0] += len(batch)
        if runs[0] > 60000:
            raise vlib.InfraError("explore: too many runs")
        for nw in pool.map(expand, batch):
            work.extend(nw)
    return {"edges": edges, "states": visited, "runs": runs[0], "issues": issues, "obs": list(obs.values())}


def free_run(exe, loader, base, np_, cfg, seed):
    d = tempfile.mkdtemp(prefix="c10-free-", dir=base)
    try:
        jobfile = os.path.join(d, "jobs.xml")
        with open(jobfile, "w") as f:
            f.write("<jobs>\n" + "".join(cc.job_xml(i + 1, r) for i, r in enumerate(cfg["init"])) + "</jobs>\n")
        open(os.path.join(d, "lock"), "w").close()
        env = dict(os.environ)
        env.pop("VERIF_SOCK", None)
        procs = []
        for p in range(1, np_ + 1):
            args = [exe, "worker", "--alias", str(p), "--jobfile", jobfile, "--file", os.path.join(d, "lock"),
                    "--cache", str(cfg["cache"]), "--maxjobs", str(cfg["maxjobs"]), "--threads", "2",
                    "--restart", cc.restart_pattern(cfg), "--fail", ",".join(str(x) for x in cfg["fail"]),
                    "--sleep-us", "400", "--seed", str(seed + p)]
            procs.append(subprocess.Popen(args, env=env, stdout=subprocess.PIPE, stderr=subprocess.PIPE, text=True, cwd=d))
        execlog, started, bad, badkey = [], [], None, None
        for p, pr in enumerate(procs, 1):
            try:
                o, e = pr.communicate(timeout=120)
            except subprocess.TimeoutExpired:
                for q in procs:
                    q.kill()
                raise vlib.InfraError("free-running worker timed out")
            mine = [int(m) for m in re.findall(r"^exec (\d+)$", o, re.M)]
            execlog += [[p, j] for j in mine]
            started.append(len(mine))
            if pr.returncode == 4 and re.search(r"^reexec (\d+)$", o, re.M):
                bad, badkey = "process %d was handed job %s three times in one run" % (p, re.search(r"^reexec (\d+)$", o, re.M).group(1)), \
                    "AtMostOncePerRun"
            elif pr.returncode != 0 or not re.search(r"^finished$", o, re.M):
                ab = re.search(r"^aborted (.*)$", o, re.M)
                bad = bad or "process %d ended with rc=%s (%s)" % (p, pr.returncode, ab.group(1) if ab else e[-200:])
        pid2alias = {pr.pid: p for p, pr in enumerate(procs, 1)}

        def dig(path):
            dd = loader.digest(path)
            if not dd["ok"]:
                return {"ok": False, "jobs": []}
            jobs = []
            for j in dd["jobs"]:
                h = 0
                if j["host"]:
                    name, _, num = j["host"].rpartition(":")
                    h = int(num) if name == cc.OLDHOST else pid2alias.get(int(num), 1000)
                jobs.append({"st": j["st"], "host": h, "out": cc.Coordinator._out(j["out"])})
            if [j["id"] for j in dd["jobs"]] != list(range(1, len(jobs) + 1)):
                return {"ok": False, "jobs": []}            # wrong ids: not a job list
            return {"ok": True, "jobs": jobs}
        rec = {"c": cfg, "file": dig(jobfile), "backup": dig(jobfile + "~"), "execLog": execlog, "started": started}
        return {"bad": bad, "badkey": badkey, "rec": rec}
    finally:
        shutil.rmtree(d, ignore_errors=True)


def replay_artifact(ctx, exe, pool):
    """bin/vcheck C10 --replay FILE: re-run one recorded schedule / seed and show what happens"""
    art = json.load(open(ctx.replay))
    rp = art.get("replay", art)
    loader = pool.loaders[0]
    judge = Judge(ctx)
    if rp.get("mode") == "free":
        out = free_run(exe, loader, pool.base, rp["np"], rp["cfg"], rp["seed"])
        print(json.dumps(out, indent=1))
        if out["bad"]:
            ctx.violation("NoAbort", out["bad"], rp)
        return
    mode = rp.get("lockmode", "exclusive")
    if "schedule" not in rp:
        raise vlib.InfraError("replay artefact has no schedule")
    out = cc.run_script(exe, loader, rp["cfg"], rp["np"], rp["nt"], rp["schedule"], lockmode=mode, base=pool.base)
    for x in out["trace"]:
        if x["e"] == "step":
            s = x["s"]
            print(x["p"], x["t"], "crash" if x["k"] else "step ", s["pc"], "lock", s["lock"], "file", "ok" if s["file"]["ok"] else "PARTIAL",
                  "backup", "ok" if s["backup"]["ok"] else "PARTIAL", "exec", s["execLog"])
    print("outcome:", out["outcome"], "issues:", out["issues"])
    ctx.traces += 1
    meta = {"cfg": rp["cfg"], "np": rp["np"], "nt": rp["nt"], "schedule": rp["schedule"], "lockmode": mode}
    judge.hard(out, meta)
    ok = judge.obs_check(Judge.states_of(out["trace"], meta), "replay of a recorded schedule")
    print("property predicates on the observed states:", "all hold" if ok else "VIOLATED")
    if ok and out["outcome"] == "ok":
        rej = validate_traces(ctx, [{"trace": out["trace"], "meta": meta}], rp["np"], rp["nt"], mode, "replay")
        if rej:
            judge.note_drift("trace-rejected", meta, rej[0][1])
