"""C09 - the iterative eigensolver agrees with dense diagonalisation (partial: DESIGN.md 5/C09).

spec/davidson: Davidson.tla (control skeleton of DavidsonSolver::solve: option handling, residual
outcome nondeterministic, converged / last iteration / extend / restart / exception),
MCDavidson.tla (option domain, vector export), TraceDavidson.tla (trace validation: property
predicates on the driver's independent observations + protocol conformance of the solver's own log).
Driver: harness/drivers/davidson.cc (real davidsonsolver.cc, MatrixFreeOperator, HamiltonianOperator)."""
import collections
import json
import os
import random
import threading

import vlib

MANIFEST = dict(
    engine="davidson", design_ref="DESIGN.md 5/C09",
    technique="TLA+ spec of the convergence/restart/status protocol of DavidsonSolver::solve model-checked with TLC "
              "over the option domain; TLC-exported option vectors run on the real solver (stand-alone davidsonsolver.cc); "
              "the solver's own log + independent dense-solver observations validated by TLC (trace validation)",
    text="TLC checks the skeleton for every option vector of the bounded domain (search-space bounds, restart size, "
         "Success => all roots converged at the final iteration, iter < iter_max, not Success => NoConvergence reported, "
         "termination) and exports the option vectors; the real solver is run on generated matrices for a stratified "
         "sample covering every correction x update x tolerance x search-space-limit combination; its log and, per "
         "returned root, the true residual, normalisation, orthogonality, order and rank against Eigen's dense solvers "
         "are judged by TraceDavidson.tla. The same for TLC-exported histories of 2-3 solves on one solver object "
         "(DavidsonObject.tla: option setters, outcome classes; info() describes the last solve).",
    note="Partial claim. TLA+ contributes the protocol; the numeric predicates are computed by the driver with Eigen's "
         "SelfAdjointEigenSolver/EigenSolver and only consumed by the spec (units of the selected tolerance). "
         "'Success within the limit' and 'lowest roots' are asserted ONLY for the families where the statement promises "
         "them (SYMM: strictly diagonally dominant, iter_max >= 50, tolerance at least 10x above the rounding floor of "
         "the matrix; HAM: BSE form with A diagonally dominant and A+-B positive definite, lowest positive roots); "
         "Davidson started from unit vectors converges to non-lowest roots on block-decoupled matrices by construction, "
         "asserting 'lowest' there would be noise - those cases are only counted. Only failed property predicates "
         "(evaluated by TLC on the final event of each observed run) are violations; a log that is not a behaviour of "
         "the skeleton (other restart/update sizes, iteration structure) is SPEC-DRIFT (warning, exit 0) - DESIGN 12.2. "
         "Known findings: flat-diagonal dominant matrices (no success in 50 iterations, missed root); sparse dominant matrices whose lowest states share their only partners (linearly dependent corrections: exception). Not covered: "
         "matrices > 400, complex/non-BSE non-symmetric input, size_initial_guess < size_update (undefined in the code), "
         "histories of more than 3 solves on one object, multi-threaded products. History layer (DavidsonObject.tla): 2-3 "
         "solves on ONE solver object with setters in between must satisfy the same predicates and info()/num_iterations()/"
         "eigenvalues() must describe the last solve (keys <mode>:reuse:<predicate>).")

SYMM_FAMS = ["dd", "dd", "dd", "ddweak", "ddsparse", "ddflat", "rand", "neardeg", "block", "exactdeg", "intruder"]
HAM_FAMS = ["bse", "bse", "bsehard"]
PROMISED_KEYS = ("promised-success", "promised-lowest")


def _cmd(sid, v, fam, var, seed, mf):
    return ("solve id=%d mode=%s fam=%s N=%d neigen=%d corr=%s upd=%s tol=%s mss=%d itermax=%d sig=%d mf=%d var=%d seed=%d"
            % (sid, v["mode"], fam, v["N"], v["neigen"], v["corr"], v["upd"], v["tol"], v["mss"], v["itermax"],
               v["sig"], mf, var, seed))


def _sample(vectors, per_stratum, rnd, quick):
    """Stratified sample: every (corr, upd, tol, search-space-limit kind) combination gets per_stratum option vectors;
    inside a stratum the remaining axes (N, neigen, iter_max, initial guess, mode) are drawn with ctx.seed."""
    strata = collections.defaultdict(list)
    for v in vectors:
        strata[(v["corr"], v["upd"], v["tol"], v["mk"])].append(v)
    out = []
    for key in sorted(strata):
        vs = strata[key]
        ws = []
        for v in vs:
            w = 1.0 if v["N"] <= 100 else (0.5 if v["N"] <= 200 else 0.25)
            w *= 0.8 if v["itermax"] >= 50 else 0.2
            w *= 0.75 if v["sk"] == "default" else 0.25
            w *= 0.65 if v["mode"] == "SYMM" else 0.35
            ws.append(w)
        out += rnd.choices(vs, weights=ws, k=per_stratum)
    return out


def _run_driver(exe, items, nproc):
    """items: [(id, [cmd])] -> {id: [json events]}, {id: crash text}; run in nproc driver processes."""
    parts = [items[i::nproc] for i in range(nproc)]
    res, crashes, errs = {}, {}, []

    def work(part):
        try:
            r, c = vlib.run_items(exe, part, timeout=3000)
            res.update(r)
            crashes.update(c)
        except Exception as ex:   # noqa
            errs.append(ex)
    ths = [threading.Thread(target=work, args=(p,)) for p in parts if p]
    for t in ths:
        t.start()
    for t in ths:
        t.join()
    if errs:
        raise errs[0]
    events, info = {}, {}
    for iid, percmd in res.items():
        evs = []
        for ln in [x for part in percmd for x in part]:
            if ln.startswith("{"):
                evs.append(json.loads(ln))
            elif ln.startswith("exc "):
                crashes[iid] = "driver error: " + ln
            elif ln.startswith("info "):
                info[iid] = (info.get(iid, "") + " || " + ln) if iid in info else ln
        events[iid] = evs
    return events, crashes, info


def _well_formed(evs):
    return (len(evs) >= 3 and evs[0]["e"] == "begin" and evs[1]["e"] == "opts" and evs[-1]["e"] == "end"
            and all(e["e"] == "iter" for e in evs[2:-1]))


def _validate(ctx, solves, tag):
    """solves: [(id, events)] -> ({id: [failed predicate names]}, set(accepted ids)).  One TLC run per chunk."""
    failed, accepted = {}, set()
    chunk = 150
    for i in range(0, len(solves), chunk):
        part = solves[i:i + chunk]
        recs = []
        for sid, evs in part:
            b = dict(evs[0])
            b["endl"] = len(recs) + len(evs)
            recs.append(b)
            recs += evs[1:]
        path = vlib.scratch_file("dav-%s-%d.ndjson" % (tag, i))
        vlib.write_ndjson(path, recs)
        r = vlib.tlc("davidson", "TraceDavidson", cfg="TraceDavidson.cfg", workers=1, env={"TRACE": path}, timeout=1500)
        if not r.ok:
            raise vlib.InfraError("TraceDavidson did not finish cleanly: %s\n%s" % (r.violation, r.out[-2000:]))
        ctx.add_tlc("TraceDavidson[%s %d..%d]" % (tag, i, i + len(part)), r)
        seen = set()
        for rec in r.records:
            if "acc" in rec:
                accepted.add(rec["acc"])
            elif "id" in rec:
                failed[rec["id"]] = sorted(rec["failed"])
                seen.add(rec["id"])
        missing = [sid for sid, _ in part if sid not in seen]
        if missing:
            raise vlib.InfraError("TraceDavidson printed no verdict for solves %s" % missing[:5])
        os.unlink(path)
    return failed, accepted


MATRIX_IDS = {"ddS": ("dd", 12), "ddL": ("dd", 40), "blk": ("block", 12), "rnd": ("rand", 24), "bse": ("bse", 24)}


def _history_cmds(hid, steps, rnd, next_sid):
    """commands of one history on ONE solver object; mirrors DavidsonObject!Configure"""
    cmds, sids, mode = ["obj id=%d" % hid], [], "SYMM"
    for st in steps:
        cmds += ["set itermax=%d" % st["itermax"], "set tol=%s" % st["tol"]]
        if st["upd"] != "keep":
            cmds += ["set upd=%s" % st["upd"], "set corr=%s" % st["corr"]]
        if st["mode"] != mode:
            cmds.append("set mode=%s" % st["mode"])
            mode = st["mode"]
        if st["mk"] == "set":
            cmds.append("set mss=%d" % (4 * st["neigen"]))
        fam, n = MATRIX_IDS[st["m"]]
        assert n == st["N"]
        sid = next_sid[0]
        next_sid[0] += 1
        sids.append(sid)
        cmds.append("hsolve id=%d fam=%s N=%d neigen=%d sig=0 mf=%d var=%d seed=%d"
                    % (sid, fam, n, st["neigen"], rnd.randrange(2), rnd.randrange(108), rnd.randrange(1, 1 << 30)))
    return cmds, sids


def _split_history(evs):
    """events of one history -> list of solves (each: begin, opts, iter*, end) or None if malformed"""
    solves, cur = [], None
    for e in evs:
        if e["e"] == "begin":
            cur = [e]
        elif cur is not None and e["e"] in ("opts", "iter", "end"):
            cur.append(e)
            if e["e"] == "end":
                solves.append(cur)
                cur = None
    return solves if cur is None and all(_well_formed(x) for x in solves) else None


def _validate_histories(ctx, hists, tag):
    """hists: [(hid, events)] -> ({solve id: [failed predicates]}, set(accepted history ids))"""
    failed, accepted = {}, set()
    chunk = 80
    for i in range(0, len(hists), chunk):
        part = hists[i:i + chunk]
        recs, want = [], []
        for hid, evs in part:
            base = len(recs)
            out = [dict(e) for e in evs]
            out[0]["endl"] = base + len(out)
            for k, e in enumerate(out):
                if e["e"] == "begin":
                    want.append(e["id"])
                    for j in range(k + 1, len(out)):
                        if out[j]["e"] == "end":
                            e["endl"] = base + j + 1
                            break
            recs += out
        path = vlib.scratch_file("dav-%s-%d.ndjson" % (tag, i))
        vlib.write_ndjson(path, recs)
        r = vlib.tlc("davidson", "TraceDavidsonObj", cfg="TraceDavidsonObj.cfg", workers=1, env={"TRACE": path},
                     timeout=1500)
        if not r.ok:
            raise vlib.InfraError("TraceDavidsonObj did not finish cleanly: %s\n%s" % (r.violation, r.out[-2000:]))
        ctx.add_tlc("TraceDavidsonObj[%s %d..%d]" % (tag, i, i + len(part)), r)
        seen = set()
        for rec in r.records:
            if "hacc" in rec:
                accepted.add(rec["hacc"])
            elif "id" in rec:
                failed[rec["id"]] = sorted(rec["failed"])
                seen.add(rec["id"])
        missing = [x for x in want if x not in seen]
        if missing:
            raise vlib.InfraError("TraceDavidsonObj printed no verdict for solves %s" % missing[:5])
        os.unlink(path)
    return failed, accepted


def _histories(ctx, exe, rnd, quick):
    """History layer: several solves on ONE DavidsonSolver object (DavidsonObject.tla)."""
    res = vlib.tlc("davidson", "MCObject", cfg="MCObject.cfg", workers=4, timeout=900)
    vlib.tlc_must_hold(res, "DavidsonObject: info()/results/iterations describe the last solve")
    ctx.add_tlc("MCObject.cfg", res)
    res = vlib.tlc("davidson", "MCObject", cfg="MCObjectUnfixed.cfg", workers=2, timeout=600)
    ctx.add_tlc("MCObjectUnfixed.cfg (ResetOnSolve=FALSE, expected counterexample)", res)
    ctx.extra["stale_status_counterexample"] = (res.violation or "none found (unexpected)") + \
        " - without the reset at entry a solve that throws leaves the Success and the roots of the previous solve"
    hs = []
    for cfg in ("MCObjectVec2.cfg", "MCObjectVec3.cfg"):
        res = vlib.tlc("davidson", "MCObject", cfg=cfg, workers=4, timeout=900)
        vlib.tlc_must_hold(res, "history export")
        ctx.add_tlc(cfg, res)
        uniq = {json.dumps(r["steps"], sort_keys=True): r["steps"] for r in res.records if "steps" in r}
        hs.append([uniq[k] for k in sorted(uniq)])
    ctx.extra["histories_exported"] = sum(len(x) for x in hs)
    n2, n3 = (90, 60) if quick else (900, 600)
    chosen = rnd.sample(hs[0], min(n2, len(hs[0]))) + rnd.sample(hs[1], min(n3, len(hs[1])))
    next_sid = [100001]
    items, meta = [], {}
    for k, steps in enumerate(chosen, 1):
        cmds, sids = _history_cmds(k, steps, rnd, next_sid)
        items.append((k, cmds))
        meta[k] = dict(cmds=cmds, sids=sids, steps=steps)
    events, crashes, info = _run_driver(exe, items, 4)
    hists, solve_of = [], {}
    for k, _ in items:
        sp = _split_history(events.get(k, [])) if k not in crashes else None
        if sp is None or len(sp) != len(meta[k]["sids"]):
            ctx.violation("reuse:crash", "driver died or produced no complete record for history %s (%s)"
                          % (meta[k]["cmds"], crashes.get(k, "incomplete output")), {"history": meta[k]["cmds"]})
            continue
        hists.append((k, events[k]))
        for sv in sp:
            solve_of[sv[0]["id"]] = (k, sv)
    failed, accepted = _validate_histories(ctx, hists, "hist")
    stats = collections.Counter()
    for k, evs in hists:
        ctx.traces += 1
        sp = _split_history(evs)
        cls = tuple((sv[-1]["status"] if not sv[-1]["exc"] else "Exception") for sv in sp)
        stats["->".join(cls)] += 1
        ctx.count(15 * len(sp))
        ctx.nontriv(("history", cls, tuple((st["m"], st["neigen"], st["itermax"], st["tol"], st["mk"]) for st in meta[k]["steps"])))
    bad_h = sorted(set(solve_of[sid][0] for sid, names in failed.items() if names))
    if bad_h:     # report only what fails again when the whole history is run again
        items2 = [(k, meta[k]["cmds"]) for k in bad_h]
        events2, crashes2, info2 = _run_driver(exe, items2, 1)
        again = [(k, events2[k]) for k in bad_h if k in events2 and _split_history(events2[k]) is not None]
        failed2, _ = _validate_histories(ctx, again, "hist-rerun")
        for sid in sorted(failed):
            names = [n for n in failed[sid] if n in failed2.get(sid, [])]
            k, sv = solve_of[sid]
            b, e = sv[0], sv[-1]
            for nm in names:
                key = "%s:reuse:%s%s" % (b["mode"], b["fam"] + ":" if nm in PROMISED_KEYS else "", nm)
                what = ("%s is false for solve %d of the history %s: status=%s exc=%r msg=%s niterapi=%s nret=%s shape=%s "
                        "resq=%s zero=%s" % (nm, meta[k]["sids"].index(sid) + 1, meta[k]["cmds"], e["status"], e["exc"],
                                             e["msg"], e["niterapi"], e["nret"], e["shape"], e["resq"], e["zero"]))
                ctx.violation(key, what, {"history": meta[k]["cmds"], "key": key, "events": events[k]})
    ndrift = 0
    for k, evs in hists:
        if k not in accepted:
            ndrift += 1
            if ndrift <= 5:
                txt = "history %s is not a behaviour of DavidsonObject/Davidson" % meta[k]["cmds"]
                vlib.log("SPEC-DRIFT (not a property violation): " + txt[:400])
                ctx.extra.setdefault("spec_drift", []).append({"history": meta[k]["cmds"], "what": txt[:600]})
    if ndrift:
        ctx.extra["spec_drift_histories"] = ndrift
        keep = os.path.join(vlib.VERIF, "replays", "C09-drift-history.ndjson")
        os.makedirs(os.path.dirname(keep), exist_ok=True)
        vlib.write_ndjson(keep, [evs for k, evs in hists if k not in accepted][0])
    ctx.extra["histories"] = len(hists)
    ctx.extra["history_outcomes"] = dict(sorted(stats.items()))
    if hists:
        ctx.sample({"history": meta[hists[0][0]]["cmds"]})


def _locate(ctx, sid, evs):
    """line of a single-solve trace at which the protocol walk stops (for the SPEC-DRIFT message)"""
    b = dict(evs[0])
    b["endl"] = len(evs)
    path = vlib.scratch_file("dav-one-%d.ndjson" % sid)
    vlib.write_ndjson(path, [b] + evs[1:])
    r = vlib.tlc("davidson", "TraceDavidson", cfg="TraceDavidson.cfg", workers=1, env={"TRACE": path}, timeout=600)
    os.unlink(path)
    maxl = None
    for ln in r.out.splitlines():
        if '"maxl"' in ln:
            nums = [int(x) for x in ln.replace("<<", " ").replace(">>", " ").replace(",", " ").split()
                    if x.lstrip("-").isdigit()]
            maxl = nums[0]
    return maxl


def run(ctx):
    bindir = vlib.ensure_build(["drv_davidson"])
    exe = bindir + "/drv_davidson"
    quick = ctx.quick
    rnd = random.Random(ctx.seed)
    ctx.rule = ("one evaluation = one property predicate of TraceDavidson.tla on one solve of the real DavidsonSolver; "
                "one validated trace = one solve (option vector exported by TLC x generated matrix) whose log was "
                "checked against the skeleton; non-trivial = distinct (mode, family, status, restarted, update, "
                "limit kind, tolerance, correction, matrix-free) class")
    ctx.assumptions += [
        "numeric observations come from Eigen's dense solvers in the driver (double precision); tolerances: residual "
        "<= 1.01*tol + 64*eps*|A|_F, | |v|-1 | <= 1e-9, |v_i.v_j| <= 1e-8, |lambda_i-mu_i| <= 1.01*kappa*sqrt(neigen)*tol",
        "the promise 'success within the iteration limit' is read for iter_max >= 50 (the default) and for tolerances "
        "attainable in double precision (rounding floor 64*eps*|A|_F <= tol/10)",
        "a fresh DavidsonSolver object per solve (as all callers in xtp do); OpenMP/Eigen threads = 1",
        "HAM mode: orthogonality and ascending order are not asserted (eigenvectors of a non-symmetric matrix are not "
        "orthogonal; the code orders by harmonic Ritz value), values are compared as a sorted set"]

    # ---- replay of one recorded solve ------------------------------------------------------------------------
    if getattr(ctx, "replay", None):
        obj = json.load(open(ctx.replay))["replay"]
        if "history" in obj:
            events, crashes, info = _run_driver(exe, [(1, obj["history"])], 1)
            if crashes or _split_history(events.get(1, [])) is None:
                ctx.violation(obj.get("key", "reuse:crash"), "driver crashed: %s" % crashes, obj)
                return
            failed, accepted = _validate_histories(ctx, [(1, events[1])], "replay")
            ctx.traces += 1
            begins = {e["id"]: e for e in events[1] if e["e"] == "begin"}
            for sid, names in failed.items():
                for nm in names:
                    b = begins[sid]
                    key = "%s:reuse:%s%s" % (b["mode"], b["fam"] + ":" if nm in PROMISED_KEYS else "", nm)
                    ctx.violation(key, "replayed history: solve %s fails %s" % (sid, nm), obj)
            return
        items = [(0, [obj["cmd"]])]
        events, crashes, info = _run_driver(exe, items, 1)
        if crashes:
            ctx.violation(obj.get("key", "replay:crash"), "driver crashed: %s" % crashes, obj)
            return
        failed, accepted = _validate(ctx, [(events[0][0]["id"], events[0])], "replay")
        ctx.traces += 1
        for sid, names in failed.items():
            for nm in names:
                ctx.violation(_key(events[0][0], nm), "replayed solve fails %s: %s" % (nm, info.get(0, "")), obj)
        return

    # ---- 1. the skeleton, model-checked ---------------------------------------------------------------------------
    mc = "MCDavidsonQuick.cfg" if quick else "MCDavidsonThorough.cfg"
    res = vlib.tlc("davidson", "MCDavidson", cfg=mc, workers=4, timeout=2400)
    vlib.tlc_must_hold(res, "Davidson skeleton: space bounds, restart rule, status, termination")
    ctx.add_tlc(mc, res)
    # design-level counterexample for the code as found (extension not capped): expected to FAIL
    res = vlib.tlc("davidson", "MCDavidson", cfg="MCDavidsonUnfixed.cfg", workers=2, timeout=600)
    ctx.add_tlc("MCDavidsonUnfixed.cfg (CapExtension=FALSE, expected counterexample)", res)
    ctx.extra["uncapped_extension_counterexample"] = (
        res.violation or "none found (unexpected)") + " - search space exceeds the operator size without the cap"

    # ---- 2. option vectors from TLC ----------------------------------------------------------------------------------
    vc = "MCDavidsonVecQuick.cfg" if quick else "MCDavidsonVecThorough.cfg"
    res = vlib.tlc("davidson", "MCDavidson", cfg=vc, workers=4, timeout=900)
    vlib.tlc_must_hold(res, "option vector export")
    ctx.add_tlc(vc, res)
    vectors = res.records
    if len(vectors) != res.distinct or not vectors:
        raise vlib.InfraError("vector export incomplete: %d of %d" % (len(vectors), res.distinct))
    # not run on the real solver: size_initial_guess = neigen TOGETHER with max_search_space = neigen (the iteration
    # restarts from neigen vectors after every step; it stagnates at the lapack tolerance also on benign matrices -
    # algorithmic, observed on ddtie N=8 neigen=2 DPR min lapack); each of the two settings alone is run
    vectors = [v for v in vectors if not (v["sk"] == "tight" and v["mk"] == "below")]
    chosen = _sample(vectors, 1 if quick else 21, rnd, quick)
    ctx.extra["option_vectors_exported"] = len(vectors)
    ctx.extra["option_strata"] = len(set((v["corr"], v["upd"], v["tol"], v["mk"]) for v in chosen))

    # dedicated batch for the `intruder` family (non-monotone convergence: the lowest root enters the Ritz
    # spectrum late and shifts already converged roots): every correction x update x tolerance, neigen 1-4
    istrata = collections.defaultdict(list)
    for v in vectors:
        if (v["mode"] == "SYMM" and v["neigen"] <= 4 and v["itermax"] >= 50 and v["sk"] == "default"
                and 16 <= v["N"] <= (60 if quick else 200)):
            istrata[(v["corr"], v["upd"], v["tol"])].append(v)
    forced = {}
    for key in sorted(istrata):
        for v in rnd.choices(istrata[key], k=3 if quick else 25):
            forced[len(chosen)] = "intruder"
            chosen.append(v)
    ctx.extra["intruder_solves"] = len(forced)
    # dedicated batches for the SPARSE diagonally dominant families (start states mutually uncoupled: in
    # iteration 0 every Ritz vector is a unit vector and D_jj - lambda = 0 exactly): every correction x update x
    # tolerance, any limit kind / initial guess / neigen
    sstrata = collections.defaultdict(list)
    for v in vectors:
        if v["mode"] == "SYMM" and v["itermax"] >= 50 and 8 <= v["N"] <= (60 if quick else 400):
            sstrata[(v["corr"], v["upd"], v["tol"])].append(v)
    for fam, kq, kt in (("ddsparse", 3, 25), ("ddshared", 1, 10)):
        n0 = len(forced)
        for key in sorted(sstrata):
            ws = [1.0 if v["N"] <= 100 else 0.4 for v in sstrata[key]]
            for v in rnd.choices(sstrata[key], weights=ws, k=kq if quick else kt):
                forced[len(chosen)] = fam
                chosen.append(v)
        ctx.extra[fam + "_solves"] = len(forced) - n0
    # dedicated batch for `ddtie` (exactly equal, coupled diagonal entries; D_ii - lambda = 0 with r_i != 0 when the
    # start space is one vector or the tie sits on its boundary): neigen 1-3, size_initial_guess = neigen ("tight",
    # only defined for size_update <= neigen) or default.  Not run: tight initial guess together with the limit
    # max_search_space = neigen (2-vector restarted iteration, stagnates at the lapack tolerance - algorithmic)
    tstrata = collections.defaultdict(list)
    for v in vectors:
        if (v["mode"] == "SYMM" and v["itermax"] >= 50 and v["neigen"] <= 3 and v["sk"] in ("default", "tight")
                and 8 <= v["N"] <= (60 if quick else 200)):
            tstrata[(v["corr"], v["upd"], v["tol"])].append(v)
    n0 = len(forced)
    for key in sorted(tstrata):
        ws = [3.0 if v["sk"] == "tight" else 1.0 for v in tstrata[key]]
        for v in rnd.choices(tstrata[key], weights=ws, k=3 if quick else 25):
            forced[len(chosen)] = "ddtie"
            chosen.append(v)
    ctx.extra["ddtie_solves"] = len(forced) - n0

    # ---- 3. run the real solver ----------------------------------------------------------------------------------------
    items, meta = [], {}
    for sid, v in enumerate(chosen, 1):
        fam = forced.get(sid - 1) or rnd.choice(SYMM_FAMS if v["mode"] == "SYMM" else HAM_FAMS)
        var, seed, mf = rnd.randrange(108), rnd.randrange(1, 1 << 30), rnd.randrange(2)
        cmd = _cmd(sid, v, fam, var, seed, mf)
        items.append((sid, [cmd]))
        meta[sid] = dict(cmd=cmd, v=v, fam=fam)
    events, crashes, info = _run_driver(exe, items, 4)
    vlib.log("ran %d solves (%.0fs)" % (len(items), __import__("time").time() - ctx.t0))
    solves = []
    for sid, _ in items:
        m = meta[sid]
        if sid in crashes or sid not in events or not _well_formed(events[sid]):
            ctx.violation("%s:crash" % m["v"]["mode"], "driver died or produced no complete record for: %s (%s)"
                          % (m["cmd"], crashes.get(sid, "incomplete output")), {"cmd": m["cmd"]})
            continue
        solves.append((sid, events[sid]))

    # ---- 4. TLC judges every solve ----------------------------------------------------------------------------------------
    failed, accepted = _validate(ctx, solves, "main")
    vlib.log("validated %d solves (%.0fs)" % (len(solves), __import__("time").time() - ctx.t0))
    stats = collections.Counter()
    drift = []
    suspects = []
    worst = {"resq_success": 0, "orthq_success_symm": 0, "normq_success": 0, "lowq_promised": 0}
    for sid, evs in solves:
        b, e = evs[0], evs[-1]
        its = evs[2:-1]
        ctx.traces += 1
        ctx.count(15)
        restarted = any(y["space"] <= x["space"] for x, y in zip(its, its[1:]))
        outcome = e["status"] if not e["exc"] else "Exception"
        v = meta[sid]["v"]
        ctx.nontriv((b["mode"], b["fam"], outcome, restarted, b["upd"], v["mk"], b["tol"], b["corr"], b["mf"]))
        stats["%s:%s:%s" % (b["mode"], b["fam"], outcome)] += 1
        if restarted:
            stats["restarted"] += 1
        if e["exc"]:
            stats["exception:" + e["exc"][:40]] += 1
        if e["status"] == "Success" and e["resq"]:
            worst["resq_success"] = max(worst["resq_success"], max(e["resq"]))
            worst["normq_success"] = max(worst["normq_success"], max(e["normq"]))
            if b["mode"] == "SYMM":
                worst["orthq_success_symm"] = max(worst["orthq_success_symm"], e["orthq"])
            if b["fam"] in ("dd", "ddweak", "ddsparse", "ddshared", "ddtie", "ddflat", "bse"):
                worst["lowq_promised"] = max(worst["lowq_promised"], max(e["lowq"]))
            elif e["denseok"] and max(e["lowq"]) > 1010:
                stats["success_with_non_lowest_roots:%s (admitted, not asserted)" % b["fam"]] += 1
        if failed.get(sid):
            suspects.append((sid, evs))
        if sid not in accepted:
            drift.append((sid, evs))

    # a failed predicate is reported only if the re-run solve fails it again (DESIGN 7.7)
    if suspects:
        items2 = [(sid, [meta[sid]["cmd"]]) for sid, _ in suspects]
        events2, crashes2, info2 = _run_driver(exe, items2, 1)
        again = [(sid, events2[sid]) for sid, _ in suspects if sid in events2 and _well_formed(events2[sid])]
        failed2, _ = _validate(ctx, again, "rerun")
        for sid, evs in suspects:
            names = [n for n in failed[sid] if n in failed2.get(sid, failed[sid])]
            b, e = evs[0], evs[-1]
            for nm in names:
                its = evs[2:-1]
                what = ("%s is false for %s: status=%s exc=%r iterations=%d last=%s resq=%s floorq=%s normq=%s orthq=%s "
                        "desc=%s lowq=%s rank=%s zero=%s famok=%s | %s" % (
                            nm, meta[sid]["cmd"], e["status"], e["exc"], len(its), its[-1] if its else None, e["resq"],
                            e["floorq"], e["normq"], e["orthq"], e["desc"], e["lowq"], e["rank"], e["zero"], e["famok"],
                            info.get(sid, "")))
                ctx.violation(_key(b, nm), what, {"cmd": meta[sid]["cmd"], "key": _key(b, nm), "events": evs})

    # protocol drift: the log is not a behaviour of the skeleton, but no property predicate decides on it
    for sid, evs in drift[:10]:
        maxl = _locate(ctx, sid, evs)
        line = evs[maxl - 1] if maxl and 1 <= maxl <= len(evs) else None
        txt = "log of '%s' is not a behaviour of Davidson.tla: stops at event %s of %d: %s" % (
            meta[sid]["cmd"], maxl, len(evs), line)
        vlib.log("SPEC-DRIFT (not a property violation): " + txt[:400])
        ctx.extra.setdefault("spec_drift", []).append({"cmd": meta[sid]["cmd"], "event": maxl, "what": txt[:600]})
    if drift:
        ctx.extra["spec_drift_count"] = len(drift)
        keep = os.path.join(vlib.VERIF, "replays", "C09-drift-trace.ndjson")
        os.makedirs(os.path.dirname(keep), exist_ok=True)
        vlib.write_ndjson(keep, drift[0][1])

    # ---- 5. histories on one solver object ------------------------------------------------------------------------------
    _histories(ctx, exe, rnd, quick)
    vlib.log("histories done (%.0fs)" % (__import__("time").time() - ctx.t0))

    ctx.extra["solves"] = len(solves)
    ctx.extra["outcomes"] = dict(sorted(stats.items()))
    ctx.extra["worst_observed"] = worst
    for sid, evs in solves[:3]:
        ctx.sample({"cmd": meta[sid]["cmd"], "iterations": [[x["i"], x["space"], x["pct"]] for x in evs[2:-1]][:8],
                    "end": {k: evs[-1][k] for k in ("status", "exc", "msg", "resq", "orthq", "lowq", "rank")}})
    ctx.exhaustive = False


def _key(b, pred):
    if pred in PROMISED_KEYS:
        return "%s:%s:%s" % (b["mode"], b["fam"], pred)
    return "%s:%s" % (b["mode"], pred)
