"""C20 - unit conversions and physical constants are consistent and physically right.
spec/units/Units.tla: units as integer exponent vectors over generators; TLC checks the algebra
(Algo = Spec, round trip, transitivity, derived = quotient, declared unit systems coherent) and emits the
complete obligation set; here every obligation is evaluated on numbers obtained from the real library."""
import json
import math
import os
import random

import vlib

MANIFEST = dict(
    engine="units", design_ref="DESIGN.md 5/C20",
    technique="TLA+ spec (units as exponent vectors over generators; declarative SI table vs transcription of "
              "UnitConverter's structure) model-checked with TLC; TLC emits the complete obligation set (one "
              "exponent vector per conversion factor/constant, every round-trip/transitivity/derived/same-quantity "
              "identity), each evaluated on numbers obtained from the real library by a conformance driver",
    text="TLC enumerates all ordered pairs and triples of every tools::UnitConverter enum, every tools::conv "
         "constant, the factors of the LAMMPS dump reader/writer/data reader and the element table; it proves the "
         "algebraic identities on the exponent vectors and discovers which places encode the same quantity. The "
         "driver calls UnitConverter::convert for all pairs, reads the constants, pushes one-atom files through the "
         "real LAMMPS, gro, xyz, pdb and DL_POLY readers/writers (second frame on the same reader, topology and "
         "trajectory entry points, negative values) and queries tools::Elements (all tables); each factor is compared with the CODATA-2018/SI "
         "evaluation of its vector (rel 5e-5 = four significant digits) and each identity with 1. A second, "
         "mode-H spec (ElementsHist) enumerates every history of tools::Elements lookups (hits, misses, boundary "
         "masses) up to depth 3 (thorough: simulated to depth 8); each is replayed on one real object and every "
         "answer must equal that of a fresh object and the spec's answer class (queries leave no trace).",
    note="Trusted: TLC, the generator values embedded in the checker (self-checked through three CODATA relations), "
         "the text driver protocol. Not covered: constants added to constants.h later (the driver lists them by "
         "name), h5md/gromacs binary formats, DL_POLY CONFIG/FIELD, time units of the formats, radii and "
         "polarizability values beyond unit bands, element masses beyond a 2e-3 band, elements the library does "
         "not know (La-Lu, Z>86).")

# ---------------------------------------------------------------------------------------------
# Generator values.  SI-2019 exact: c, h, e, k_B, N_A.  CODATA 2018 (Tiesinga et al., Rev. Mod. Phys. 93,
# 025010 (2021); NIST SP 961): Bohr radius, hartree, atomic mass constant, electron mass, fine-structure
# constant.  cal = thermochemical calorie, 4.184 J exactly (NIST SP 811 App. B.8; the calorie of LAMMPS
# "real" units and of GROMACS).
GEN = {
    "ten": 10.0,
    "two": 2.0,
    "twopi": 2.0 * math.pi,
    "cal": 4184.0 / 1000.0,
    "NA": 6.02214076e23,        # 1/mol        exact
    "e": 1.602176634e-19,       # C            exact
    "kB": 1.380649e-23,         # J/K          exact
    "h": 6.62607015e-34,        # J s          exact
    "c": 299792458.0,           # m/s          exact
    "a0": 5.29177210903e-11,    # m            CODATA 2018
    "Eh": 4.3597447222071e-18,  # J            CODATA 2018
    "amu": 1.66053906660e-27,   # kg           CODATA 2018
    "me": 9.1093837015e-31,     # kg           CODATA 2018
    "alpha": 7.2973525693e-3,   #              CODATA 2018
}
TOL_REF = 5e-5      # "at least four significant digits" (tightest reading: half a unit of the 4th digit of 9.999)
TOL_DRIFT = 1e-6    # two places encoding the same quantity: reported as a warning (see spec/units/README.md)
TOL_ALGEBRA = 1e-12
TOL_MASS = 2e-3


def evalvec(vec):
    v = 1.0
    for g, n in vec.items():
        if n:
            v *= GEN[g] ** n
    return v


def pid(p):
    if p["t"] == "uc":
        return "UnitConverter:%s:%s>%s" % (p["dim"], p["a"], p["b"])
    return "%s:%s" % (p["t"], p["a"])


def termstr(terms):
    return " * ".join("%s^%d" % (pid(t["p"]), t["x"]) for t in terms)


# ---------------------------------------------------------------------------------------------
# other trajectory formats: the checker writes reader inputs / parses writer outputs (text layout only)
def _io_reader_file(fmt, path, L, x, v, f):
    """one bead 'C' of residue RES in FILE units (gro: nm, nm/ps; xyz/pdb: A; dlph: A, A/ps, u A/ps^2)"""
    with open(path, "w") as o:
        if fmt == "gro":
            o.write("verification frame\n    1\n")
            o.write("%5d%-5s%5s%5d%8.3f%8.3f%8.3f%8.4f%8.4f%8.4f\n" % ((1, "RES", "C", 1) + tuple(x) + tuple(v)))
            o.write("%10.5f%10.5f%10.5f\n" % tuple(L))
        elif fmt == "xyz":
            o.write("1\nverification frame\nC %r %r %r\n" % tuple(x))
        elif fmt == "pdb":
            o.write("CRYST1%9.3f%9.3f%9.3f%7.2f%7.2f%7.2f P 1           1\n" % (tuple(L) + (90.0, 90.0, 90.0)))
            o.write("ATOM  %5d %-4s %3s %1s%4d    %8.3f%8.3f%8.3f%6.2f%6.2f          %2s  \n" % (
                (1, " C", "RES", "A", 1) + tuple(x) + (1.0, 0.0, "C")))
            o.write("END\n")
        elif fmt == "dlph":
            o.write("verification frame\n%10d%10d%10d\n" % (2, 2, 1))
            o.write("timestep%10d%10d%10d%10d%12.6f%12.6f\n" % (7, 1, 2, 2, 0.001, 0.007))
            for k in range(3):
                o.write("".join("%20.10f" % (L[k] if j == k else 0.0) for j in range(3)) + "\n")
            o.write("%-8s%10d%12.6f%12.6f\n" % ("C", 1, 12.0, 0.5))
            for vec in (x, v, f):
                o.write("".join("%20.10f" % c for c in vec) + "\n")


def _io_parse_written(fmt, path):
    """numbers as the real writer printed them: dict pos/vel/frc/box -> 3 floats (what the format stores)"""
    ls = open(path).read().splitlines()
    fl = lambda toks: [float(t) for t in toks]
    if fmt == "gro":
        a = ls[2]
        return {"pos": fl([a[20:28], a[28:36], a[36:44]]), "vel": fl([a[44:52], a[52:60], a[60:68]]),
                "box": fl(ls[3].split()[:3])}
    if fmt == "xyz":
        return {"pos": fl(ls[2].split()[1:4])}
    if fmt == "pdb":
        a = [l for l in ls if l.startswith(("ATOM", "HETATM"))][0]
        return {"pos": fl([a[30:38], a[38:46], a[46:54]])}
    if fmt == "dlph":
        return {"box": [fl(ls[3 + k].split())[k] for k in range(3)], "pos": fl(ls[7].split()),
                "vel": fl(ls[8].split()), "frc": fl(ls[9].split())}
    raise ValueError(fmt)


IO_FORMATS = {"gro": "gro", "xyz": "xyz", "pdb": "pdb", "dlph": "dlpoly"}
IO_Q = {"pos": "pos", "vel": "vel", "frc": "force", "box": "box"}


# ---------------------------------------------------------------------------------------------
# mode H: call histories on one tools::Elements object (spec/units/ElementsHist.tla)
TOL_EL = 0.01      # the tolerance LAMMPSDataReader passes to the reverse lookup
PARTIAL_TABLES = ("getVdWChelpG", "getVdWMK", "getPolarizability")   # cover only some elements


def _histories(ctx, exe, violation):
    """TLC enumerates call histories; each is replayed on ONE real Elements object and every step is also put
    to a fresh object.  Verdict: persistent answer = fresh answer (and = the spec's answer class)."""
    runs = [("MCElementsHistQuick", dict())]
    if not ctx.quick:
        runs.append(("MCElementsHistSim", dict(simulate=3000, depth=9, seed=ctx.seed)))
    hists = []
    for cfg, kw in runs:
        res = vlib.tlc("units", "MCElementsHist", cfg=cfg + ".cfg", workers=4, timeout=1200, heap="2g", **kw)
        vlib.tlc_must_hold(res, "ElementsHist: NoTrace, HistoryIndependent, OnlyElements")
        ctx.add_tlc(cfg + ("(simulate)" if kw else ""), res)
        hists += [r["h"] for r in res.records if "h" in r]
    if not ctx.quick:
        # negative control: the spec must SEE the operator[] slip (a miss inserts a default entry)
        res = vlib.tlc("units", "MCElementsHist", cfg="MCElementsHistBug.cfg", workers=2, timeout=600, heap="1g")
        if res.ok:
            raise vlib.InfraError("ElementsHist negative control: InsertOnMiss=TRUE did not violate NoTrace")
        ctx.add_tlc("MCElementsHistBug(negative control, violation expected)", res)
    if not hists:
        raise vlib.InfraError("no call histories exported")
    # distinct histories only (simulation repeats)
    uniq = {}
    for hh in hists:
        uniq[json.dumps(hh, sort_keys=True)] = hh
    hists = list(uniq.values())
    # real masses of the symbolic bases, from a fresh object
    bases = sorted({c["n"] for hh in hists for c in hh if c["m"] in ("getEleShortClosestInMass",
                    "isMassAssociatedWithElement") and c["n"] not in ("zero", "mid")} | {"C", "N"})
    r0, cr0 = vlib.run_items(exe, [("m", ["hnew"] + ["hcall getMass %s" % b for b in bases])])
    if cr0:
        raise vlib.InfraError("driver died on fresh mass queries: %s" % cr0)
    mass = {}
    for b, out in zip(bases, r0["m"][1:]):
        tok = out[0].split()
        if tok[0] != "hres" or not tok[2].startswith("="):
            raise vlib.InfraError("no mass for base %s: %s" % (b, out))
        mass[b] = float(tok[2][1:])

    def cmdline(c):
        if c["m"] in ("getEleShortClosestInMass", "isMassAssociatedWithElement"):
            base = 0.0 if c["n"] == "zero" else (0.5 * (mass["C"] + mass["N"]) if c["n"] == "mid" else mass[c["n"]])
            tol = float(c.get("t", TOL_EL))
            return "hcall %s %r %r" % (c["m"], base + c["k"] * tol / 2.0, tol)
        return "hcall %s %s" % (c["m"], c["n"])

    items = [(i, ["hnew"] + [cmdline(c) for c in hh]) for i, hh in enumerate(hists)]
    results, crashes = vlib.run_items(exe, items)
    for i, hh in enumerate(hists):
        ctx.traces += 1
        if len({(c["m"], c["n"], c["k"], c.get("t")) for c in hh}) > 1:
            ctx.nontriv(("history", json.dumps(hh, sort_keys=True)))
        if i in crashes:
            violation("history:Elements:crash", "driver died replaying %s: %s" % (hh, crashes[i]), {"history": hh})
            continue
        for j, c in enumerate(hh):
            out = results[i][1 + j]
            tok = out[0].split() if out else ["?"]
            if tok[0] != "hres" or len(tok) != 3:
                violation("history:Elements:%s:driver" % c["m"], "step %d of %s: %s" % (j, hh, out), {"history": hh})
                break
            pers, fresh = tok[1], tok[2]
            if pers != fresh:
                violation("history:Elements:%s:vs-fresh" % c["m"],
                          "after %s the call %s answers %s on the used object but %s on a fresh one" % (
                              [cmdline(x)[6:] for x in hh[:j]], cmdline(c)[6:], pers, fresh),
                          {"history": hh, "step": j, "commands": items[i][1]})
                break
            exp = c["exp"]
            if exp == "either" or (exp == "found" and c["m"] in PARTIAL_TABLES):
                continue
            good = {"throw": pers == "!", "true": pers == "=1", "false": pers == "=0",
                    "found": pers.startswith("=") and (c["m"] != "getEleShortClosestInMass" or pers == "=" + c["n"])}
            if not good.get(exp, False):
                violation("history:Elements:%s:vs-spec" % c["m"],
                          "step %d (%s) answers %s, the spec expects %s" % (j, cmdline(c)[6:], pers, exp),
                          {"history": hh, "step": j, "commands": items[i][1]})
                break
    ctx.sample({"history": hists[len(hists) // 2]})
    ctx.extra["element_histories"] = len(hists)
    vlib.log("C20: %d Elements call histories replayed (persistent vs fresh object)" % len(hists))


def run(ctx):
    bindir = vlib.ensure_build(["drv_units"])
    exe = bindir + "/drv_units"
    rng = random.Random(ctx.seed)
    only_key = None
    if getattr(ctx, "replay", None):
        only_key = json.load(open(ctx.replay)).get("key")
        vlib.log("replay: re-evaluating the obligation set, reporting only key", only_key)
    ctx.rule = ("Elements call histories: every sequence of Depth calls over the alphabet of MCElementsHist "
                "(non-trivial = at least two different calls); obligations: "
                "one evaluation per TLC-emitted obligation: value obligations (place, exponent vector) and "
                "identity obligations (round trip, transitivity, derived = quotient, same quantity in two places); "
                "non-trivial = non-zero vector / at least two distinct places")
    ctx.assumptions += [
        "generator values: SI-2019 exact c,h,e,kB,NA; CODATA 2018 a0, Eh, m_u, m_e, alpha; cal = 4.184 J (thermochemical)",
        "threshold: rel 5e-5 against the reference and between places (the property's four significant digits); "
        "place-to-place drift above 1e-6 is recorded as a warning, not a verdict",
        "LAMMPS factors are observed through the real reader/writer on one-atom files; the unit systems are those "
        "the classes declare (LAMMPS 'real') and csg::CsgUnits",
        "element masses: 2e-3 band around IUPAC abridged standard atomic weights, only for elements with stable isotopes"]
    warnings = []
    ctx.extra["warnings"] = warnings

    def violation(key, text, obj):
        if only_key and key != only_key:
            return
        ctx.violation(key, text, obj)

    # ---- 1. TLC: algebra + obligation set -----------------------------------------------------
    cfg = "MCUnitsQuick.cfg" if ctx.quick else "MCUnitsThorough.cfg"
    res = vlib.tlc("units", "MCUnits", cfg=cfg, workers=4, timeout=1500, heap="2g")
    vlib.tlc_must_hold(res, "Units: Algo=Spec, identities, coherent declared systems, element table")
    ctx.add_tlc(cfg[:-4], res)
    recs = res.records
    if len(recs) != res.distinct:
        raise vlib.InfraError("obligation export incomplete: %d of %d" % (len(recs), res.distinct))
    ctx.exhaustive = ctx.quick     # thorough adds simulated (sampled) call histories
    obs = [r for r in recs if r["kind"] not in ("element", "declared")]
    elements = sorted((r for r in recs if r["kind"] == "element"), key=lambda r: r["z"])
    decl = [r for r in recs if r["kind"] == "declared"]
    if len(decl) != 1:
        raise vlib.InfraError("declared-units record missing")
    decl = decl[0]
    bykind = {}
    for r in obs:
        bykind[r["kind"]] = bykind.get(r["kind"], 0) + 1
    ctx.extra["obligation_kinds"] = dict(bykind, element=len(elements), declared=1)

    # ---- 2. self check of the generator table (never a verdict about the code) ------------------
    for r in obs:
        if r["kind"] in ("selfcheck", "near"):
            v = 1.0
            for t in r["terms"]:
                v *= GEN[t["p"]["a"]] ** t["x"]
            if abs(v - 1.0) > 1e-8:
                raise vlib.InfraError("generator table inconsistent: %s = %r" % (termstr(r["terms"]), v))
            ctx.count()

    # ---- 3. numbers from the real library --------------------------------------------------------
    work = vlib.scratch_file("units")
    os.makedirs(work, exist_ok=True)
    nrand = 0 if ctx.quick else 40
    lam_inputs = [(1000.0, 1000.0, 1000.0, 1000.0)]
    for _ in range(nrand):
        lam_inputs.append(tuple(float(rng.randint(1000, 9000)) + rng.randint(0, 7) / 8.0 for _ in range(4)))
    items = [("uc", ["uc"]), ("const", ["const"]), ("declared", ["declared"]), ("lexpr", ["lexpr"])]
    for i, (x, v, f, L) in enumerate(lam_inputs):
        items.append((("lread", i), ["lread %s/r%d.dump %r %r %r %r" % (work, i, x, v, f, L)]))
        items.append((("lwrite", i), ["lwrite %s/w%d.dump %r %r %r %r" % (work, i, x, v, f, L)]))
        items.append((("ldata", i), ["ldata %s/d%d.data %r %r %r %r" % (work, i, x, L, 10.0 + i, 0.5 + i)]))
    # every coordinate style the dump reader accepts, the same two-atom configuration in a non-cubic box
    style_inputs = [((20.0, 30.0, 50.0), (3.0, 7.5, 12.5), (17.0, 21.0, 44.0))]
    for _ in range(nrand):
        L = tuple(float(rng.randint(10, 90)) for _ in range(3))
        style_inputs.append((L,) + tuple(tuple(rng.randint(1, 15) / 16.0 * l for l in L) for _ in range(2)))
    for i, (L, p1, p2) in enumerate(style_inputs):
        for st in ("xyz", "xs", "xu"):
            items.append((("lstyle", st, i), ["lstyle %s/s%d%s.dump %s %s" % (
                work, i, st, st, " ".join(repr(x) for x in L + p1 + p2))]))
    # other formats (gro, xyz, pdb, dlpoly HISTORY): one bead, non-cubic box, also negative components
    io_inputs = [((4.0, 6.0, 10.0), (1.25, 2.5, 3.75), (0.125, 0.375, 0.625), (1.5, 2.5, 3.5)),
                 ((6.0, 4.0, 8.0), (-1.25, 2.5, -3.75), (-0.125, 0.375, -0.625), (-1.5, 2.5, -3.5))]
    for _ in range(nrand // 4):
        io_inputs.append((tuple(float(rng.randint(3, 9)) for _ in range(3)),) + tuple(
            tuple(rng.choice((-1, 1)) * rng.randint(1, 63) / 8.0 for _ in range(3)) for _ in range(3)))
    for i, (L, x, v, f) in enumerate(io_inputs):
        for fmt in IO_FORMATS:
            wf = "%s/w%d.%s" % (work, i, fmt)
            items.append((("gwrite", fmt, i), ["gwrite %s %s" % (wf, " ".join(repr(c) for c in L + x + v + f))]))
            rf = "%s/r%d.%s" % (work, i, fmt)
            _io_reader_file(fmt, rf, L, x, v, f)
            items.append((("gread", fmt, i), ["gread " + rf]))
    # generic-container overloads of the xyz/pdb classes (atoms in bohr) and csg_boltzmann's table
    cont_inputs = [(125.0, 250.0, 375.0)] + [tuple(float(rng.randint(80, 400)) for _ in range(3)) for _ in range(nrand // 8)]
    for i, xyz in enumerate(cont_inputs):
        items.append((("xyzcw", i), ["xyzcw %s/c%d %r %r %r" % ((work, i) + xyz)]))
        with open("%s/cr%d.xyz" % (work, i), "w") as o:
            o.write("2\ncontainer frame\nC %r %r %r\nH %r %r %r\n" % (tuple(c / 64.0 for c in xyz) + tuple(-c / 32.0 for c in xyz)))
        items.append((("xyzcr", i), ["xyzcr %s/cr%d.xyz" % (work, i)]))
    boltz_inputs = [(10, 3), (7, 2)] + [(rng.randint(5, 40), rng.randint(1, 4)) for _ in range(nrand // 8)]
    for i, (n1, n2) in enumerate(boltz_inputs):
        # ONE TabulatedPotential object: T = 300, then 450 on the same object
        items.append((("boltz", i), ["boltznew %d %d" % (n1, n2), "boltztab %s/u%da.txt 300 5" % (work, i),
                                     "boltztab %s/u%db.txt 450 5" % (work, i)]))
    items.append(("exprs", ["exprs"]))
    for r in elements:
        items.append((("rad", r["z"]), ["radii %s" % r["sym"]]))
    for r in elements:
        items.append((("el", r["z"]), ["element %d %s" % (r["z"], r["sym"])]))
    results, crashes = vlib.run_items(exe, items)
    for iid, txt in crashes.items():
        violation("driver:crash:%s" % (iid[0] if isinstance(iid, tuple) else iid), "driver died: " + txt, {"item": str(iid)})

    def lines(iid):
        return results.get(iid, [[]])[0]

    val = {}        # place id -> number
    for ln in lines("uc"):
        p = ln.split()
        if p[0] == "uc":
            val["UnitConverter:%s:%s>%s" % (p[1], p[2], p[3])] = float(p[4])
            ctx.traces += 1          # one real UnitConverter::convert call
    for ln in lines("const"):
        p = ln.split()
        if p[0] == "const":
            val["const:" + p[1]] = float(p[2])
            ctx.traces += 1
    lexpr = {}
    for ln in lines("lexpr"):
        p = ln.split()
        if p[0] == "lexpr":
            lexpr[p[1]] = float(p[2])
    lobs = {}
    reuse = {}      # vacuity guard: second frame on the same reader, topology path, trajectory path of the data reader
    lam_items = [((kind, i), kind, lam_inputs[i]) for i in range(len(lam_inputs)) for kind in ("lread", "lwrite", "ldata")]
    lam_items += [(("lstyle", st, i), "lstyle:" + st, style_inputs[i]) for i in range(len(style_inputs))
                  for st in ("xyz", "xs", "xu")]
    for iid, kind, inp in lam_items:
        if True:
            got = lines(iid)
            exc = [ln for ln in got if ln.startswith("exc")]
            if exc:
                violation("lammps:%s:exception" % kind, "real reader/writer failed on a one-atom file: %s" % exc[0],
                          {"cmd": kind, "input": inp})
            else:
                ctx.traces += 1
            for ln in got:
                p = ln.split()
                if p[0] == "lobs":
                    lobs.setdefault(p[1], []).append(float(p[2]))
                elif p[0] in ("lframe", "ltopology", "ltrajectory"):
                    reuse[p[0] + p[1]] = reuse.get(p[0] + p[1], 0) + 1
    if not all(reuse.get(k) for k in ("lframe0", "lframe1", "ltopology1", "ltrajectory1")):
        raise vlib.InfraError("vacuity guard: LAMMPS reuse paths not exercised: %s" % reuse)
    ctx.extra["lammps_reuse_paths"] = reuse
    for place, vs in sorted(lobs.items()):
        ref = vs[0]
        spread = max(abs(v / ref - 1.0) for v in vs) if ref else float("inf")
        if spread > 2e-6:      # %f of the writer: 6 decimals on numbers >= 23
            violation("uniform:lammps:%s" % place, "factor applied by %s is not uniform over components/frames: %s"
                      % (place, sorted(set(vs))[:4]), {"place": place, "observed": vs[:12]})
        val["lammps:" + place] = ref
        if place in lexpr and abs(lexpr[place] / ref - 1.0) > 2e-6:
            warnings.append("driver expression for %s (%r) differs from the factor observed through the real code "
                            "(%r): update harness/drivers/units.cc" % (place, lexpr[place], ref))
    ctx.sample({"observed_lammps_factors": {k: v[0] for k, v in sorted(lobs.items())}})

    # ---- other formats: factor = stored / given, per component --------------------------------------
    ioobs = {}
    for i, (L, x, v, f) in enumerate(io_inputs):
        given = {"pos": x, "vel": v, "frc": f, "box": L}
        for fmt, fname in IO_FORMATS.items():
            got = lines(("gwrite", fmt, i))
            if not got or got[0] != "ok":
                violation("io:%swriter:exception" % fname, "real %s writer failed: %s" % (fmt, got), {"input": io_inputs[i]})
            else:
                ctx.traces += 1
                for q, vals in _io_parse_written(fmt, "%s/w%d.%s" % (work, i, fmt)).items():
                    ioobs.setdefault("%swriter_%s" % (fname, IO_Q[q]), []).extend(o / g for o, g in zip(vals, given[q]))
            got = lines(("gread", fmt, i))
            exc = [ln for ln in got if ln.startswith("exc")]
            if exc or not got:
                violation("io:%sreader:exception" % fname, "real %s reader failed on a one-bead file: %s" % (fmt, exc or got),
                          {"input": io_inputs[i]})
                continue
            ctx.traces += 1
            for ln in got:
                p = ln.split()
                if p[0] == "gobs":
                    ioobs.setdefault("%sreader_%s" % (fname, IO_Q[p[1]]), []).extend(
                        float(o) / g for o, g in zip(p[2:5], given[p[1]]))
    # generic-container overloads: file is Angstrom, atoms are bohr
    ncont = 0
    for i, xyz in enumerate(cont_inputs):
        given = list(xyz) + [-2 * c for c in xyz]
        got = lines(("xyzcw", i))
        if not got or got[0] != "ok":
            violation("io:xyzwriter_atoms:exception", "container overload of XYZWriter/PDBWriter failed: %s" % got, {"input": xyz})
        else:
            ctx.traces += 1
            ls = open("%s/c%d.xyz" % (work, i)).read().splitlines()
            vals = [float(t) for l in ls[2:4] for t in l.split()[1:4]]
            ioobs.setdefault("xyzwriter_pos_atoms", []).extend(o / g for o, g in zip(vals, given))
            ls = [l for l in open("%s/c%d.pdb" % (work, i)).read().splitlines() if l.startswith("ATOM")]
            vals = [float(l[a:a + 8]) for l in ls for a in (30, 38, 46)]
            ioobs.setdefault("pdbwriter_pos_atoms", []).extend(o / g for o, g in zip(vals, given))
        got = lines(("xyzcr", i))
        if [ln for ln in got if ln.startswith("exc")] or not got:
            violation("io:xyzreader_atoms:exception", "XYZReader::ReadFile(container) failed: %s" % got, {"input": xyz})
            continue
        ctx.traces += 1
        infile = [c / 64.0 for c in xyz] + [-c / 32.0 for c in xyz]
        for tag, place in (("atoms", "xyzreader_pos_atoms"), ("top", "xyzreader_pos")):
            vals = [float(t) for ln in got if ln.split()[:2] == ["gobs", tag] for t in ln.split()[2:5]]
            if len(vals) != 6:
                violation("io:xyzreader_atoms:exception", "expected two atoms via %s overload, got %s" % (tag, got), {"input": xyz})
                continue
            ncont += 1
            ioobs.setdefault(place, []).extend(o / g for o, g in zip(vals, infile))
    # csg_boltzmann: U = -kB T ln p (kJ/mol); the thermal-energy constant seen in populated and in empty bins
    nboltz = 0
    for i, (n1, n2) in enumerate(boltz_inputs):
        got = results.get(("boltz", i), [[], [], []])
        if ("boltz", i) in crashes or len(got) != 3:
            continue
        for T, rows in ((300.0, got[1]), (450.0, got[2])):
            tab = [[float(t) for t in ln.split()[1:4]] for ln in rows if ln.startswith("brow")]
            exc = [ln for ln in rows if ln.startswith("exc")]
            if exc or len(tab) != 5:
                violation("boltzmann:table", "csg_boltzmann 'tab' failed or wrote %d rows: %s" % (len(tab), exc or rows[:2]),
                          {"n1": n1, "n2": n2, "T": T})
                continue
            ctx.traces += 1
            lnr = math.log(float(n1) / n2)
            # bins 0 (1.0 nm, n1 samples, the maximum -> 0) and 4 (2.0 nm, n2 samples); 1..3 have no sample
            if tab[0][1] != 0.0:
                violation("boltzmann:table", "most populated bin is not the zero of the potential: %s" % tab, {"T": T})
            ioobs.setdefault("boltzmann_populated", []).append(tab[4][1] / (T * lnr))
            for k in (1, 2, 3):
                ioobs.setdefault("boltzmann_empty", []).append(tab[k][1] / (T * lnr))
            nboltz += 1
    if os.environ.get("C20_DEBUG"):
        vlib.log("ioobs", {k: v[:6] for k, v in ioobs.items()})
    spec_io = {r["terms"][0]["p"]["a"] for r in obs if r["kind"] == "value" and r["terms"][0]["p"]["t"] == "io"}
    for place, vs in sorted(ioobs.items()):
        if place not in spec_io:
            continue        # not stored by the format (xyz/pdb writer box, xyz reader box): nothing is demanded
        ref = vs[0]
        if ref == 0.0:
            violation("uniform:io:%s" % place, "%s stored 0 for a non-zero value: %s" % (place, vs[:6]),
                      {"place": place, "observed": vs[:12]})
            continue
        # gro prints 3/4 decimals, pdb 3, xyz 5: the inputs are multiples of 1/8 with |value| >= 0.125
        # pdb prints 3 decimals of numbers >= 40
        if max(abs(v / ref - 1.0) for v in vs) > (2e-5 if place == "pdbwriter_pos_atoms" else 2e-6):
            violation("uniform:io:%s" % place, "factor applied by %s is not uniform over components/frames/signs: %s"
                      % (place, sorted(set(vs))[:4]), {"place": place, "observed": vs[:12]})
        val["io:" + place] = ref
    ctx.sample({"observed_io_factors": {k: v[0] for k, v in sorted(ioobs.items())}})
    for ln in lines("exprs"):
        p = ln.split()
        if p[0] == "expr":
            val["expr:" + p[1]] = float(p[2])
    # literal of the gromacs helper script ("k_b in gromacs units"), read from the working tree
    import re
    script = os.path.join(vlib.REPO, "csg/share/scripts/inverse/functions_gromacs.sh")
    m = re.search(r'csg_calc "\$t" "\*" ([0-9.eE+-]+)', open(script).read()) if os.path.exists(script) else None
    if not m:
        raise vlib.InfraError("k_B literal not found in functions_gromacs.sh (script changed: update c20.py)")
    val["expr:script_gromacs_kB"] = float(m.group(1))
    # tools::Elements radii tables: unit switch of getCovRad, unit bands, repeated call
    rng_ = decl["ranges"]
    nrad = 0
    for r in elements:
        d = {}
        for ln in lines(("rad", r["z"])):
            p = ln.split()
            if p[0] == "rad":
                d[p[1]] = p[2]
        sym = r["sym"]
        g = lambda k: None if d.get(k, "!") == "!" else float(d[k])
        if g("covrad_ang") is not None:
            nrad += 1
            ctx.count()
            a = g("covrad_ang")
            for unit, place in (("bohr", "covrad_bohr_per_ang"), ("nm", "covrad_nm_per_ang")):
                if g("covrad_" + unit) is None:
                    violation("element:%s:covrad-unit" % sym, "getCovRad(%s, %s) throws" % (sym, unit), r)
                else:
                    ioobs.setdefault(place, []).append(g("covrad_" + unit) / a)
            if "covrad_badunit" in d and d["covrad_badunit"] != "!":
                violation("element:%s:covrad-unit" % sym, "getCovRad(%s, 'pm') returned %s instead of rejecting the "
                          "unknown unit" % (sym, d["covrad_badunit"]), r)
            if g("covrad_ang_again") != a:
                violation("element:%s:covrad-repeat" % sym, "second getCovRad(%s, ang) = %s, first %s" % (
                    sym, d.get("covrad_ang_again"), a), r)
            if not (rng_["covrad"][0] <= a * 1000.0 <= rng_["covrad"][1]):
                violation("element:%s:covrad-range" % sym, "covalent radius %r A outside %s mA: wrong unit?" % (
                    a, rng_["covrad"]), r)
        for k in ("vdw_chelpg", "vdw_mk"):
            if g(k) is not None:
                ctx.count()
                if not (rng_["vdw"][0] <= g(k) * 1000.0 <= rng_["vdw"][1]):
                    violation("element:%s:%s-range" % (sym, k), "%s radius %r A outside %s mA: wrong unit?" % (
                        k, g(k), rng_["vdw"]), r)
        if g("polarizability") is not None:
            ctx.count()
            if not (rng_["polar"][0] <= g("polarizability") * 1e6 <= rng_["polar"][1]):
                violation("element:%s:polarizability-range" % sym, "polarizability %r nm^3 outside %s 1e-6 nm^3: wrong "
                          "unit?" % (g("polarizability"), rng_["polar"]), r)
    for place in ("covrad_bohr_per_ang", "covrad_nm_per_ang", "boltzmann_populated", "boltzmann_empty"):
        vs = ioobs.get(place, [])
        if not vs:
            raise vlib.InfraError("nothing observed for %s (vacuity guard)" % place)
        # the table file carries 6 significant digits
        if max(abs(v / vs[0] - 1.0) for v in vs) > (1e-12 if place.startswith("covrad") else 2e-5):
            violation("uniform:expr:%s" % place, "%s is not one constant over elements / temperatures / bins: %s" % (place, sorted(set(vs))[:4]),
                      {"observed": vs[:12]})
        val["expr:" + place] = vs[0]
    # vacuity guards (engine side): the new layers really occurred in this run
    need = ["io:%s%s_%s" % (f, rw, q) for f, qs in (("gro", ("pos", "vel", "box")), ("xyz", ("pos",)), ("pdb", ("pos",)),
            ("dlpoly", ("pos", "vel", "force", "box"))) for rw in ("reader", "writer") for q in qs
            if not (f in ("xyz", "pdb") and q != "pos")] + ["io:pdbreader_box"]
    missing = [k for k in need if k not in val]
    if ncont < 2 or nboltz < 4:
        raise vlib.InfraError("vacuity guard: container overloads (%d) / boltzmann tables (%d) not exercised" % (ncont, nboltz))
    if missing or nrad < 50 or not any(c < 0 for inp in io_inputs for vec in inp[1:] for c in vec):
        raise vlib.InfraError("vacuity guard: layers not exercised: %s (covalent radii seen: %d)" % (missing, nrad))
    ctx.extra["layers2"] = {"container_reads": ncont, "boltzmann_tables": nboltz}
    ctx.extra["layers"] = {"io_places": len([k for k in val if k.startswith("io:")]), "covalent_radii": nrad,
                           "io_inputs": len(io_inputs)}

    # declared unit systems
    declared = {}
    for ln in lines("declared"):
        p = ln.split()
        if p[0] == "declared":
            declared.setdefault(p[1], {})[p[2]] = p[3]
    for cls, sysname in (("CsgUnits", "csg"), ("LAMMPSDumpReader", "lammps"), ("LAMMPSDumpWriter", "lammps"),
                         ("LAMMPSDataReader", "lammps")):
        for q, u in sorted(declared.get(cls, {}).items()):
            ctx.count()
            if decl[sysname][q] != u:
                violation("declared:%s:%s" % (cls, q), "%s declares %s unit %s; %s is %s" % (
                    cls, q, u, "LAMMPS 'real'" if sysname == "lammps" else "the csg unit system", decl[sysname][q]),
                    {"class": cls, "quantity": q, "declared": u, "spec": decl[sysname][q]})
        if not declared.get(cls):
            raise vlib.InfraError("driver reported no declared units for " + cls)

    for cls, sysname in (("GROReader", "gro"), ("GROWriter", "gro"), ("XYZReader", "ang"), ("XYZWriter", "ang"),
                         ("PDBReader", "ang"), ("PDBWriter", "ang"), ("DLPOLYTrajectoryReader", "dlpoly"),
                         ("DLPOLYTrajectoryWriter", "dlpoly")):
        if not declared.get(cls):
            raise vlib.InfraError("driver reported no declared units for " + cls)
        for q, u in sorted(declared[cls].items()):
            if q not in decl[sysname]:
                if sysname == "dlpoly":
                    w = ("%s declares %s unit %s; DL_POLY stores the coherent unit of (A, u, ps): 10 J/mol resp. "
                         "u A/ps^2 = 10 J/mol/A, which the enums cannot express (applied factor is checked against "
                         "the coherent unit)" % (cls, q, u))
                    if w not in warnings:
                        warnings.append(w)
                continue
            ctx.count()
            if decl[sysname][q] != u:
                violation("declared:%s:%s" % (cls, q), "%s declares %s unit %s; the format's is %s" % (
                    cls, q, u, decl[sysname][q]), {"class": cls, "quantity": q, "declared": u, "spec": decl[sysname][q]})

    # ---- 4. value obligations: place vs CODATA/SI evaluation of its vector -------------------------
    bad_ref = {}     # place id -> (value, expected, rel)
    nval = 0
    for r in obs:
        if r["kind"] != "value":
            continue
        p = r["terms"][0]["p"]
        k = pid(p)
        if k not in val:
            raise vlib.InfraError("no number from the driver for place " + k)
        expect = evalvec(r["vec"])
        rel = abs(val[k] / expect - 1.0)
        ctx.count()
        nval += 1
        if any(r["vec"].values()):
            ctx.nontriv(("value", k))
        if not (rel <= TOL_REF):
            bad_ref[k] = (val[k], expect, rel, r)
    for k in ("const:kcal2kj", "UnitConverter:Energy:hartrees>electron_volts", "lammps:dumpreader_force"):
        for r in obs:
            if r["kind"] == "value" and pid(r["terms"][0]["p"]) == k:
                ctx.sample({"place": k, "vector": {g: n for g, n in r["vec"].items() if n}, "code": val[k],
                            "reference": evalvec(r["vec"])})

    # identical units: the factor is exactly 1 (not merely within four digits)
    ndiag = 0
    for k, v in sorted(val.items()):
        if k.startswith("UnitConverter:"):
            a, b = k.split(":")[2].split(">")
            if a == b:
                ndiag += 1
                ctx.count()
                if v != 1.0:
                    violation("algebra:identity:%s" % k.split(":")[1], "%s = %r, expected exactly 1" % (k, v), {"place": k, "value": v})
    if ndiag != 42:
        raise vlib.InfraError("vacuity guard: %d identical-unit conversions seen, expected 42" % ndiag)

    # ---- 5. identity obligations ----------------------------------------------------------------------
    bad_same = []
    bad_compose = []
    bad_alg = {}
    for r in obs:
        if r["kind"] not in ("roundtrip", "transitive", "chain", "derived", "same", "compose"):
            continue
        prod = 1.0
        for t in r["terms"]:
            k = pid(t["p"])
            if k not in val:
                raise vlib.InfraError("no number from the driver for place " + k)
            prod *= val[k] ** t["x"]
        ctx.count()
        if len({pid(t["p"]) for t in r["terms"]}) > 1:
            ctx.nontriv((r["kind"], termstr(r["terms"])))
        dev = abs(prod - 1.0)
        if r["kind"] == "compose":
            if not (dev <= TOL_REF):
                bad_compose.append((dev, r))
        elif r["kind"] == "same":
            a, b = pid(r["terms"][0]["p"]), pid(r["terms"][1]["p"])
            if not (dev <= TOL_REF):
                bad_same.append((a, b, dev, r))
            elif dev > TOL_DRIFT:
                warnings.append("same quantity, drift %.2e (within four digits): %s" % (dev, termstr(r["terms"])))
        elif not (dev <= TOL_ALGEBRA):
            dim = r["terms"][0]["p"]["dim"]
            bad_alg.setdefault((r["kind"], dim), []).append((dev, r))

    # ---- 6. attribution: one key per defective place ---------------------------------------------------
    partners = {}
    for a, b, dev, r in bad_same:
        partners.setdefault(a, []).append((b, dev))
        partners.setdefault(b, []).append((a, dev))

    def sig(dev):
        """one-digit signature of a relative deviation; part of the key so that a different wrong value at
        the same place is a different defect and does not hide behind a known finding"""
        return "%+.0e" % dev

    def uc_groups(keys):
        """UnitConverter pairs failing in one dimension -> key named after the unit all of them share (if
        unique), with the median deviation of the factors INTO that unit as signature."""
        out = {}
        bydim = {}
        for k in keys:
            _, dim, ab = k.split(":")
            bydim.setdefault(dim, []).append(tuple(ab.split(">")))
        for dim, prs in bydim.items():
            cand = set(prs[0])
            for ab in prs:
                cand &= set(ab)
            if len(cand) == 1:
                u = sorted(cand)[0]
                devs = []
                for ab in prs:
                    v, expect = bad_ref["UnitConverter:%s:%s>%s" % (dim, ab[0], ab[1])][:2]
                    devs.append(v / expect - 1.0 if ab[1] == u else expect / v - 1.0)
                devs.sort()
                key = "factor:UnitConverter:%s:%s:%s" % (dim, u, sig(devs[len(devs) // 2]))
                for ab in prs:
                    out["UnitConverter:%s:%s>%s" % (dim, ab[0], ab[1])] = key
            else:
                for ab in prs:
                    k = "UnitConverter:%s:%s>%s" % (dim, ab[0], ab[1])
                    out[k] = "factor:UnitConverter:%s:%s>%s:%s" % (dim, ab[0], ab[1],
                                                                 sig(bad_ref[k][0] / bad_ref[k][1] - 1.0))
        return out

    ucmap = uc_groups([k for k in bad_ref if k.startswith("UnitConverter:")])
    for k, (v, expect, rel, r) in sorted(bad_ref.items()):
        key = ucmap.get(k) or "factor:%s:%s" % (k, sig(v / expect - 1.0))
        others = ", ".join("%s (%.1e)" % pb for pb in sorted(partners.get(k, []))[:4])
        violation(key, "%s = %.10g but CODATA/SI gives %.10g for %s (rel %.2e > 5e-5)%s" % (
            k, v, expect, {g: n for g, n in r["vec"].items() if n}, rel,
            "; also disagrees with " + others if others else ""),
            {"place": k, "value": v, "reference": expect, "rel": rel, "obligation": r})
    for a, b, dev, r in bad_same:
        recip = all(t["x"] == 1 for t in r["terms"]) and all(t["p"]["t"] in ("lammps", "io") for t in r["terms"])
        if recip:
            # writer factor x reader factor = 1 is an obligation of its own: it holds on the unchanged tree even where
            # both absolute factors are known findings (10 x 0.1), so a change of ONE side must not hide behind them
            violation("roundtrip:%s~%s" % tuple(sorted((a, b))), "reader and writer factors are not reciprocal: %s=%r, "
                      "%s=%r, product = 1%+.2e" % (a, val[a], b, val[b], val[a] * val[b] - 1.0),
                      {"obligation": r, "values": {a: val[a], b: val[b]}})
            continue
        if (a in bad_ref) != (b in bad_ref):
            continue        # explained by the one place that fails its reference (reported there)
        violation("agree:%s~%s" % tuple(sorted((a, b))), "same quantity in two places differs by %.2e: %s=%r %s=%r" % (
            dev, a, val[a], b, val[b]), {"obligation": r, "values": {a: val[a], b: val[b]}})
    for dev, r in bad_compose:
        if any(pid(t["p"]) in bad_ref for t in r["terms"]):
            continue
        violation("compose:%s" % pid(r["terms"][0]["p"]), "overloads disagree: %s = 1%+.2e" % (termstr(r["terms"]), dev),
                  {"obligation": r})
    for (kind, dim), lst in sorted(bad_alg.items()):
        dev, r = max(lst, key=lambda x: x[0])
        violation("algebra:%s:%s" % (kind, dim), "%d %s identities of UnitConverter %s fail; worst %s = 1%+.3e" % (
            len(lst), kind, dim, termstr(r["terms"]), dev), {"obligation": r, "count": len(lst)})

    # ---- 7. elements ----------------------------------------------------------------------------------
    known = 0
    masses = {}
    elres = {}
    for r in elements:
        d = {}
        for ln in lines(("el", r["z"])):
            p = ln.split()
            if p[0] == "el":
                d[p[1]] = p[2]
        elres[r["z"]] = d
        if d.get("mass_of_sym", "!") != "!":
            masses[r["sym"]] = float(d["mass_of_sym"])
    gaps = []
    for r in elements:
        z, sym, d = r["z"], r["sym"], elres[r["z"]]
        ctx.count()
        if not d:
            raise vlib.InfraError("no element data from the driver for %s" % sym)
        g = lambda f: None if d.get(f, "!") == "!" else d[f]
        if all(g(f) is None for f in ("name_of_z", "num_of_sym", "crg_of_sym", "mass_of_sym", "full_of_sym")):
            continue        # the library does not know this element
        known += 1
        ctx.traces += 1
        ctx.nontriv(("element", sym))
        if g("name_of_z") is not None and g("name_of_z") != sym:
            violation("element:%s:number-symbol" % sym, "getEleName(%d) = %s, expected %s" % (z, g("name_of_z"), sym), r)
        if g("num_of_sym") is not None and int(g("num_of_sym")) != z:
            violation("element:%s:number-symbol" % sym, "getEleNum(%s) = %s, expected %d" % (sym, g("num_of_sym"), z), r)
        if g("crg_of_sym") is not None and int(g("crg_of_sym")) != z:
            violation("element:%s:nuclear-charge" % sym, "getNucCrg(%s) = %s, expected %d" % (sym, g("crg_of_sym"), z), r)
        if g("mass_of_sym") is not None and g("num_of_sym") is not None and g("name_of_z") is not None:
            if g("mass_via_num") is None or float(g("mass_via_num")) != float(g("mass_of_sym")):
                violation("element:%s:mass-via-number" % sym, "mass via number %s differs from mass via symbol %s" % (
                    g("mass_via_num"), g("mass_of_sym")), r)
        if g("mass_of_sym") is not None:
            m = float(g("mass_of_sym"))
            if r["mm"] > 0 and abs(m / (r["mm"] / 1000.0) - 1.0) > TOL_MASS:
                violation("element:%s:mass" % sym, "getMass(%s) = %r, standard atomic weight %.3f (rel %.1e > 2e-3)" % (
                    sym, m, r["mm"] / 1000.0, abs(m / (r["mm"] / 1000.0) - 1.0)), r)
            cl = g("closest_in_mass")
            if cl != sym and not (cl in masses and masses[cl] == m):
                violation("element:%s:mass-lookup" % sym, "getEleShortClosestInMass(getMass(%s)) = %s" % (sym, cl), r)
        if g("full_of_sym") is not None:
            if g("short_of_full") != sym or g("is_full") != "1":
                violation("element:%s:name-roundtrip" % sym, "getEleFull(%s) = %s but getEleShort(%s) %s" % (
                    sym, g("full_of_sym"), g("full_of_sym"),
                    "throws" if g("short_of_full") is None else "= " + g("short_of_full")), r)
        missing = [f for f in ("name_of_z", "num_of_sym", "crg_of_sym", "mass_of_sym", "full_of_sym") if g(f) is None]
        if missing:
            gaps.append("%s: %s" % (sym, ",".join(missing)))
    if gaps:
        warnings.append("elements known to some tables only: " + "; ".join(gaps))
    ctx.extra["elements_known"] = known
    if elements:
        ctx.sample({"element": elements[5], "library": elres[elements[5]["z"]]})
    _histories(ctx, exe, violation)
    vlib.log("C20: %d value + %d identity obligations, %d elements known to the library, %d warnings" % (
        nval, sum(v for k, v in bykind.items() if k not in ("value", "selfcheck", "near")), known, len(warnings)))
