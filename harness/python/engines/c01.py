"""C01 - coarse-grained mapping is the weighted, periodic-image-aware linear map.
spec/cgmap: CgMap (one CG bead as exact integers/rationals on top of Pbc!SpecMI),
CgHist (history machine LoadFrame / ShiftParent / TranslateAll, Apply after each; theorems),
TraceCg (opposite direction).  Driver: harness/drivers/cgmap.cc (CGEngine::LoadMoleculeType /
CreateCGTopology, TopologyMap::Apply)."""
import json
import math
import os
import random
import vlib

U = 8.0   # lattice units per nm (positions, box)

MANIFEST = dict(
        engine="cgmap", design_ref="DESIGN.md 5/C01",
        technique="TLA+ history spec of the mapping (frames with per-frame box change, image shifts, translations; "
                  "each CG bead as exact rationals over the brute-force shortest image of spec/pbc) model-checked "
                  "with TLC; TLC-exported call histories replayed into CGEngine/TopologyMap::Apply on generated "
                  "topologies and mapping XML; random frames of the real code judged by TLC (TraceCg)",
        text="TLC enumerates all histories up to the configured depth (and simulated deeper ones) over mapping "
             "definitions (1-4 parents, zero weights, d coefficients, two beads sharing a parent, permuted first "
             "parent, ellipsoidal bead), open/orthorhombic/reduced-triclinic boxes (equalities included), "
             "present/absent positions, velocities, forces; the statement's consequences (image invariance, "
             "translation covariance, convex hull, rejection iff farther than half the shortest height, never for "
             "open boxes, agreement with the code's sequential reduction) are invariants; every history is "
             "replayed frame by frame into the real TopologyMap::Apply and CG bead pos/vel/force/mass/flags, the "
             "CG box and the rejection are compared exactly (1e-9).",
        note="Trusted: TLC, the lattice argument, the text driver protocol, the XML the runner writes from the "
             "mapping record. Exactly at half the shortest height (and on periodic ties) either outcome is "
             "admitted. Per-atom absence of positions, flags changing between frames, Map_Ellipsoid orientation "
             "vectors and the csg_map executable/file formats are not covered.")


def _xml(md, prefix="", ident="M"):
    beads, maps = [], []
    for k, bd in enumerate(md["beads"]):
        beads.append("<cg_bead><name>B%d</name><type>T%d</type><symmetry>%d</symmetry><mapping>m%d</mapping>"
                     "<beads>%s</beads></cg_bead>" % (k + 1, k + 1, bd["sym"], k + 1,
                                                      " ".join("%sA%d" % (prefix, i) for i in bd["par"])))
        d = "<d>%s</d>" % " ".join(str(x) for x in bd["d"]) if bd["d"] else ""
        maps.append("<map><name>m%d</name><weights>%s</weights>%s</map>" % (k + 1, " ".join(str(x) for x in bd["w"]), d))
    return ("<cg_molecule><name>CG%s</name><ident>%s</ident><topology><cg_beads>\n%s\n</cg_beads></topology>"
            "<maps>\n%s\n</maps></cg_molecule>\n" % (ident, ident, "\n".join(beads), "\n".join(maps)))


def _has(pattern, i):     # i = 1-based atom index
    return pattern == "all" or (pattern == "first" and i == 1) or (pattern == "notfirst" and i != 1)


def _frame_cmd(cols, mols, vel, frc, fl):
    """cols: box columns (lattice); mols: list of position lists (lattice); vel/frc per atom."""
    m = [cols[j][i] / U for i in range(3) for j in range(3)]
    parts = ["frame"] + [repr(v) for v in m]
    for pos in mols:
        for i, p in enumerate(pos):
            hp = 1 if fl["hp"] else 0
            hv = 1 if _has(fl["hv"], i + 1) else 0
            hf = 1 if _has(fl["hf"], i + 1) else 0
            parts += [str(hp)] + [repr(x / U) for x in p]
            parts += [str(hv)] + [repr(float(x)) for x in vel[i]]
            parts += [str(hf)] + [repr(float(x)) for x in frc[i]]
    return " ".join(parts)


def _parse_frame(lines):
    """-> ('exc', text) or ('ok', {type, box, beads: [ {mass,hp,pos,hv,vel,hf,f} ]})"""
    out = {"beads": []}
    try:
        return _parse_frame_lines(lines, out)
    except (IndexError, ValueError) as ex:       # unreadable answer of the real code: judged, not raised
        return "exc", "exc unreadable frame output (%s): %s" % (ex, [ln for ln in lines if ln.startswith(("cg", "bead"))][:2])


def _parse_frame_lines(lines, out):
    for ln in lines:
        if ln.startswith("exc"):
            return "exc", ln
        if ln.startswith("cg type"):
            p = ln.split()
            out["type"] = p[2]
            out["box"] = [float(t) for t in p[4:13]]
        elif ln.startswith("bead "):
            p = ln.split()
            if len(p) < 22:
                raise ValueError("short bead line")
            out["beads"].append({"name": p[2], "mol": int(p[4]), "mass": float(p[6]),
                                 "hp": p[8] == "1", "pos": [float(t) for t in p[9:12]],
                                 "hv": p[13] == "1", "vel": [float(t) for t in p[14:17]],
                                 "hf": p[18] == "1", "f": [float(t) for t in p[19:22]],
                                 "ell": len(p) > 23 and p[23] == "1",
                                 "U": [float(t) for t in p[24:27]], "V": [float(t) for t in p[27:30]],
                                 "W": [float(t) for t in p[30:33]]})
    if "type" not in out:
        return "exc", "exc no output"
    return "ok", out


def _nonfinite(vec):
    """a value of the real code that is NaN / inf where the specification expects a number"""
    return any(not math.isfinite(x) for x in vec)


def _vclose(a, b, tol=1e-9):
    return all(abs(x - y) <= tol * max(1.0, abs(x), abs(y)) for x, y in zip(a, b))


class _Checker:
    def __init__(self, ctx, exe):
        self.ctx = ctx
        self.exe = exe
        self.xml = {}
        self.exec_pool = []
        self.app_pool = []
        self.sticky = {}
        self.prev = None
        self.ell_short = False
        self.stats = {"histories": 0, "frames": 0, "err_yes": 0, "err_either": 0, "err_no": 0, "open": 0,
                      "boxchange": 0, "ops": {}}

    def xmlfile(self, md, ident="M"):
        key = ident + json.dumps(md, sort_keys=True)
        if key not in self.xml:
            path = vlib.scratch_file("c01-map-%d.xml" % len(self.xml))
            with open(path, "w") as f:
                f.write(_xml(md, ident=ident))
            self.xml[key] = path
        return self.xml[key]

    def cleanup(self):
        for p in self.xml.values():
            try:
                os.unlink(p)
            except OSError:
                pass

    # ---- replay of TLC histories ----------------------------------------------------------
    def histories(self, hists):
        ctx = self.ctx
        items = []
        for i, r in enumerate(hists):
            md = r["md"]
            cmds = ["top 2 %d %s" % (md["n"], " ".join(str(m) for m in md["mass"])), "map " + self.xmlfile(md)]
            cur = md["mass"]
            for st in r["h"]:
                if st["mass"] != cur:      # a parent mass changed after the map was created (Bead::setMass)
                    cur = st["mass"]
                    cmds.append("mass " + " ".join(str(m) for m in cur))
                cmds.append(_frame_cmd(st["box"], [st["pos"], st["pos2"]], st["vel"], st["frc"], st["fl"]))
            items.append((i, cmds))
        results, crashes = vlib.run_items(self.exe, items)
        for i, r in enumerate(hists):
            ctx.traces += 1
            self.stats["histories"] += 1
            rep = {"history": r}
            if i in crashes:
                ctx.violation("Apply:crash", "driver died: " + crashes[i], rep)
                continue
            out = results[i]
            mapline = next((ln for ln in out[1] if ln.startswith(("ok", "exc"))), "exc no output")
            if r["initerr"]:
                if not mapline.startswith("exc"):
                    ctx.violation("Initialize:d-on-zero-weight-accepted",
                                  "mapping with a non-zero d on a zero weight was accepted: %s" % r["md"], rep)
                ctx.nontriv(("initerr", json.dumps(r["md"])))
                continue
            if mapline.startswith("exc"):
                if not any(bd["sym"] == 3 and len(bd["par"]) < 3 for bd in r["md"]["beads"]):
                    ctx.violation("CreateCGTopology:exception", "%s for mapping %s" % (mapline, r["md"]), rep)
                continue
            prevbox = None
            self.ell_short = any(bd["sym"] == 3 and len(bd["par"]) < 3 for bd in r["md"]["beads"])
            if self.ell_short:
                self.stats["ell_short"] = self.stats.get("ell_short", 0) + 1
            self.sticky = {}      # (bead index, what) -> an earlier frame of this object set that flag
            self.prev = None      # (step record, observation) of the previous accepted frame
            k = 2
            curm = r["md"]["mass"]
            for j, st in enumerate(r["h"]):
                if j and st["fl"] != r["h"][j - 1]["fl"]:
                    self.stats["flagchange"] = self.stats.get("flagchange", 0) + 1
                if st["mass"] != curm:
                    curm = st["mass"]
                    k += 1               # the 'mass' command
                    what = "masschange_between_applies" if j else "masschange_before_first_apply"
                    if st["err"] != "yes":
                        self.stats[what] = self.stats.get(what, 0) + 1
                self.frame(r["md"], st["fl"], st, out[k], rep, j)
                k += 1
                if prevbox is not None and prevbox != st["box"]:
                    self.stats["boxchange"] += 1
                prevbox = st["box"]
            if any(st["err"] != "no" or st["op"] != "load" for st in r["h"]):
                ctx.nontriv(("h", json.dumps(r["md"]["beads"]),
                             json.dumps([[st["op"], st["box"], st["pos"]] for st in r["h"]])))

    def frame(self, md, fl, st, lines, rep, j, exp=None):
        """compare one Apply() with the expectation st (from TLC)"""
        ctx = self.ctx
        s = self.stats
        ctx.count()
        s["frames"] += 1
        s["err_" + st["err"]] += 1
        s["ops"][st["op"]] = s["ops"].get(st["op"], 0) + 1
        typ = st["typ"]
        if typ == "open":
            s["open"] += 1
        kind, o = _parse_frame(lines)
        where = "frame %d (%s, box %s %s)" % (j, st["op"], typ, st["box"])
        cur = {}
        if kind == "exc":
            self.sticky["err"] = True     # beads mapped before the throwing one were updated: flags unknown
            self.prev = None
            if "bigger than half the box" not in o and "bigger than half" not in " ".join(lines):
                if getattr(self, "ell_short", False):
                    s["ell_short_refused"] = s.get("ell_short_refused", 0) + 1
                    return       # an ellipsoidal bead with < 3 parents may be refused
                ctx.violation("Apply:exception", "%s: unexpected exception %s" % (where, o), rep)
            elif st["err"] == "no":
                key = "Apply:rejection-open-box" if typ == "open" else "Apply:spurious-rejection:%s" % typ
                ctx.violation(key, "%s: bead rejected although every parent is within half the shortest box "
                                   "height of the first parent; pos %s / %s" % (where, st["pos"], st["pos2"]), rep)
            return
        if st["err"] == "yes":
            self.prev = None
            ctx.violation("Apply:no-rejection:%s" % typ,
                          "%s: a parent is farther than half the shortest box height from the first parent but "
                          "Apply() did not throw; pos %s / %s" % (where, st["pos"], st["pos2"]), rep)
            return
        m = [st["box"][c][i] / U for i in range(3) for c in range(3)]
        if o["type"] != typ or o["box"] != m:
            ctx.violation("Apply:cgbox", "%s: CG topology has box %s type %s, expected %s type %s" %
                          (where, o["box"], o["type"], m, typ), rep)
        if exp is None:
            exp = [(0, k, e, md["beads"][k]) for k, e in enumerate(st["out"])] + \
                  [(1, k, e, md["beads"][k]) for k, e in enumerate(st["out2"])]
        if len(o["beads"]) != len(exp):
            ctx.violation("Apply:bead-count", "%s: %d CG beads, expected %d" % (where, len(o["beads"]), len(exp)), rep)
            return
        for (mol, k, e, bd), b in zip(exp, o["beads"]):
            sym = "sphere" if bd["sym"] == 1 else "ellipsoid"
            tag = "%s bead B%d of molecule %d (%s, parents %s w %s d %s)" % (where, k + 1, mol + 1, sym, bd["par"],
                                                                               bd["w"], bd["d"])
            if b["mol"] != mol or b["name"] != "B%d" % (k + 1):
                ctx.violation("Apply:bead-order", "%s: found %s of molecule %d" % (tag, b["name"], b["mol"]), rep)
                continue
            if not math.isfinite(b["mass"]):
                ctx.violation("mass:%s:nan" % sym, "%s: mass %r is not a number" % (tag, b["mass"]), rep)
            elif not vlib.close(b["mass"], float(e["mass"]), 1e-12, 0):
                ctx.violation("mass:%s" % sym, "%s: mass %r, expected the sum of the current parent masses %d (atom masses %s)" %
                              (tag, b["mass"], e["mass"], st.get("mass", "")), rep)
            # flags: a value the parents carry in this frame must be there and right; when the parents do
            # not carry it, the CG bead of an object that had it in an earlier frame keeps flag and stale
            # value (never reset by the code, not specified anywhere): admitted, nothing asserted about it
            def flag(what, got, want):
                if got == want:
                    return want
                if got and not want and (self.sticky.get((mol, k, what)) or self.sticky.get("err")):
                    s["sticky_" + what] = s.get("sticky_" + what, 0) + 1
                    return False
                ctx.violation("flags:%s:%s" % (what, sym), "%s: Has%s=%s expected %s" % (tag, what, got, want), rep)
                return False
            if flag("pos", b["hp"], e["hasPos"]):
                cands = [[x / (e["W"] * U) for x in c] for c in e["cands"]]
                if _nonfinite(b["pos"]):
                    ctx.violation("pos:%s:nan" % sym, "%s: position %s is not finite, expected %s; atoms %s" %
                                  (tag, b["pos"], cands, st.get("pos" if mol == 0 else "pos2", "")), rep)
                elif not any(_vclose(b["pos"], c) for c in cands):
                    ctx.violation("pos:%s:%s" % (sym, typ), "%s: position %s (nm), expected %s; atoms %s" %
                                  (tag, b["pos"], cands, st.get("pos" if mol == 0 else "pos2", "")), rep)
            if flag("vel", b["hv"], e["hasVel"]):
                v = [x / e["W"] for x in e["velnum"]]
                if not _vclose(b["vel"], v):
                    ctx.violation("vel:%s%s" % (sym, ":nan" if _nonfinite(b["vel"]) else ""),
                                  "%s: velocity %s expected %s" % (tag, b["vel"], v), rep)
            if flag("force", b["hf"], e["hasF"]):
                f = [x / e["fden"] for x in e["fnum"]]
                if not _vclose(b["f"], f):
                    ctx.violation("force:%s:%s%s" % (sym, "d" if bd["d"] else "no-d", ":nan" if _nonfinite(b["f"]) else ""),
                                  "%s: force %s expected %s" % (tag, b["f"], f), rep)
            for what, got in (("pos", b["hp"]), ("vel", b["hv"]), ("force", b["hf"])):
                if got:
                    self.sticky[(mol, k, what)] = True
            if e["ell"]["on"] and e["hasPos"] and st["err"] == "no" and len(e["cands"]) == 1:
                self.orientation(tag, b, e, st, (mol, k), rep, cur)
        self.prev = cur

    def orientation(self, tag, b, e, st, bk, rep, cur):
        """ellipsoidal bead with >= 3 parents, documentation of Bead::getU/getV/getW: u = eigenvector of the
        lowest eigenvalue of the parents' gyration tensor, v = connection first -> second parent (or its
        component orthogonal to u: the documentation names both), w orthogonal to u and v, right-handed;
        and, as part of the mapped frame, unchanged by whole-box shifts of parents and rigid translations."""
        ctx = self.ctx
        s = self.stats
        s["orient"] = s.get("orient", 0) + 1
        if not b["ell"]:
            ctx.violation("orient:ellipsoid:missing", "%s: no orientation vectors" % tag, rep)
            return
        Uv, Vv, Wv = b["U"], b["V"], b["W"]
        dot = lambda a, c: sum(x * y for x, y in zip(a, c))
        cross = lambda a, c: [a[1] * c[2] - a[2] * c[1], a[2] * c[0] - a[0] * c[2], a[0] * c[1] - a[1] * c[0]]
        norm = lambda a: dot(a, a) ** 0.5
        what = "%s: u=%s v=%s w=%s" % (tag, Uv, Vv, Wv)
        if _nonfinite(Uv + Vv + Wv):
            ctx.violation("orient:ellipsoid:nan", what, rep)
            return
        if any(abs(norm(x) - 1) > 1e-9 for x in (Uv, Vv, Wv)):
            ctx.violation("orient:ellipsoid:not-unit", what, rep)
            return
        G = e["ell"]["G"]
        tr = float(G[0][0] + G[1][1] + G[2][2])
        d2, d3 = e["ell"]["d2"], e["ell"]["d3"]
        if tr > 0:
            Gu = [dot(row, Uv) for row in G]
            lam = dot(Uv, Gu)
            res = norm([Gu[c] - lam * Uv[c] for c in range(3)])
            e2 = (G[0][0] * G[1][1] - G[0][1] ** 2) + (G[0][0] * G[2][2] - G[0][2] ** 2) + (G[1][1] * G[2][2] - G[1][2] ** 2)
            pp = e2 - 2 * lam * (tr - lam) + lam * lam      # (mu1 - lam)(mu2 - lam) for the two other eigenvalues
            if pp > 1e-5 * tr * tr:                         # lowest eigenvalue not degenerate: u is determined
                s["orient_u"] = s.get("orient_u", 0) + 1
                if res > 1e-6 * tr or lam > tr / 3 + 1e-6 * tr:
                    ctx.violation("orient:ellipsoid:u", "%s is not the eigenvector of the lowest eigenvalue of the "
                                  "gyration tensor %s of the unwrapped parents (residual %g, Rayleigh quotient %g, trace %g)"
                                  % (what, G, res, lam, tr), rep)
            elif res > 1e-4 * tr and pp < -1e-5 * tr * tr:
                ctx.violation("orient:ellipsoid:u", "%s: u is not an eigenvector of the lowest eigenvalue" % what, rep)
        if any(d2):
            n2 = norm(d2)
            perp = [d2[c] - dot(d2, Uv) * Uv[c] for c in range(3)]
            ok_code = norm(cross(Vv, d2)) <= 1e-7 * n2 and dot(Vv, d2) > 0
            ok_doc = norm(perp) > 1e-7 * n2 and norm(cross(Vv, perp)) <= 1e-6 * n2 and dot(Vv, perp) > 0
            if not (ok_code or ok_doc):
                ctx.violation("orient:ellipsoid:v", "%s: v is not the direction from the first to the second "
                              "(unwrapped) parent %s" % (what, d2), rep)
        if abs(dot(Wv, Uv)) > 1e-7 or (abs(dot(Wv, Vv)) > 1e-7):
            ctx.violation("orient:ellipsoid:w", "%s: w is not orthogonal to u and v" % what, rep)
        elif dot(cross(Uv, Vv), Wv) <= 0:
            ctx.violation("orient:ellipsoid:handedness", "%s: (u, v, w) is not right-handed" % what, rep)
        cur[bk] = (Uv, Vv, Wv)
        if st["op"] in ("shift", "trans") and self.prev and bk in self.prev:
            s["orient_rel"] = s.get("orient_rel", 0) + 1
            if any(not _vclose(x, y, 1e-7) for x, y in zip((Uv, Vv, Wv), self.prev[bk])):
                ctx.violation("orient:ellipsoid:%s" % ("image-variance" if st["op"] == "shift" else "translation-variance"),
                              "%s: the orientation changed from %s when %s" %
                              (what, self.prev[bk], "atom %d was displaced by whole box vectors" % st["arg"]
                               if st["op"] == "shift" else "all atoms were translated"), rep)

    # ---- several molecule types / definitions / ignored types / CGEngine reuse -------------------------
    def mixed(self, vecs):
        ctx = self.ctx
        self.ell_short = False
        names = {"A": "MA", "B": "MB", "X": "MX"}
        fl = {"hp": True, "hv": "all", "hf": "all"}
        items = []
        for i, r in enumerate(vecs):
            top = "topx %d " % len(r["mols"]) + " ".join(
                "%s %d %s" % (names[m["type"]], m["n"], " ".join(str(x) for x in m["mass"])) for m in r["mols"])
            files = self.xmlfile(r["mdA"], "MA") + ";" + self.xmlfile(r["mdB"], "MB")
            parts = ["frame"] + [repr(r["box"][c][k] / U) for k in range(3) for c in range(3)]
            for m in r["mols"]:
                for a in range(m["n"]):
                    parts += ["1"] + [repr(x / U) for x in m["pos"][a]]
                    parts += ["1"] + [repr(float(x)) for x in m["vel"][a]]
                    parts += ["1"] + [repr(float(x)) for x in m["frc"][a]]
            fr = " ".join(parts)
            # the unmapped type is either ignored explicitly (pattern with a wildcard) or has no definition
            items.append((i, [top, "map %s%s" % (files, " M?X" if r["ign"] else ""), fr, "remap", fr]))
        results, crashes = vlib.run_items(self.exe, items)
        s = self.stats
        for i, r in enumerate(vecs):
            ctx.traces += 1
            rep = {"mixed": r}
            s["mixed"] = s.get("mixed", 0) + 1
            hasx = any(m["type"] == "X" for m in r["mols"])
            if hasx:
                s["mixed_ignored" if r["ign"] else "mixed_unknown"] = s.get("mixed_ignored" if r["ign"] else "mixed_unknown", 0) + 1
            ctx.nontriv(("mixed", i))
            if i in crashes:
                ctx.violation("mixed:crash", "driver died: " + crashes[i], rep)
                continue
            out = results[i]
            exp, cgmol = [], 0
            for m in r["mols"]:
                if m["type"] == "X":
                    continue
                md = r["mdA"] if m["type"] == "A" else r["mdB"]
                exp += [(cgmol, k, e, md["beads"][k]) for k, e in enumerate(m["out"])]
                cgmol += 1
            for which, (ci, fi) in (("first map", (1, 2)), ("second map of the same CGEngine", (3, 4))):
                mapline = next((ln for ln in out[ci] if ln.startswith(("ok", "exc"))), "exc no output")
                if mapline.startswith("exc"):
                    ctx.violation("mixed:CreateCGTopology:exception", "%s: %s for molecules %s" %
                                  (which, mapline, [m["type"] for m in r["mols"]]), rep)
                    continue
                tok = mapline.split()
                if len(tok) < 4 or not (tok[1].isdigit() and tok[3].isdigit()):
                    ctx.violation("mixed:CreateCGTopology:exception", "%s: unreadable answer %r" % (which, mapline), rep)
                    continue
                if int(tok[1]) != len(exp) or int(tok[3]) != cgmol:
                    ctx.violation("mixed:CreateCGTopology:size", "%s: %s beads in %s CG molecules, expected %d in %d "
                                  "(molecule types %s, %s)" % (which, tok[1], tok[3], len(exp), cgmol,
                                                              [m["type"] for m in r["mols"]],
                                                              "X ignored" if r["ign"] else "X has no definition"), rep)
                    continue
                self.sticky, self.prev = {}, None
                st = {"err": r["err"], "op": "mixed" if ci == 1 else "remap", "typ": r["typ"], "box": r["box"],
                      "pos": [m["pos"] for m in r["mols"]], "pos2": "", "arg": 0}
                self.frame(None, fl, st, out[fi], rep, 0, exp=exp)

    # ---- executable level: csg_map on files written from TLC histories -----------------------------------
    def collect_exec(self, hists, limit):
        """remember histories that a .gro trajectory can express (positions everywhere, velocities for all
        atoms or none, no rejected or half-height frame)"""
        for r in hists:
            if len(self.exec_pool) >= limit and len(self.app_pool) >= 600:
                return
            if r["initerr"] or not r["h"] or any(bd["sym"] == 3 and len(bd["par"]) < 3 for bd in r["md"]["beads"]):
                continue
            fl = r["h"][0]["fl"]
            if not fl["hp"] or fl["hv"] not in ("all", "none") or any(st["fl"] != fl for st in r["h"]):
                continue
            if any(st["err"] != "no" for st in r["h"]):
                continue
            if len(self.app_pool) < 600:
                self.app_pool.append(r)      # frames for the threaded application (exec_app)
            if len(self.exec_pool) >= limit:
                continue
            if len(self.exec_pool) % 2 == 0 and not any(st["op"] == "shift" for st in r["h"]):
                continue                       # every other one must contain an image shift
            self.exec_pool.append(r)

    def exec_csg_map(self, bindir):
        import shutil
        import subprocess
        ctx = self.ctx
        exe = os.path.join(bindir, "csg_map")
        for idx, r in enumerate(self.exec_pool):
            md, fl = r["md"], r["h"][0]["fl"]
            d = vlib.scratch_file("c01-exec-%d" % idx)
            os.makedirs(d, exist_ok=True)
            n = md["n"]
            withvel = fl["hv"] == "all"

            def gro_frame(st):
                lines = ["frame", "%5d" % (2 * n)]
                k = 0
                for mol, pos in enumerate((st["pos"], st["pos2"])):
                    for i, p in enumerate(pos):
                        k += 1
                        ln = "%5d%-5s%5s%5d%8.3f%8.3f%8.3f" % (mol + 1, "R", "A%d" % (i + 1), k,
                                                               p[0] / U, p[1] / U, p[2] / U)
                        if withvel:
                            ln += "%8.4f%8.4f%8.4f" % tuple(float(x) for x in st["vel"][i])
                        lines.append(ln)
                a, b, c = st["box"]
                lines.append(" ".join("%.5f" % (v / U) for v in (a[0], b[1], c[2], a[1], a[2], b[0], b[2], c[0], c[1])))
                return "\n".join(lines) + "\n"

            with open(os.path.join(d, "conf.gro"), "w") as f:
                f.write(gro_frame(r["h"][0]))
            with open(os.path.join(d, "traj.gro"), "w") as f:
                for st in r["h"]:
                    f.write(gro_frame(st))
            with open(os.path.join(d, "top.xml"), "w") as f:
                f.write('<topology base="conf.gro"><molecules><define name="M" first="1" nbeads="%d" nmols="2"/>'
                        '</molecules></topology>\n' % n)
            with open(os.path.join(d, "map.xml"), "w") as f:
                f.write(_xml(md, "1:R:"))
            # csg_map writes mapped velocities only when asked to (--vel)
            p = subprocess.run([exe, "--top", "top.xml", "--trj", "traj.gro", "--cg", "map.xml", "--out", "out.gro"]
                               + (["--vel"] if withvel else []),
                               cwd=d, stdout=subprocess.PIPE, stderr=subprocess.STDOUT, text=True, timeout=120)
            rep = {"history": r, "exec": True}
            ctx.traces += 1
            outp = os.path.join(d, "out.gro")
            if p.returncode != 0 or not os.path.exists(outp):
                ctx.violation("csg_map:failed", "csg_map exit %s: %s" % (p.returncode, p.stdout[-600:]), rep)
                continue
            toks = open(outp).read().split("\n")
            pos = 0
            nb = len(md["beads"])
            for j, st in enumerate(r["h"]):
                try:
                    nat = int(toks[pos + 1])
                    atoms = toks[pos + 2:pos + 2 + nat]
                    boxl = [float(x) for x in toks[pos + 2 + nat].split()]
                    pos += 3 + nat
                except (ValueError, IndexError):
                    ctx.violation("csg_map:frame-missing", "output has no frame %d: %s" % (j, toks[pos:pos + 3]), rep)
                    break
                a, b, c = st["box"]
                expbox = [v / U for v in (a[0], b[1], c[2], a[1], a[2], b[0], b[2], c[0], c[1])]
                if len(boxl) == 3:
                    boxl += [0.0] * 6
                if nat != 2 * nb:
                    ctx.violation("csg_map:bead-count", "frame %d: %d beads, expected %d" % (j, nat, 2 * nb), rep)
                    break
                if any(abs(x - y) > 1.1e-5 for x, y in zip(boxl, expbox)):
                    ctx.violation("csg_map:box", "frame %d: box line %s expected %s" % (j, boxl, expbox), rep)
                exp = list(st["out"]) + list(st["out2"])
                for k, (ln, e) in enumerate(zip(atoms, exp)):
                    try:
                        xyz = [float(ln[20 + 8 * c:28 + 8 * c]) for c in range(3)]
                        if withvel and len(ln) >= 68:
                            [float(ln[44 + 8 * c:52 + 8 * c]) for c in range(3)]
                    except ValueError:
                        ctx.violation("csg_map:output-unreadable", "frame %d CG bead %d: line %r" % (j, k, ln), rep)
                        continue
                    cands = [[x / (e["W"] * U) for x in cnd] for cnd in e["cands"]]
                    if not any(all(abs(x - y) <= 6e-4 for x, y in zip(xyz, cnd)) for cnd in cands):
                        ctx.violation("csg_map:pos", "frame %d (%s) CG bead %d: %s expected %s (box %s, atoms %s / %s)"
                                      % (j, st["op"], k, xyz, cands, st["box"], st["pos"], st["pos2"]), rep)
                    if withvel:
                        if len(ln) < 68:
                            ctx.violation("csg_map:vel-missing", "frame %d CG bead %d has no velocity" % (j, k), rep)
                        else:
                            v = [float(ln[44 + 8 * c:52 + 8 * c]) for c in range(3)]
                            ev = [x / e["W"] for x in e["velnum"]]
                            if any(abs(x - y) > 6e-5 for x, y in zip(v, ev)):
                                ctx.violation("csg_map:vel", "frame %d CG bead %d: velocity %s expected %s"
                                              % (j, k, v, ev), rep)
            shutil.rmtree(d, ignore_errors=True)
        self.stats["csg_map_runs"] = len(self.exec_pool)

    # ---- executable level: a threaded CsgApplication with mapping (--nt 1, 2, 3) ------------------------------
    def exec_app(self, bindir):
        """every frame, whichever worker evaluates it, is mapped from ITS OWN atoms: the real
        CsgApplication (DoMapping, DoThreaded) runs on a trajectory whose frames differ; every worker dumps
        the atomistic frame it was handed and the CG configuration it evaluates"""
        import shutil
        import subprocess
        ctx = self.ctx
        exe = os.path.join(bindir, "drv_cgapp")
        groups = {}
        for r in self.app_pool:
            key = json.dumps([r["md"], r["h"][0]["fl"], r["h"][0]["mass"]], sort_keys=True)
            if any(st["mass"] != r["h"][0]["mass"] for st in r["h"]):
                continue          # a .gro trajectory cannot change masses
            groups.setdefault(key, []).append(r)
        nrun = 0
        for gi, (key, rs) in enumerate(sorted(groups.items())):
            steps, seen = [], set()
            for r in rs:
                for st in r["h"]:
                    ident = json.dumps([st["pos"], st["pos2"]])
                    if ident not in seen:          # distinct frames only: a dumped frame is identified by its atoms
                        seen.add(ident)
                        steps.append(st)
            steps = steps[:9]
            if len(steps) < 4:
                continue
            md, fl = rs[0]["md"], rs[0]["h"][0]["fl"]
            if md["mass"] != rs[0]["h"][0]["mass"]:
                continue          # the xml topology built on a .gro file carries unit masses anyway; keep it simple
            withvel = fl["hv"] == "all"
            d = vlib.scratch_file("c01-app-%d" % gi)
            os.makedirs(d, exist_ok=True)
            self._write_exec(d, md, withvel, steps)
            byatoms = {}
            for j, st in enumerate(steps):
                byatoms[tuple(tuple(p) for p in st["pos"] + st["pos2"])] = j
            for nt in (1, 2, 3):
                nrun += 1
                ctx.traces += 1
                self.stats["app_runs"] = self.stats.get("app_runs", 0) + 1
                rep = {"app": {"md": md, "fl": fl, "nt": nt, "frames": [[st["box"], st["pos"], st["pos2"]] for st in steps]}}
                try:
                    p = subprocess.run([exe, "--top", "top.xml", "--trj", "traj.gro", "--cg", "map.xml", "--nt", str(nt)],
                                       cwd=d, stdout=subprocess.PIPE, stderr=subprocess.STDOUT, text=True, timeout=120)
                except subprocess.TimeoutExpired:
                    ctx.violation("csgapp:timeout", "threaded application with --nt %d did not finish" % nt, rep)
                    continue
                if p.returncode != 0:
                    ctx.violation("csgapp:failed", "--nt %d: exit %s: %s" % (nt, p.returncode, p.stdout[-500:]), rep)
                    continue
                frames, cur = [], None
                for ln in p.stdout.splitlines():
                    if not ln.startswith("DUMP "):
                        continue
                    t = ln.split()
                    if t[1] == "frame":
                        cur = {"worker": t[3], "ref": [], "cg": [], "cgbox": None}
                    elif cur is None:
                        continue
                    elif t[1] == "ref":
                        cur["ref"].append(t[2:5])
                    elif t[1] == "cgbox":
                        cur["cgbox"] = t[2:11]
                    elif t[1] == "cg":
                        cur["cg"].append(t)
                    elif t[1] == "endframe":
                        frames.append(cur)
                        cur = None
                if len(frames) != len(steps):
                    ctx.violation("csgapp:frame-count", "--nt %d: %d frames evaluated, the trajectory has %d" %
                                  (nt, len(frames), len(steps)), rep)
                tag_nt = "nt1" if nt == 1 else "ntN"
                for fr in frames:
                    try:
                        atoms = tuple(tuple(int(round(float(x) * U)) for x in a) for a in fr["ref"])
                    except (ValueError, OverflowError):
                        atoms = None
                    j = byatoms.get(atoms)
                    if j is None:
                        ctx.violation("csgapp:unknown-frame", "--nt %d worker %s evaluated a frame that is not in the "
                                      "trajectory: atoms %s" % (nt, fr["worker"], fr["ref"]), rep)
                        continue
                    st = steps[j]
                    self.stats["app_frames_worker" + ("0" if fr["worker"] == "0" else "N")] = \
                        self.stats.get("app_frames_worker" + ("0" if fr["worker"] == "0" else "N"), 0) + 1
                    exp = list(st["out"]) + list(st["out2"])
                    where = "--nt %d, worker %s, trajectory frame %d (box %s)" % (nt, fr["worker"], j, st["box"])
                    try:
                        cgbox = [float(x) for x in fr["cgbox"]]
                        beads = [{"mass": float(t[4]), "hp": t[6] == "1", "pos": [float(x) for x in t[7:10]],
                                  "hv": t[11] == "1", "vel": [float(x) for x in t[12:15]]} for t in fr["cg"]]
                        if any(len(b["pos"]) != 3 or len(b["vel"]) != 3 for b in beads):
                            raise ValueError("short line")
                    except (ValueError, IndexError, TypeError):
                        ctx.violation("csgapp:output-unreadable", "%s: %s" % (where, fr["cg"][:2]), rep)
                        continue
                    if cgbox != [st["box"][c][i] / U for i in range(3) for c in range(3)]:
                        ctx.violation("csgapp:cgbox:%s" % tag_nt, "%s: CG box %s" % (where, cgbox), rep)
                    if len(beads) != len(exp):
                        ctx.violation("csgapp:bead-count", "%s: %d CG beads, expected %d" % (where, len(beads), len(exp)), rep)
                        continue
                    for k, (b, e) in enumerate(zip(beads, exp)):
                        cands = [[x / (e["W"] * U) for x in cnd] for cnd in e["cands"]]
                        if not b["hp"] or not any(_vclose(b["pos"], cnd) for cnd in cands):
                            ctx.violation("csgapp:pos:%s" % tag_nt, "%s: CG bead %d at %s, but the map of the atoms of THIS "
                                          "frame is %s (atoms %s / %s)" % (where, k, b["pos"], cands, st["pos"], st["pos2"]), rep)
                        if withvel:
                            ev = [x / e["W"] for x in e["velnum"]]
                            if not b["hv"] or not _vclose(b["vel"], ev):
                                ctx.violation("csgapp:vel:%s" % tag_nt, "%s: CG bead %d velocity %s expected %s" %
                                              (where, k, b["vel"], ev), rep)
            shutil.rmtree(d, ignore_errors=True)
            if nrun >= (9 if self.ctx.quick else 45):
                break

    # ---- executable level: many molecules per frame, many frames, --nt 4 and 8 (OS schedule) -------------------
    def exec_app_stress(self, bindir):
        """the per-frame result must not depend on what other workers are doing at the same time: frames of
        NM molecules are tiled from single-molecule instances whose CG image TLC computed (same box inside
        a frame), so each Apply() is long enough for mapping calls of different workers to overlap under the
        OS scheduler.  Deterministic code gives the spec's answer on every run; state shared between mapping
        calls of different threads (a static scratch buffer, a cached unwrapped position) shows as a wrong
        bead, a crash or a hang.  Detection is probabilistic, acceptance is not: nothing here depends on timing
        when the property holds."""
        import shutil
        import subprocess
        ctx = self.ctx
        exe = os.path.join(bindir, "drv_cgapp")
        rnd = random.Random(ctx.seed * 7919 + 11)
        groups = {}
        for r in self.app_pool:
            if any(st["mass"] != r["md"]["mass"] for st in r["h"]):
                continue
            for st in r["h"]:
                key = json.dumps([r["md"], st["fl"], st["box"]], sort_keys=True)
                g = groups.setdefault(key, {"md": r["md"], "fl": st["fl"], "box": st["box"], "inst": {}})
                for pos, out in ((st["pos"], st["out"]), (st["pos2"], st["out2"])):
                    if st["fl"]["hv"] == "all":
                        ident = json.dumps([pos, st["vel"]])
                    else:
                        ident = json.dumps(pos)
                    g["inst"].setdefault(ident, {"pos": pos, "vel": st.get("vel"), "out": list(out)})
        ranked = sorted(groups.items(), key=lambda kv: (-len(kv[1]["inst"]) * kv[1]["md"]["n"], kv[0]))
        ranked = [kv for kv in ranked if len(kv[1]["inst"]) >= 4 and kv[1]["md"]["n"] >= 2]
        # rep: every CG bead definition is repeated `rep` times in the mapping file, so that mapping a frame
        # (done by the workers in parallel) costs more than reading it (done under the reader lock, serially);
        # without this the workers' Apply() calls hardly ever overlap
        ngroups, nm, nf, rep_ = (2, 60, 40, 24) if ctx.quick else (6, 80, 80, 24)
        for gi, (key, g) in enumerate(ranked[:ngroups]):
            md, fl, box = g["md"], g["fl"], g["box"]
            n = md["n"]
            withvel = fl["hv"] == "all"
            inst = [g["inst"][k] for k in sorted(g["inst"])]
            frames, seen = [], set()
            while len(frames) < nf:
                pick = [rnd.randrange(len(inst)) for _ in range(nm)]
                if tuple(pick) in seen:
                    continue
                seen.add(tuple(pick))
                frames.append(pick)
            d = vlib.scratch_file("c01-stress-%d" % gi)
            os.makedirs(d, exist_ok=True)

            def gro_frame(pick):
                lines = ["frame", "%5d" % (nm * n)]
                k = 0
                for mol, ii in enumerate(pick):
                    it = inst[ii]
                    for i, p in enumerate(it["pos"]):
                        k += 1
                        ln = "%5d%-5s%5s%5d%8.3f%8.3f%8.3f" % (mol + 1, "R", "A%d" % (i + 1), k, p[0] / U, p[1] / U, p[2] / U)
                        if withvel:
                            ln += "%8.4f%8.4f%8.4f" % tuple(float(x) for x in it["vel"][i])
                        lines.append(ln)
                a, b, c = box
                lines.append(" ".join("%.5f" % (v / U) for v in (a[0], b[1], c[2], a[1], a[2], b[0], b[2], c[0], c[1])))
                return "\n".join(lines) + "\n"

            with open(os.path.join(d, "conf.gro"), "w") as f:
                f.write(gro_frame(frames[0]))
            with open(os.path.join(d, "traj.gro"), "w") as f:
                for pick in frames:
                    f.write(gro_frame(pick))
            with open(os.path.join(d, "top.xml"), "w") as f:
                f.write('<topology base="conf.gro"><molecules><define name="M" first="1" nbeads="%d" nmols="%d"/>'
                        '</molecules></topology>\n' % (n, nm))
            with open(os.path.join(d, "map.xml"), "w") as f:
                f.write(_xml(dict(md, beads=list(md["beads"]) * rep_), "1:R:"))
            byatoms = {}
            for j, pick in enumerate(frames):
                byatoms[tuple(tuple(p) for ii in pick for p in inst[ii]["pos"])] = j
            if len(byatoms) != len(frames):
                shutil.rmtree(d, ignore_errors=True)
                continue          # two picks with the same atoms (instances that differ in velocity only)
            for nt in (8, 4):
                ctx.traces += 1
                self.stats["stress_runs"] = self.stats.get("stress_runs", 0) + 1
                rep = {"app_stress": {"md": md, "fl": fl, "box": box, "nt": nt, "nmol": nm, "nframes": nf, "bead_repeat": rep_,
                                      "instances": [[it["pos"], it["vel"] if withvel else None] for it in inst],
                                      "frames": frames}}
                try:
                    p = subprocess.run([exe, "--top", "top.xml", "--trj", "traj.gro", "--cg", "map.xml", "--nt", str(nt)],
                                       cwd=d, stdout=subprocess.PIPE, stderr=subprocess.STDOUT, text=True, timeout=300)
                except subprocess.TimeoutExpired:
                    ctx.violation("csgapp:stress:timeout", "threaded application with --nt %d, %d molecules, %d frames "
                                  "did not finish" % (nt, nm, nf), rep)
                    continue
                if p.returncode != 0:
                    ctx.violation("csgapp:stress:failed", "--nt %d, %d molecules: exit %s: %s" %
                                  (nt, nm, p.returncode, p.stdout[-300:]), rep)
                    continue
                got, cur = [], None
                for ln in p.stdout.splitlines():
                    if not ln.startswith("DUMP "):
                        continue
                    t = ln.split()
                    if t[1] == "frame":
                        cur = {"worker": t[3], "ref": [], "cg": []}
                    elif cur is None:
                        continue
                    elif t[1] == "ref":
                        cur["ref"].append(t[2:5])
                    elif t[1] == "cg":
                        cur["cg"].append(t)
                    elif t[1] == "endframe":
                        got.append(cur)
                        cur = None
                if len(got) != len(frames):
                    ctx.violation("csgapp:stress:frame-count", "--nt %d: %d frames evaluated, the trajectory has %d" %
                                  (nt, len(got), len(frames)), rep)
                workers = set()
                bad = 0
                for fr in got:
                    try:
                        atoms = tuple(tuple(int(round(float(x) * U)) for x in a) for a in fr["ref"])
                    except (ValueError, OverflowError):
                        atoms = None
                    j = byatoms.get(atoms)
                    if j is None:
                        ctx.violation("csgapp:stress:unknown-frame", "--nt %d worker %s evaluated a frame that is not in "
                                      "the trajectory" % (nt, fr["worker"]), rep)
                        continue
                    workers.add(fr["worker"])
                    exp = [e for ii in frames[j] for e in list(inst[ii]["out"]) * rep_]
                    if len(fr["cg"]) != len(exp):
                        ctx.violation("csgapp:stress:bead-count", "--nt %d frame %d: %d CG beads, expected %d" %
                                      (nt, j, len(fr["cg"]), len(exp)), rep)
                        continue
                    for k, (t, e) in enumerate(zip(fr["cg"], exp)):
                        self.stats["stress_beads"] = self.stats.get("stress_beads", 0) + 1
                        try:
                            hp, pos = t[6] == "1", [float(x) for x in t[7:10]]
                            hv, vel = t[11] == "1", [float(x) for x in t[12:15]]
                            if len(pos) != 3 or len(vel) != 3:
                                raise ValueError("short line")
                        except (ValueError, IndexError):
                            ctx.violation("csgapp:stress:output-unreadable", "--nt %d frame %d: %s" % (nt, j, t), rep)
                            break
                        cands = [[x / (e["W"] * U) for x in cnd] for cnd in e["cands"]]
                        if not hp or not any(_vclose(pos, cnd) for cnd in cands):
                            bad += 1
                            if bad <= 3:
                                ctx.violation("csgapp:stress:pos", "--nt %d, worker %s, frame %d: CG bead %d (molecule %d of "
                                              "%d) at %s, but the map of ITS atoms is %s" %
                                              (nt, fr["worker"], j, k, k // max(1, len(inst[0]["out"]) * rep_), nm, pos, cands), rep)
                        if withvel:
                            ev = [x / e["W"] for x in e["velnum"]]
                            if not hv or not _vclose(vel, ev):
                                bad += 1
                                if bad <= 3:
                                    ctx.violation("csgapp:stress:vel", "--nt %d, worker %s, frame %d: CG bead %d velocity %s "
                                                  "expected %s" % (nt, fr["worker"], j, k, vel, ev), rep)
                self.stats["stress_max_workers"] = max(self.stats.get("stress_max_workers", 0), len(workers))
            shutil.rmtree(d, ignore_errors=True)

    def _write_exec(self, d, md, withvel, steps):
        n = md["n"]

        def gro_frame(st):
            lines = ["frame", "%5d" % (2 * n)]
            k = 0
            for mol, pos in enumerate((st["pos"], st["pos2"])):
                for i, p in enumerate(pos):
                    k += 1
                    ln = "%5d%-5s%5s%5d%8.3f%8.3f%8.3f" % (mol + 1, "R", "A%d" % (i + 1), k, p[0] / U, p[1] / U, p[2] / U)
                    if withvel:
                        ln += "%8.4f%8.4f%8.4f" % tuple(float(x) for x in st["vel"][i])
                    lines.append(ln)
            a, b, c = st["box"]
            lines.append(" ".join("%.5f" % (v / U) for v in (a[0], b[1], c[2], a[1], a[2], b[0], b[2], c[0], c[1])))
            return "\n".join(lines) + "\n"

        with open(os.path.join(d, "conf.gro"), "w") as f:
            f.write(gro_frame(steps[0]))
        with open(os.path.join(d, "traj.gro"), "w") as f:
            for st in steps:
                f.write(gro_frame(st))
        with open(os.path.join(d, "top.xml"), "w") as f:
            f.write('<topology base="conf.gro"><molecules><define name="M" first="1" nbeads="%d" nmols="2"/>'
                    '</molecules></topology>\n' % n)
        with open(os.path.join(d, "map.xml"), "w") as f:
            f.write(_xml(md, "1:R:"))

    # ---- opposite direction: random frames of the real code, judged by TLC ------------------------------
    def random_frames(self, nscen, nframes):
        ctx = self.ctx
        rnd = random.Random(ctx.seed * 104729 + 5)
        items, meta = [], []
        for si in range(nscen):
            n = rnd.randint(1, 4)
            mass = [rnd.randint(1, 16) for _ in range(n)]
            beads = []
            for _ in range(rnd.randint(1, 2)):
                np_ = rnd.randint(3 if n >= 3 and rnd.random() < 0.2 else 1, n)
                par = rnd.sample(range(1, n + 1), np_)
                while True:
                    w = [rnd.randint(0, 3) for _ in par]
                    if sum(w) > 0:
                        break
                d = []
                if rnd.random() < 0.5:
                    while True:
                        d = [0 if wi == 0 else rnd.randint(0, 3) for wi in w]
                        if sum(d) > 0:
                            break
                sym = 3 if np_ >= 3 and rnd.random() < 0.25 else 1
                beads.append({"par": par, "w": w, "d": d, "sym": sym})
            md = {"n": n, "mass": mass, "beads": beads}
            fl = {"hp": rnd.random() < 0.9, "hv": rnd.choice(["all", "none", "first", "notfirst"]),
                  "hf": rnd.choice(["all", "none", "first", "notfirst"])}
            cmds = ["top 1 %d %s" % (n, " ".join(str(m) for m in mass)), "map " + self.xmlfile(md)]
            frames = []
            for _ in range(nframes):
                kind = rnd.choice(["open", "ortho", "tric", "tric"])
                ax, by, cz = (rnd.randint(4, 12) for _ in range(3))
                if kind == "open":
                    cols = [[0, 0, 0], [0, 0, 0], [0, 0, 0]]
                elif kind == "ortho":
                    cols = [[ax, 0, 0], [0, by, 0], [0, 0, cz]]
                else:
                    def off(lim):
                        return rnd.choice([-(lim // 2), lim // 2, rnd.randint(-(lim // 2), lim // 2)])
                    cols = [[ax, 0, 0], [off(ax), by, 0], [off(ax), off(by), cz]]
                    if cols[1][0] == 0 and cols[2][0] == 0 and cols[2][1] == 0:
                        cols[2][1] = by // 2
                base = [rnd.randint(-16, 32) for _ in range(3)]
                spread = rnd.choice([1, 2, 3, 5])
                pos = []
                for i in range(n):
                    p = [base[c] + rnd.randint(-spread, spread) for c in range(3)]
                    if kind != "open" and rnd.random() < 0.6:
                        k = [rnd.randint(-40, 40) for _ in range(3)]
                        p = [p[c] + sum(k[j] * cols[j][c] for j in range(3)) for c in range(3)]
                    pos.append(p)
                vel = [[rnd.randint(-6, 6) for _ in range(3)] for _ in range(n)]
                frc = [[rnd.randint(-6, 6) for _ in range(3)] for _ in range(n)]
                frames.append((cols, pos, vel, frc))
                cmds.append(_frame_cmd(cols, [pos], vel, frc, fl))
            items.append((si, cmds))
            meta.append((md, fl, frames))
        results, crashes = vlib.run_items(self.exe, items)
        recs, info = [], []
        for si, (md, fl, frames) in enumerate(meta):
            if si in crashes:
                ctx.violation("Apply:crash", crashes[si], {"random": {"md": md}})
                continue
            out = results[si]
            mapline = next((ln for ln in out[1] if ln.startswith(("ok", "exc"))), "exc no output")
            if mapline.startswith("exc"):
                ctx.violation("CreateCGTopology:exception", "%s for %s" % (mapline, md), {"random": {"md": md}})
                continue
            for j, (cols, pos, vel, frc) in enumerate(frames):
                kind, o = _parse_frame(out[2 + j])
                rec = {"id": len(recs), "md": md, "fl": fl, "box": cols, "pos": pos, "vel": vel, "frc": frc}
                if kind == "exc":
                    if "bigger than half" not in " ".join(out[2 + j]):
                        ctx.violation("Apply:exception", "unexpected %s" % o, {"random": rec})
                        continue
                    rec["threw"] = True
                    rec["obs"] = []
                else:
                    rec["threw"] = False
                    obs, bad = [], False
                    if len(o["beads"]) != len(md["beads"]):
                        ctx.violation("Apply:bead-count", "%d CG beads, expected %d: %s" %
                                      (len(o["beads"]), len(md["beads"]), rec), {"random": rec})
                        continue
                    nan = None
                    for k, b in enumerate(o["beads"]):
                        bd = md["beads"][k]
                        W = sum(bd["w"])
                        # observations as integers over the denominators W*8 (pos), W (vel), fden (force)
                        dd = bd["d"] if bd["d"] else bd["w"]
                        fden = 1
                        for wi in bd["w"]:
                            if wi:
                                fden = fden * wi
                        fden *= sum(dd)
                        ob = {"hp": b["hp"], "hv": b["hv"], "hf": b["hf"], "W": W, "fden": fden}
                        for name, vec, den in (("pos", b["pos"], W * U), ("vel", b["vel"], W), ("f", b["f"], fden)):
                            ints = []
                            if _nonfinite(vec):       # NaN / inf is an observation (a wrong value), not an error
                                nan = nan or ("%s:%s:nan" % ({"f": "force"}.get(name, name),
                                                             "sphere" if bd["sym"] == 1 else "ellipsoid"), b)
                                vec = [0.0, 0.0, 0.0]
                            for x in vec:
                                y = x * den
                                if abs(y - round(y)) > 1e-7 * max(1.0, abs(y)):
                                    bad = True
                                ints.append(int(round(y)))
                            ob[name] = ints
                        m = b["mass"]
                        if not math.isfinite(m):
                            nan = nan or ("mass:%s:nan" % ("sphere" if bd["sym"] == 1 else "ellipsoid"), b)
                            m = 0.0
                        if abs(m - round(m)) > 1e-9:
                            bad = True
                        ob["mass"] = int(round(m))
                        ob["cgtyp"] = o["type"]
                        ob["boxok"] = o["box"] == [cols[c][i] / U for i in range(3) for c in range(3)]
                        obs.append(ob)
                    if nan:
                        ctx.violation(nan[0], "CG bead value is not finite: %s for the random frame %s" % (nan[1], rec),
                                      {"random": rec})
                        continue
                    if bad:
                        ctx.violation("Apply:off-lattice", "CG bead values are not on the expected rational lattice: "
                                      "%s for %s" % (o["beads"], rec), {"random": rec})
                        continue
                    rec["obs"] = obs
                recs.append(rec)
                info.append(rec)
        if not recs:
            return
        path = vlib.scratch_file("c01-trace.ndjson")
        vlib.write_ndjson(path, recs)
        res = vlib.tlc("cgmap", "TraceCg", cfg="TraceCg.cfg", env={"TRACE": path}, timeout=1500)
        vlib.tlc_must_hold(res, "TraceCg (well-formed trace, certified image window)")
        ctx.add_tlc("TraceCg(random)", res)
        verdicts = {v["id"]: v for v in res.records}
        if len(verdicts) != len(recs):
            raise vlib.InfraError("TraceCg returned %d verdicts for %d records" % (len(verdicts), len(recs)))
        for rec in info:
            v = verdicts[rec["id"]]
            ctx.traces += 1
            if v["err"] != "no":
                ctx.nontriv(("rnd", rec["id"]))
            for clause in v["bad"]:
                ctx.violation(":".join(clause), "TLC rejects the observation (%s) of the random frame %s" %
                              (":".join(clause), {k: rec[k] for k in ("md", "fl", "box", "pos", "threw", "obs")}),
                              {"random": rec})
        ctx.sample({"random_frame": {k: recs[0][k] for k in ("md", "fl", "box", "pos", "obs", "threw")},
                    "verdict": verdicts[0]})
        os.unlink(path)


def run(ctx):
    bindir = vlib.ensure_build(["drv_cgmap", "csg_map", "drv_cgapp"])
    chk = _Checker(ctx, bindir + "/drv_cgmap")
    quick = ctx.quick
    ctx.rule = ("one trace = one call history (2 molecules, map created once, then Depth frames each followed by "
                "TopologyMap::Apply) exported by TLC and replayed, or one random frame of the real code judged by "
                "TLC; non-trivial = history containing an image shift, translation, rejection or half-height edge")
    ctx.assumptions += [
        "lattice: positions/box k/8 nm, velocities/forces/masses integers, weights and d in 0..3",
        "the box type used for mapping is the auto-detected one (TopologyMap::Apply calls setBox(matrix))",
        "a parent with weight 0 has d 0 (else the map is refused) and contributes nothing to the force; it counts "
        "for the mass and for the size check",
        "exactly at half the shortest box height, and on periodic ties, either outcome is admitted",
        "positions are present for all atoms or for none; flags do not change within a history"]
    try:
        if getattr(ctx, "replay", None):
            obj = json.load(open(ctx.replay))["replay"]
            if "history" in obj:
                chk.histories([obj["history"]])
            else:
                raise vlib.InfraError("replay of random frames: re-run with --seed %s" % ctx.seed)
            return

        # ---- 1. the statement's consequences on the spec itself ----------------------------------------
        res = vlib.tlc("cgmap", "MCCg", cfg="MCCgTheorems.cfg", timeout=1500,
                       extra=[], env={})
        vlib.tlc_must_hold(res, "CgHist theorems: image invariance, translation covariance, hull, error iff too big, "
                                "agreement with the sequential reduction")
        ctx.add_tlc("MCCgTheorems", res)

        # ---- 2. exhaustive histories -------------------------------------------------------------------------
        cfg = "MCCgHistQuick.cfg" if quick else "MCCgHistThorough.cfg"
        picks = [lambda r: any(s["op"] == "shift" for s in r["h"]) and all(s["err"] == "no" and s["fl"]["hp"] for s in r["h"]), lambda r: any(s["err"] == "yes" for s in r["h"]),
                 lambda r: any(s["typ"] == "open" for s in r["h"]) and len(r["md"]["beads"]) == 2]
        # thorough: one run per mapping definition (keeps the exported histories of one run in memory only)
        for sel in ([None] if quick else list(range(1, 11))):
            res = vlib.tlc("cgmap", "MCCg", cfg=cfg, timeout=2400, env=({} if sel is None else {"C01_MD": sel}))
            vlib.tlc_must_hold(res, "CgHist invariants")
            ctx.add_tlc(cfg[:-4] + ("" if sel is None else "[md %d]" % sel), res)
            hists = res.records
            if not hists:
                raise vlib.InfraError("no histories exported")
            res.out = ""
            chk.histories(hists)
            chk.collect_exec(hists, (12 if quick else 40) * (1 if sel is None else sel) // (1 if sel is None else 10) + 1)
            for pick in list(picks):
                for r in hists:
                    if pick(r):
                        ctx.sample({"history": r})
                        picks.remove(pick)
                        break
            del hists, res

        # ---- 2b. several molecule types, several definitions, ignored / unknown types, CGEngine reuse -----------
        cfg = "MCCgMixedQuick.cfg" if quick else "MCCgMixedThorough.cfg"
        res = vlib.tlc("cgmap", "MCCgMixed", cfg=cfg, timeout=2400)
        vlib.tlc_must_hold(res, "CgMixed invariants")
        ctx.add_tlc(cfg[:-4], res)
        chk.mixed(res.records)
        if res.records:
            ctx.sample({"mixed": res.records[len(res.records) // 3]})
        del res

        # ---- 3. deeper simulated histories ------------------------------------------------------------------------
        for batch in range(1 if quick else 3):
            res = vlib.tlc("cgmap", "MCCg", cfg="MCCgSim.cfg", timeout=2400, simulate=(6 if quick else 50), depth=5,
                           workers=4, seed=ctx.seed * 100 + batch)
            vlib.tlc_must_hold(res, "CgHist simulation")
            ctx.add_tlc("MCCgSim(simulate %d)" % batch, res)
            sims = [r for r in res.records if not r["initerr"]]
            res.out = ""
            chk.histories(sims)
            chk.collect_exec(sims, 20 if quick else 80)
            del sims, res
        st = chk.stats
        if not (st["err_yes"] and st["err_no"] and st["err_either"] and st["open"] and st["boxchange"]
                and st["ops"].get("shift") and st["ops"].get("trans") and st.get("flagchange") and st.get("orient_u")
                and st.get("orient_rel") and st.get("mixed_ignored") and st.get("mixed_unknown")
                and st["ops"].get("remap") and st.get("masschange_between_applies")
                and st.get("masschange_before_first_apply")):
            raise vlib.InfraError("vacuous history set: %s" % st)

        # ---- 4. executable level: csg_map gro -> gro -----------------------------------------------------------------
        chk.exec_csg_map(bindir)
        # ---- 4b. executable level: threaded CsgApplication with mapping, --nt 1, 2, 3 -----------------------------
        chk.exec_app(bindir)
        if not (st.get("app_frames_worker0") and st.get("app_frames_workerN")):
            raise vlib.InfraError("vacuous threaded-application layer: %s" % {k: v for k, v in st.items() if k.startswith("app")})
        # ---- 4c. the same application under load: 120-200 molecules per frame, --nt 8 and 4, OS schedule -----------
        chk.exec_app_stress(bindir)
        if not (st.get("stress_runs") and st.get("stress_beads") and st.get("stress_max_workers", 0) >= 2):
            raise vlib.InfraError("vacuous stress layer: %s" % {k: v for k, v in st.items() if k.startswith("stress")})

        # ---- 5. opposite direction ----------------------------------------------------------------------------------
        if quick:
            chk.random_frames(150, 6)
        else:
            chk.random_frames(3000, 8)
        ctx.extra["c01"] = st
        ctx.exhaustive = False
    finally:
        chk.cleanup()
