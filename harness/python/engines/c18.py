"""C18 - selection patterns, ranges and index lists denote exactly what they say.
spec/rangeglob: GlobSpec (glob meaning), Glob (wildcmp transcription), Select (bead / property
selection), TraceGlob (validation of logged wildcmp results), Range (RangeParser), IndexSet
(xtp::IndexParser).  Mode L throughout: TLC checks Algo = Spec on a bounded domain and exports
{input, expected} vectors that are replayed into the real code by drv_rangeglob."""
import json
import math
import random
import vlib

MANIFEST = dict(
    engine="rangeglob", design_ref="DESIGN.md 5/C18",
    technique="TLA+ specs (declarative glob / arithmetic-progression / index-set meaning vs step-by-step "
              "transcriptions of wildcmp, RangeParser and IndexParser) model-checked with TLC; TLC-exported vectors "
              "replayed into the real functions (ASan+assert driver, iteration under a step budget); logged wildcmp "
              "results on longer random inputs validated by TLC against the spec",
    text="TLC enumerates every pattern over {a,b,*,?} and string over {a,b,*} up to the configured length, every "
         "range expression with begin/stride/end in the window (incl. zero/negative strides, malformed blocks, "
         "multi-block expressions) and every index set/vector/token string of the domain; on all of them the "
         "transcribed algorithms terminate, stay in bounds and equal the declarative meaning, and every exported "
         "vector is replayed into tools::wildcmp (both overloads), BeadList::Generate, Property::Select, "
         "RangeParser::Parse + iteration + operator<< + re-parse, and xtp::IndexParser both ways, comparing with the "
         "expectation computed by TLC.",
    note="Trusted: TLC, the text rendering of expressions in the harness, the driver protocol. Not asserted: "
         "partially numeric or empty fields ('1x', '1:', '1::3'), the empty expression, RangeParser::Add, integer "
         "overflow, GenerateInSphericalSubvolume, descending index tokens ('5:3').")

NONNUM = 99
BUDGET = 1000


def S(chars):
    return "".join(chars)


def tok(chars):
    return "=" + S(chars)


def first(lines, tag):
    for ln in lines:
        if ln == tag or ln.startswith(tag + " "):
            return ln[len(tag) + 1:] if len(ln) > len(tag) else ""
    return None


def ints(text):
    return [int(x) for x in text.split()]


# ------------------------------------------------------------------------------------
# wildcmp
# ------------------------------------------------------------------------------------

def pat_class(p):
    ns = p.count("*")
    if ns >= 2:
        return "multi-star"
    if ns == 1:
        return "star"
    if "?" in p:
        return "qmark"
    return "literal"


def glob_items(by_pat):
    """by_pat: {pattern string: [(subject string, expected bool), ...]} -> items"""
    items = []
    for p in sorted(by_pat):
        items.append((p, ["wild =%s %s" % (p, " ".join("=" + s for s, _ in by_pat[p]))]))
    return items


def judge_glob(ctx, p, subjects, out, crash):
    if crash is not None:
        ctx.violation("wildcmp:crash:" + pat_class(p), "driver aborted (memory error?) on pattern '%s': ... %s" % (p, crash[-400:]),
                      {"kind": "glob", "p": p, "subjects": subjects})
        return
    c = first(out[0], "c")
    s = first(out[0], "s")
    if c is None or s is None or len(c) != len(subjects) or len(s) != len(subjects):
        ex = first(out[0], "exc")
        raise vlib.InfraError("driver protocol error on wild '%s': %s %s" % (p, out[0][:3], ex))
    for k, (subj, exp) in enumerate(subjects):
        ctx.count()
        for ov, bits in (("cstr", c), ("string", s)):
            got = bits[k] == "1"
            if got != exp:
                kind = "false-accept" if got else "false-reject"
                ctx.violation("wildcmp:%s:%s:%s" % (ov, kind, pat_class(p)),
                              "wildcmp('%s','%s') = %d but the glob meaning is %s" % (p, subj, got, exp),
                              {"kind": "glob", "p": p, "subjects": [(subj, exp)]})


def run_glob(ctx, exe):
    mod = "MCGlobQuick" if ctx.quick else "MCGlobThorough"
    res = vlib.tlc("rangeglob", mod, cfg=mod + ".cfg", timeout=1700)
    vlib.tlc_must_hold(res, "Glob: wildcmp transcription terminates, stays in bounds, equals SpecMatch")
    ctx.add_tlc(mod, res)
    by_pat = {}
    for r in res.records:
        by_pat.setdefault(S(r["p"]), []).append((S(r["s"]), bool(r["m"])))
        if r["m"] and ("*" in r["p"] or "?" in r["p"]) or r["n"] > len(r["p"]) + 3:
            ctx.nontriv(("glob", S(r["p"]), S(r["s"])))
    nvec = sum(len(v) for v in by_pat.values())
    if nvec == 0 or nvec != len(res.records):
        raise vlib.InfraError("glob vector export incomplete: %d records" % len(res.records))
    items = glob_items(by_pat)
    results, crashes = vlib.run_items(exe, items)
    for p, _ in items:
        judge_glob(ctx, p, by_pat[p], results.get(p), crashes.get(p))
    ctx.sample({"glob": {"pattern": "a*b?", "vectors": sorted(by_pat.get("a*b?", []), key=lambda v: (not v[1], -len(v[0])))[:3]
                                                          + sorted(by_pat.get("a*b?", []), key=lambda v: (v[1], -len(v[0])))[:3]}})
    ctx.extra["glob_vectors"] = nvec
    if not ctx.quick:
        # design level only, no export: the length named in the property statement
        res = vlib.tlc("rangeglob", "MCGlobDeep", cfg="MCGlobDeep.cfg", timeout=1700)
        vlib.tlc_must_hold(res, "Glob (length 6): wildcmp transcription terminates, stays in bounds, equals SpecMatch")
        ctx.add_tlc("MCGlobDeep", res)


def random_pattern_and_subjects(rng, alpha, plen, slen, nsub):
    base = [rng.choice(alpha) for _ in range(rng.randint(0, slen))]
    # derive a pattern from the base string so that matches are frequent
    p = []
    i = 0
    while i < len(base) and len(p) < plen:
        u = rng.random()
        if u < 0.22:
            p.append("*")
            i += rng.randint(0, 3)
        elif u < 0.37:
            p.append("?")
            i += 1
        else:
            p.append(base[i])
            i += 1
    if rng.random() < 0.3 and len(p) < plen:
        p.append("*")
    subs = [list(base)]
    while len(subs) < nsub:
        t = list(base)
        for _ in range(rng.randint(0, 3)):
            u = rng.random()
            if t and u < 0.4:
                t[rng.randrange(len(t))] = rng.choice(alpha)
            elif t and u < 0.7:
                del t[rng.randrange(len(t))]
            elif len(t) < slen:
                t.insert(rng.randint(0, len(t)), rng.choice(alpha))
        subs.append(t)
    return p, subs


def run_glob_trace(ctx, exe):
    """opposite direction: the real wildcmp on inputs outside the exhaustive domain, judged by TLC"""
    rng = random.Random(ctx.seed * 7919 + 18)
    groups = []    # list of subject lists
    pats = []      # (pattern chars, group index 1-based)
    n_rand = 400 if ctx.quick else 4000
    for _ in range(n_rand):
        p, subs = random_pattern_and_subjects(rng, ["a", "b", "c"], 10, 12, 8)
        groups.append(subs)
        pats.append((p, len(groups)))
    if not ctx.quick:
        # every pattern over {a,b,*,?} of length exactly 6 against every string over {a,b} up to length 6,
        # plus a few strings with a literal '*'
        import itertools
        subs = [list(t) for n in range(0, 7) for t in itertools.product("ab", repeat=n)]
        subs += [list("*"), list("a*"), list("*b"), list("a*b"), list("**"), list("ab*ab")]
        groups.append(subs)
        g = len(groups)
        for t in itertools.product("ab*?", repeat=6):
            pats.append((list(t), g))
    items = []
    for k, (p, g) in enumerate(pats):
        items.append((k, ["wild %s %s" % (tok(p), " ".join(tok(s) for s in groups[g - 1]))]))
    results, crashes = vlib.run_items(exe, items)
    recs = []
    for k, (p, g) in enumerate(pats):
        if k in crashes:
            ctx.violation("wildcmp:crash:" + pat_class(S(p)), "driver aborted on pattern '%s': ... %s" % (S(p), crashes[k][-400:]),
                          {"kind": "glob", "p": S(p), "subjects": [(S(s), None) for s in groups[g - 1]]})
            continue
        c = first(results[k][0], "c")
        s = first(results[k][0], "s")
        if c is None or len(c) != len(groups[g - 1]):
            raise vlib.InfraError("driver protocol error on wild '%s': %s" % (S(p), results[k][0][:3]))
        if c != s:
            ctx.violation("wildcmp:overloads-differ", "wildcmp(const char*) and wildcmp(std::string) differ on '%s'" % S(p),
                          {"kind": "glob", "p": S(p), "subjects": [(S(x), None) for x in groups[g - 1]]})
        recs.append({"p": p, "g": g, "m": [j + 1 for j, b in enumerate(c) if b == "1"]})
    tpath = vlib.scratch_file("c18-globtrace.ndjson")
    spath = vlib.scratch_file("c18-globsubj.ndjson")
    vlib.write_ndjson(tpath, recs)
    vlib.write_ndjson(spath, [{"s": g} for g in groups])
    env = {"TRACE": tpath, "SUBJ": spath}
    res = vlib.tlc("rangeglob", "TraceGlob", cfg="TraceGlob.cfg", timeout=1700, env=env)
    if not res.ok:
        res2 = vlib.tlc("rangeglob", "TraceGlob", cfg="TraceGlob.cfg", timeout=1700, env=env)   # DESIGN 7.7: re-run once
        if not res2.ok:
            bad = [r["bad"] for r in res2.records if isinstance(r, dict) and "bad" in r]
            what = "?"
            if bad:
                what = "pattern '%s', matched subject indices %s of group %d" % (S(bad[0]["p"]), bad[0]["m"], bad[0]["g"])
            ctx.violation("wildcmp:trace-rejected", "TLC rejects a logged wildcmp result against SpecMatch: " + what,
                          {"kind": "globtrace", "bad": bad[:3], "trace": tpath, "subjects": spath})
            res = res2
    ctx.add_tlc("TraceGlob", res)
    nev = sum(len(groups[g - 1]) for _, g in pats)
    ctx.traces += len(recs)
    ctx.count(nev)
    ctx.extra["glob_trace_evaluations"] = nev
    if recs:
        r = recs[0]
        ctx.sample({"glob_trace": {"p": S(r["p"]), "subjects": [S(x) for x in groups[r["g"] - 1]], "matched": r["m"]}})


# ------------------------------------------------------------------------------------
# bead selection / property filter
# ------------------------------------------------------------------------------------

def run_select(ctx, exe):
    res = vlib.tlc("rangeglob", "MCSelect", cfg="MCSelect.cfg", timeout=600)
    vlib.tlc_must_hold(res, "Select: meaning of bead / property selections")
    ctx.add_tlc("MCSelect", res)
    model = [r for r in res.records if isinstance(r, dict) and "beads" in r]
    if len(model) != 1:
        raise vlib.InfraError("MCSelect did not print its bead list / tree")
    beads, tree = model[0]["beads"], model[0]["tree"]
    pos, box = model[0]["pos"], model[0]["box"]
    vecs = [r for r in res.records if isinstance(r, dict) and "mode" in r]
    items = []
    for i, r in enumerate(vecs):
        if r["mode"] == "bead":
            cmd = "beads %s %s" % (tok(r["sel"]), " ".join(tok(b["type"]) + " " + tok(b["name"]) for b in beads))
        elif r["mode"] == "sphere":
            # lattice integers -> nm; r2 = 2 r^2 (odd) -> radius
            cmd = "beadsph %s %d %d %d %d %r %s" % (
                tok(r["sel"]), box, r["ref"][0], r["ref"][1], r["ref"][2], math.sqrt(r["r2"] / 2.0),
                " ".join("%s %s %d %d %d" % (tok(b["type"]), tok(b["name"]), q[0], q[1], q[2]) for b, q in zip(beads, pos)))
        else:
            parts = []
            for c in tree:
                parts.append("C=" + S(c["n"]))
                parts += ["G=" + S(g) for g in c["k"]]
            cmd = "propsel =%s %s" % (".".join(S(seg) for seg in r["flt"]), " ".join(parts))
        items.append((i, [cmd]))
    results, crashes = vlib.run_items(exe, items)
    for i, r in enumerate(vecs):
        ctx.count()
        rep = {"kind": "select", "record": r, "cmds": items[i][1]}
        if r["mode"] in ("bead", "sphere"):
            how = "by-name" if r["byname"] else "by-type"
            sel = S(r["sel"])
            fn = "Generate"
            if r["mode"] == "sphere":
                fn = "GenerateInSphericalSubvolume"
                how += ":whole-box" if r["r2"] > 2 * 3 * box * box else ":radius"
            if r["ids"]:
                ctx.nontriv(("bead", sel))
            if i in crashes:
                ctx.violation("BeadList:%s:%s:crash" % (fn, how), "driver aborted on '%s': %s" % (sel, crashes[i]), rep)
                continue
            out = results[i][0]
            got = first(out, "sel")
            if got is None:
                ctx.violation("BeadList:%s:%s:exception" % (fn, how), "select '%s': %s" % (sel, out), rep)
                continue
            got = ints(got)
            exp = sorted(k - 1 for k in r["ids"])        # TLC bead numbers are 1-based, bead ids 0-based
            if sorted(got) != exp:
                ctx.violation("BeadList:%s:%s:wrong-set" % (fn, how),
                              "select '%s'%s returned beads %s, the beads whose %s matches%s are %s" % (
                                  sel, "" if r["mode"] == "bead" else " ref %s radius^2 %.1f" % (r["ref"], r["r2"] / 2.0), got,
                                  "name" if r["byname"] else "type",
                                  "" if r["mode"] == "bead" else " within the sphere (minimum image)", exp), rep)
            cnt = ints(first(out, "count"))
            if cnt[0] != len(got) or cnt[1] != len(got):
                ctx.violation("BeadList:%s:count" % fn, "select '%s': return value %s for %d beads" % (sel, cnt, len(got)), rep)
        else:
            flt = ".".join(S(seg) for seg in r["flt"])
            if r["paths"]:
                ctx.nontriv(("prop", flt))
            if i in crashes:
                ctx.violation("Property:Select:crash", "driver aborted on '%s': %s" % (flt, crashes[i]), rep)
                continue
            out = results[i][0]
            got = first(out, "paths")
            cgot = first(out, "cpaths")
            if got is None or cgot is None:
                ctx.violation("Property:Select:exception", "filter '%s': %s" % (flt, out), rep)
                continue
            exp = sorted(".".join(str(x) for x in pth) for pth in r["paths"])
            if sorted(got.split()) != exp:
                ctx.violation("Property:Select:wrong-set", "filter '%s' selected %s, matching nodes are %s" % (flt, got.split(), exp), rep)
            if sorted(cgot.split()) != exp:
                ctx.violation("Property:Select:const:wrong-set", "filter '%s' (const overload) selected %s, matching nodes are %s" % (
                    flt, cgot.split(), exp), rep)
    for r in vecs:
        if r["mode"] == "bead" and r["byname"] and len(r["ids"]) == 2:
            ctx.sample({"bead_selection": {"select": S(r["sel"]), "expected_beads_1based": r["ids"]}})
            break


# ------------------------------------------------------------------------------------
# ranges
# ------------------------------------------------------------------------------------

def fld(x):
    return "x" if x == NONNUM else str(x)


def render_range(e, spaced=False):
    blocks = [":".join(fld(x) for x in b) for b in e]
    return (", " if spaced else ",").join(blocks)


def range_cause(e):
    for b in e:
        if len(b) == 3 and b[1] == 0 and NONNUM not in b:
            return "zero-stride"
    for b in e:
        if NONNUM in b:
            return "non-numeric"
    for b in e:
        if len(b) > 3:
            return "too-many-fields"
    return "malformed"


def stride_class(e):
    return "negative-stride" if any(len(b) == 3 and b[1] < 0 for b in e) else "positive-stride"


def judge_range(ctx, r, text, out, crash):
    rep = {"kind": "range", "record": r, "text": text, "cmds": ["range %d %s" % (BUDGET, text)]}
    e = r["e"]
    if crash is not None:
        ctx.violation("RangeParser:crash", "driver aborted on '%s': %s" % (text, crash), rep)
        return
    rejected = first(out, "rejected")
    nonterm = first(out, "nonterm")
    seq = first(out, "seq")
    if rejected is None and nonterm is None and seq is None:
        raise vlib.InfraError("driver protocol error on range '%s': %s" % (text, out))
    exp = r["seq"]
    if r["malformed"]:
        cause = range_cause(e)
        if nonterm is not None:
            ctx.violation("RangeParser:%s:nonterminating" % cause,
                          "'%s' is accepted and its iteration does not end within %d steps (%s ...)" % (text, BUDGET, nonterm), rep)
        elif rejected is None:
            ctx.violation("RangeParser:%s:accepted" % cause, "malformed expression '%s' is accepted (yields %s)" % (text, seq), rep)
        return
    cls = stride_class(e)
    if nonterm is not None:
        ctx.violation("RangeParser:%s:nonterminating" % cls,
                      "'%s' is accepted and its iteration does not end within %d steps (%s ...)" % (text, BUDGET, nonterm), rep)
        return
    if r["nonclosed"]:
        # begin/end/stride do not form a closed interval: rejecting (what the code documents) and treating
        # the block as the empty progression are both admitted
        if rejected is None and ints(seq) != exp:
            ctx.violation("RangeParser:non-closed:wrong-sequence", "'%s' yields %s" % (text, seq), rep)
        return
    if rejected is not None:
        ctx.violation("RangeParser:%s:rejected" % cls, "well-formed '%s' is rejected: %s" % (text, rejected), rep)
        return
    if ints(seq) != exp:
        ctx.violation("RangeParser:%s:wrong-sequence" % cls, "'%s' enumerates %s, it denotes %s" % (text, ints(seq), exp), rep)
        return
    reseq = first(out, "reseq")
    printed = first(out, "printed")
    if reseq is None or ints(reseq) != exp:
        ctx.violation("RangeParser:print-parse:%s" % cls,
                      "'%s' prints as '%s' which parses to %s instead of %s" % (
                          text, printed, reseq if reseq is not None else [ln for ln in out if ln.startswith("re")], exp), rep)
        return
    if printed != render_range(r["printed"]):
        ctx.extra.setdefault("transcription_warnings", [])
        if len(ctx.extra["transcription_warnings"]) < 5:
            ctx.extra["transcription_warnings"].append("operator<< printed '%s', transcription '%s'" % (printed, render_range(r["printed"])))


def run_range(ctx, exe):
    mod = "MCRangeQuick" if ctx.quick else "MCRangeThorough"
    res = vlib.tlc("rangeglob", mod, cfg=mod + ".cfg", timeout=1700)
    vlib.tlc_must_hold(res, "Range: transcription of the (repaired) RangeParser accepts exactly the well-formed closed "
                            "expressions, terminates, enumerates SpecDenote, print/parse preserves it")
    ctx.add_tlc(mod, res)
    vecs = res.records
    if not vecs:
        raise vlib.InfraError("no range vectors exported")
    items = []
    for i, r in enumerate(vecs):
        items.append(((i, 0), ["range %d %s" % (BUDGET, render_range(r["e"]))]))
        if len(r["e"]) > 1:
            items.append(((i, 1), ["range %d %s" % (BUDGET, render_range(r["e"], True))]))
    results, crashes = vlib.run_items(exe, items)
    for (i, v), cmds in items:
        r = vecs[i]
        ctx.count()
        if r["malformed"] or r["nonclosed"] or len(r["e"]) > 1 or len(r["seq"]) > 1:
            ctx.nontriv(("range", render_range(r["e"]), v))
        judge_range(ctx, r, render_range(r["e"], v == 1), results[(i, v)][0] if (i, v) in results else None, crashes.get((i, v)))
    picks = {"1:2:4,5": None, "4:-2:0": None, "1:0:2": None}
    for r in vecs:
        t = render_range(r["e"])
        if t in picks and picks[t] is None:
            picks[t] = r
            ctx.sample({"range": {"expr": t, "malformed": r["malformed"], "nonclosed": r["nonclosed"], "denotes": r["seq"]}})
    ctx.extra["range_vectors"] = len(vecs)

    # the model is sensitive: the transcription of the code as found is refuted by TLC
    refuted = []
    for cfg, what in (("MCRangeOrigTerm", "termination (zero / negative stride)"),
                      ("MCRangeOrigSeq", "enumerated sequence (negative stride)")):
        res = vlib.tlc("rangeglob", "MCRangeOrig", cfg=cfg + ".cfg", timeout=600)
        ctx.add_tlc(cfg, res)
        if res.ok:
            raise vlib.InfraError("%s: the transcription of the original RangeParser is not refuted - model lost its teeth" % cfg)
        refuted.append("%s: %s" % (cfg, res.violation))
    ctx.extra["original_code_refuted_in_model"] = refuted


# ------------------------------------------------------------------------------------
# one RangeParser object used several times (mode H)
# ------------------------------------------------------------------------------------

def hist_cmds(hist):
    cmds = ["hnew"]
    for op in hist:
        if op["op"] == "parse":
            cmds.append("hparse " + render_range(op["x"]))
        else:
            cmds.append("hadd %d %d %d" % tuple(op["x"]))
        cmds.append("hiter %d" % BUDGET)
    return cmds


def op_text(op):
    return "Parse(\"%s\")" % render_range(op["x"]) if op["op"] == "parse" else "Add(%d,%d,%d)" % tuple(op["x"])


def judge_hist(ctx, hist, out, crash):
    """out: result lines per command of hist_cmds(hist).  Returns the set of Parse readings
    ('A' append / 'R' replace) the real object is consistent with, or None after a violation."""
    rep = {"kind": "hist", "h": hist, "cmds": hist_cmds(hist)}
    calls = " ; ".join(op_text(o) for o in hist)
    if crash is not None:
        ctx.violation("RangeParser:history:crash", "driver aborted during %s: ... %s" % (calls, crash[-300:]), rep)
        return None
    viable = {"A", "R"}
    for k, op in enumerate(hist):
        res, it = out[1 + 2 * k], out[2 + 2 * k]
        accepted = first(res, "accepted") is not None
        rejected = first(res, "rejected") is not None
        if accepted == rejected:
            raise vlib.InfraError("driver protocol error in history %s: %s" % (calls, res))
        nth = "first" if k == 0 else "later"
        if op["op"] == "add":
            b, e, st = op["x"]
            cls = "zero-stride" if st == 0 else ("non-closed" if op["verdict"] == "either" else
                                                 ("negative-stride" if st < 0 else "positive-stride"))
            who = "RangeParser:Add:" + cls
        else:
            cls = range_cause(op["x"]) if op["verdict"] == "reject" else stride_class(op["x"])
            who = "RangeParser:Parse-%s:%s" % (nth, cls)
        nonterm = first(it, "nonterm")
        seq = first(it, "seq")
        if nonterm is not None:
            ctx.violation(who + ":nonterminating", "after %s the object cannot be iterated to the end within %d steps (%s ...)" % (
                calls if k == len(hist) - 1 else " ; ".join(op_text(o) for o in hist[:k + 1]), BUDGET, nonterm), rep)
            return None
        if op["verdict"] == "reject" and accepted:
            ctx.violation(who + ":accepted", "%s is accepted (object then enumerates %s) in %s" % (op_text(op), seq, calls), rep)
            return None
        if op["verdict"] == "accept" and rejected:
            ctx.violation(who + ":rejected", "%s is rejected: %s" % (op_text(op), first(res, "rejected")), rep)
            return None
        got = ints(seq)
        if not op["dirty"]:
            ok = {v for v in viable if got == (op["seqA"] if v == "A" else op["seqR"])}
            if not ok:
                ctx.violation(who + ":wrong-sequence",
                              "after %s the object enumerates %s; held blocks denote %s (Parse appends)%s" % (
                                  " ; ".join(op_text(o) for o in hist[:k + 1]), got, op["seqA"],
                                  "" if op["seqA"] == op["seqR"] else " or %s (Parse replaces)" % op["seqR"]), rep)
                return None
            viable = ok
        # print / parse into a fresh object: relative to what the object itself enumerates
        reseq = first(it, "reseq")
        if reseq is None or ints(reseq) != got:
            ctx.violation(who + ":print-parse", "after %s the object enumerates %s but prints as '%s', which a fresh object reads as %s" % (
                " ; ".join(op_text(o) for o in hist[:k + 1]), got, first(it, "printed"),
                reseq if reseq is not None else [ln for ln in it if ln.startswith("re")]), rep)
            return None
    return viable


def run_range_hist(ctx, exe):
    mod = "MCRangeHistQuick" if ctx.quick else "MCRangeHistThorough"
    res = vlib.tlc("rangeglob", mod, cfg=mod + ".cfg", timeout=1700)
    vlib.tlc_must_hold(res, "RangeHist: one object, several Parse/Add calls: terminates, enumerates the held blocks, "
                            "Add rejects what Parse rejects, print/parse into a fresh object preserves the sequence")
    ctx.add_tlc(mod, res)
    hists = [r["h"] for r in res.records if isinstance(r, dict) and "h" in r]
    if not hists:
        raise vlib.InfraError("no RangeParser histories exported")
    items = [(i, hist_cmds(hh)) for i, hh in enumerate(hists)]
    results, crashes = vlib.run_items(exe, items)
    readings = {"A": 0, "R": 0}
    for i, hh in enumerate(hists):
        ctx.traces += 1
        ctx.nontriv(("hist", str([(o["op"], str(o["x"])) for o in hh])))
        v = judge_hist(ctx, hh, results.get(i), crashes.get(i))
        if v is not None and len(v) == 1:
            readings[next(iter(v))] += 1
    if readings["A"] and readings["R"]:
        ctx.violation("RangeParser:Parse-later:inconsistent", "a second Parse appends in %d histories and replaces in %d" % (
            readings["A"], readings["R"]), {"kind": "note", "readings": readings})
    ctx.extra["second_parse_reading"] = "appends" if readings["A"] else ("replaces" if readings["R"] else "undetermined")
    ctx.extra["range_histories"] = len(hists)
    for hh in hists:
        if [o["op"] for o in hh[:2]] == ["parse", "add"] and hh[0]["verdict"] == "accept" and hh[1]["verdict"] == "accept" \
                and hh[1]["x"][2] < 0:
            ctx.sample({"range_history": [{"call": op_text(o), "then_enumerates": o["seqA"]} for o in hh]})
            break
    res = vlib.tlc("rangeglob", "MCRangeHistOrig", cfg="MCRangeHistOrig.cfg", timeout=600)
    ctx.add_tlc("MCRangeHistOrig", res)
    if res.ok:
        raise vlib.InfraError("MCRangeHistOrig: the transcription of the unvalidated Add is not refuted - model lost its teeth")
    ctx.extra.setdefault("original_code_refuted_in_model", []).append("MCRangeHistOrig: %s" % res.violation)


# ------------------------------------------------------------------------------------
# index files: imcio_write_index / imcio_read_index
# ------------------------------------------------------------------------------------

def render_layout(e, lay):
    colon = " : " if lay["colon"] else ":"
    comma = ", " if lay["comma"] else ","
    return comma.join(colon.join(str(x) for x in b) for b in e)


def run_index_file(ctx, exe):
    mod = "MCIndexFileQuick" if ctx.quick else "MCIndexFileThorough"
    res = vlib.tlc("rangeglob", mod, cfg=mod + ".cfg", timeout=1700)
    vlib.tlc_must_hold(res, "IndexFile: reading a line gives the denoted sequence whatever the blanks; write/read preserves it")
    ctx.add_tlc(mod, res)
    vecs = res.records
    if not vecs:
        raise vlib.InfraError("no index-file vectors exported")
    PER = 40
    items = []
    files = []     # per file: list of (name, vector index)
    # (a) hand-written files: PER lines per file, harness renders name, blanks and expression
    for f0 in range(0, len(vecs), PER):
        path = vlib.scratch_file("c18-idx-%d.txt" % (f0 // PER))
        entries = []
        with open(path, "w") as fh:
            for k in range(f0, min(f0 + PER, len(vecs))):
                r = vecs[k]
                name = "I%d-%d" % (k, k % 7)
                fh.write(name + " " * r["lay"]["sep"] + render_layout(r["e"], r["lay"]) + "\n")
                entries.append((name, k))
        files.append(("read", path, entries))
        # the same text handed to RangeParser::Parse directly: both entry points must give the TLC sequence
        cmds = ["imcread %d %s" % (BUDGET, path)]
        cmds += ["range %d %s" % (BUDGET, render_layout(vecs[k]["e"], vecs[k]["lay"])) for _, k in entries]
        items.append((len(files) - 1, cmds))
    # (b) written by imcio_write_index, read back (one entry per distinct expression)
    seen = {}
    for k, r in enumerate(vecs):
        seen.setdefault(json.dumps(r["e"]), k)
    uniq = sorted(seen.values())
    for f0 in range(0, len(uniq), PER):
        path = vlib.scratch_file("c18-idxw-%d.txt" % (f0 // PER))
        entries = [("W%d_%d" % (k, k % 5), k) for k in uniq[f0:f0 + PER]]
        files.append(("write", path, entries))
        items.append((len(files) - 1, [
            "imcwrite %s %s" % (path, " ".join("%s %s" % (n, render_range(vecs[k]["e"])) for n, k in entries)),
            "imcread %d %s" % (BUDGET, path)]))
    results, crashes = vlib.run_items(exe, items)
    for fi, (kind, path, entries) in enumerate(files):
        ctx.traces += 1
        rep = {"kind": "indexfile", "how": kind, "file": path, "cmds": items[fi][1],
               "lines": open(path).read().splitlines() if kind == "read" else None,
               "expected": [(n, vecs[k]["seq"]) for n, k in entries]}
        way = "hand-written" if kind == "read" else "write-read"
        if fi in crashes:
            ctx.violation("imcio:%s:crash" % way, "driver aborted on %s: ... %s" % (path, crashes[fi][-300:]), rep)
            continue
        out = results[fi]
        rd = out[0] if kind == "read" else out[1]
        if kind == "write" and first(out[0], "ok") is None:
            ctx.violation("imcio:write-read:write-failed", "imcio_write_index: %s" % out[0], rep)
            continue
        got = [ln.split() for ln in rd if ln.startswith("entry ")]
        if first(rd, "entries") is None:
            ctx.violation("imcio:%s:rejected" % way, "imcio_read_index fails on %s: %s" % (path, rd), rep)
            continue
        if len(got) != len(entries):
            ctx.violation("imcio:%s:entry-count" % way, "%d entries read, %d lines in %s" % (len(got), len(entries), path), rep)
            continue
        for j, (name, k) in enumerate(entries):
            ctx.count()
            r = vecs[k]
            text = render_layout(r["e"], r["lay"]) if kind == "read" else render_range(r["e"])
            lay = ("blank-after-comma" if r["lay"]["comma"] else "") + ("blank-around-colon" if r["lay"]["colon"] else "")
            lay = (lay or "compact") if kind == "read" else stride_class(r["e"])
            if len(r["e"]) > 1 or r["lay"]["comma"] or r["lay"]["colon"]:
                ctx.nontriv(("idxfile", kind, text))
            g = got[j]
            if g[1] != name:
                ctx.violation("imcio:%s:name" % way, "line '%s %s' read back with name '%s'" % (name, text, g[1]), rep)
                break
            if g[2] != "seq":
                ctx.violation("imcio:%s:nonterminating:%s" % (way, lay), "entry '%s %s' cannot be iterated to the end" % (name, text), rep)
                break
            if [int(x) for x in g[3:]] != r["seq"]:
                ctx.violation("imcio:%s:wrong-sequence:%s" % (way, lay),
                              "index line '%s%s%s' is read as %s, the expression denotes %s" % (
                                  name, " " * (r["lay"]["sep"] if kind == "read" else 1), text, [int(x) for x in g[3:]], r["seq"]), rep)
                break
            if kind == "read":
                direct = first(out[1 + j], "seq")
                if direct is None or ints(direct) != r["seq"]:
                    ctx.violation("RangeParser:blanks:%s" % lay, "Parse('%s') gives %s, the expression denotes %s" % (
                        text, out[1 + j], r["seq"]), rep)
                    break
    for r in vecs:
        if r["lay"]["comma"] and len(r["e"]) == 2 and len(r["e"][0]) == 3:
            ctx.sample({"index_file_line": "NAME " + render_layout(r["e"], r["lay"]), "denotes": r["seq"]})
            break
    ctx.extra["index_file_vectors"] = len(vecs)
    res = vlib.tlc("rangeglob", "MCIndexFileFirst", cfg="MCIndexFileFirst.cfg", timeout=600)
    ctx.add_tlc("MCIndexFileFirst", res)
    if res.ok:
        raise vlib.InfraError("MCIndexFileFirst: a reader that keeps only the first field is not refuted - model lost its teeth")
    ctx.extra.setdefault("original_code_refuted_in_model", []).append("MCIndexFileFirst (first-field reader): %s" % res.violation)


# ------------------------------------------------------------------------------------
# index sets
# ------------------------------------------------------------------------------------

def render_tokens(ts):
    return " ".join(":".join(str(x) for x in t) for t in ts)


def run_index(ctx, exe):
    mod = "MCIndexSetQuick" if ctx.quick else "MCIndexSetThorough"
    res = vlib.tlc("rangeglob", mod, cfg=mod + ".cfg", timeout=1700)
    vlib.tlc_must_hold(res, "IndexSet: CreateIndexVector / CreateIndexString transcriptions are inverse on sets")
    ctx.add_tlc(mod, res)
    vecs = res.records
    if not vecs:
        raise vlib.InfraError("no index vectors exported")
    # phase A: vector -> string   /   string -> vector and its set -> string
    items = []
    for i, r in enumerate(vecs):
        if r["mode"] == "vec":
            items.append((i, ["idxstr " + " ".join(str(x) for x in r["v"])]))
        else:
            items.append((i, ["idxvec " + render_tokens(r["ts"]), "idxstr " + " ".join(str(x) for x in r["set"])]))
    results, crashes = vlib.run_items(exe, items)
    strings = {}
    for i, r in enumerate(vecs):
        ctx.count()
        rep = {"kind": "index", "record": r, "cmds": items[i][1]}
        if len(r["set"]) >= 2:
            ctx.nontriv(("idx", r["mode"], str(r.get("v", r.get("ts")))))
        if i in crashes:
            ctx.violation("IndexParser:crash", "driver aborted on %s: %s" % (r, crashes[i]), rep)
            continue
        out = results[i]
        if r["mode"] == "str":
            got = first(out[0], "vec")
            if got is None:
                ctx.violation("IndexParser:string->vector:exception", "'%s': %s" % (render_tokens(r["ts"]), out[0]), rep)
                continue
            if ints(got) != r["set"]:
                ctx.violation("IndexParser:string->vector", "'%s' gives %s, it denotes %s" % (render_tokens(r["ts"]), ints(got), r["set"]), rep)
                continue
        st = first(out[-1], "str")
        if st is None:
            ctx.violation("IndexParser:vector->string:exception", "%s: %s" % (r, out[-1]), rep)
            continue
        strings[i] = st
        if st != render_tokens(r["str"]):
            ctx.extra.setdefault("transcription_warnings", [])
            if len(ctx.extra["transcription_warnings"]) < 5:
                ctx.extra["transcription_warnings"].append("CreateIndexString gave '%s', transcription '%s'" % (st, render_tokens(r["str"])))
    # phase B: the produced string back to a vector
    items = [(i, ["idxvec " + strings[i]]) for i in sorted(strings)]
    results, crashes = vlib.run_items(exe, items)
    for i, cmds in items:
        r = vecs[i]
        ctx.traces += 1
        rep = {"kind": "index", "record": r, "cmds": cmds}
        src = "vector" if r["mode"] == "vec" else "string->vector"
        if i in crashes:
            ctx.violation("IndexParser:crash", "driver aborted on '%s': %s" % (strings[i], crashes[i]), rep)
            continue
        got = first(results[i][0], "vec")
        if got is None or ints(got) != r["set"]:
            ctx.violation("IndexParser:%s->string->vector" % src,
                          "%s printed as '%s' which reads back as %s, expected %s" % (
                              r.get("v", r.get("ts")), strings[i], got if got is not None else results[i][0], r["set"]), rep)
    for i, r in enumerate(vecs):
        if r["mode"] == "vec" and len(r["set"]) >= 5 and i in strings and ":" in strings[i] and " " in strings[i]:
            ctx.sample({"index": {"vector": r["v"], "string": strings[i], "back": r["set"]}})
            break
    ctx.extra["index_vectors"] = len(vecs)


# ------------------------------------------------------------------------------------

def replay(ctx, exe):
    obj = json.load(open(ctx.replay))["replay"]
    kind = obj.get("kind")
    if kind == "glob":
        subjects = [(s, e) for s, e in obj["subjects"]]
        items = glob_items({obj["p"]: subjects})
        results, crashes = vlib.run_items(exe, items)
        print("\n".join(results.get(obj["p"], [[crashes.get(obj["p"])]])[0]))
        if all(e is not None for _, e in subjects):
            judge_glob(ctx, obj["p"], subjects, results.get(obj["p"]), crashes.get(obj["p"]))
    elif kind == "hist":
        results, crashes = vlib.run_items(exe, [(0, obj["cmds"])])
        for res in results.get(0, []):
            print("\n".join(res))
        judge_hist(ctx, obj["h"], results.get(0), crashes.get(0))
    elif kind == "range":
        results, crashes = vlib.run_items(exe, [(0, obj["cmds"])])
        print("\n".join(results.get(0, [[crashes.get(0)]])[0]))
        judge_range(ctx, obj["record"], obj["text"], results[0][0] if 0 in results else None, crashes.get(0))
    else:
        results, crashes = vlib.run_items(exe, [(0, obj.get("cmds", []))])
        for res in results.get(0, []):
            print("\n".join(res))
        print("expected (from TLC):", obj.get("record"))


def run(ctx):
    bindir = vlib.ensure_build(["drv_rangeglob"])
    exe = bindir + "/drv_rangeglob"
    ctx.rule = ("mode L: every (pattern, string) pair, every range expression, every bead/property selection and every "
                "index vector / token string of the TLC domain is one vector, expected value computed by TLC "
                "(non-trivial = wildcard match or back-tracking; malformed / non-closed / multi-block / multi-value range; "
                "non-empty selection; index set with >= 2 members); reverse direction: logged wildcmp results on random "
                "longer inputs validated by TLC")
    ctx.assumptions += [
        "text rendering of expressions (':' ',' blanks, 'x' for a non-numeric field) is done by the harness",
        "partially numeric or empty fields ('1x', '1:', '1::3') and the empty expression are not asserted (DESIGN 7.3)",
        "a non-closed block ('5:1', '1:-1:5') may be rejected or treated as the empty progression",
        "range iteration runs under a budget of %d values; exceeding it is reported as non-termination" % BUDGET,
        "wildcmp/RangeParser/IndexParser sources are compiled into the driver with ASan/UBSan and assertions on"]
    if getattr(ctx, "replay", None):
        replay(ctx, exe)
        return
    run_glob(ctx, exe)
    run_select(ctx, exe)
    run_range(ctx, exe)
    run_range_hist(ctx, exe)
    run_index_file(ctx, exe)
    run_index(ctx, exe)
    run_glob_trace(ctx, exe)
    ctx.exhaustive = False
