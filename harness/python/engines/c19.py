"""C19 - table post-processing scripts implement their documented point-wise formulas.
spec/tablescripts: Rat (exact rationals), TableScripts (what every script is documented to compute, as
operators over exact tables; log lattice for the two logarithmic scripts), TSCases (TLC chooses the cases,
checks the algebra and exports {script, options, input tables, expected output}), TraceTS (TLC judges the
outputs of large random tables).  Binding: the real perl/bash scripts of csg/share/scripts/inverse and the
real csg_resample are run on files written from the TLC records; no C++ driver."""
import json
import math
import os
import random
import shutil
import subprocess
from concurrent.futures import ThreadPoolExecutor
from fractions import Fraction
import vlib

MANIFEST = dict(
    engine="tablescripts", design_ref="DESIGN.md 5/C19",
    technique="TLA+ spec of the documented table operators over exact rationals / the log lattice (values 2^k, "
              "kT = c/ln 2), model-checked with TLC (algebra: integrate/differentiate inverse, shift reference zero, "
              "flags only change as stated, same grid); TLC-exported cases are executed with the real scripts and "
              "csg_resample, and outputs of large random tables are validated by TLC (trace direction)",
    text="TLC chooses every case (script, options, tables of 3..8 points, Boltzmann inversion 10..19) as a function of "
         "(script, size, seed), checks the algebra of the documented operators on it and prints the expected output "
         "(exact rationals; admissible alternatives where the documentation is two-valued or silent; equidistant and "
         "non-equidistant grids; csg_resample also on 45..101-point decimal-step tables with late flag transitions); the check writes "
         "the input files, runs update_ibi_pot.pl, dist_boltzmann_invert.pl, table_{linearop,combine,scale,integrate,"
         "smooth,extrapolate,get_value,switch_border}.pl, merge_tables.pl, add_POT.pl, potential_shift.pl, dist_adjust.pl "
         "directly (a share through csg_call), table_{change_flag,dummy,average}.sh and potential_extrapolate.sh through "
         "csg_call, csg_resample --type linear --derivative, and compares grid, flags and values (1e-9). A seeded driver "
         "additionally runs the core scripts on tables of up to 1000 points and TLC judges every logged output.",
    note="Trusted: TLC, perl's/awk's decimal printing of doubles (15 significant digits), the lattice argument (inputs "
         "are dyadic rationals, distributions powers of two: every documented result is an exact rational), Python's "
         "Fraction/float conversion. Not covered: the error column of --with-errors, csg_resample --fitgrid, table_smooth_at_cut_off.py (needs numpy), "
         "table_functional.sh (needs gnuplot), table_to_tab/xvg, tables_jackknife, the postupd_/postadd_ wrappers.")

SCRIPTS = os.path.join(vlib.REPO, "csg", "share", "scripts", "inverse")
LN2 = math.log(2.0)
ZEXP = -1000
WORKERS = 4
TOL = 1e-9

OPNAMES = ["update_ibi_pot", "dist_boltzmann_invert", "table_linearop", "table_linearop_x", "table_combine",
           "table_combine_sum", "merge_tables", "add_POT", "table_scale", "table_integrate",
           "resample_derivative", "integrate_derivative", "potential_shift", "table_smooth",
           "table_extrapolate", "potential_extrapolate", "table_get_value", "table_change_flag",
           "table_dummy", "table_average", "dist_adjust", "table_switch_border", "resample_same", "average_linearop",
           "table_combine_die", "resample_spline"]
# csg_table keys of the scripts that can also be reached through csg_call
CALLKEY = {"update_ibi_pot": ("update", "ibi_pot"), "dist_boltzmann_invert": ("dist", "invert"),
           "table_linearop": ("table", "linearop"), "table_linearop_x": ("table", "linearop"),
           "table_combine": ("table", "combine"), "table_combine_sum": ("table", "combine"),
           "merge_tables": ("table", "merge"), "add_POT": ("table", "add"), "table_scale": ("table", "scale"),
           "table_integrate": ("table", "integrate"), "potential_shift": ("potential", "shift"),
           "table_smooth": ("table", "smooth"), "table_extrapolate": ("table", "extrapolate"),
           "table_get_value": ("table", "get_value"), "dist_adjust": ("dist", "adjust"),
           "table_switch_border": ("table", "switch_border"),
           "potential_extrapolate": ("potential", "extrapolate"), "table_change_flag": ("table", "change_flag"),
           "table_dummy": ("table", "dummy"), "table_average": ("table", "average")}
SCRIPTFILE = {"update_ibi_pot": "update_ibi_pot.pl", "dist_boltzmann_invert": "dist_boltzmann_invert.pl",
              "table_linearop": "table_linearop.pl", "table_linearop_x": "table_linearop.pl",
              "table_combine": "table_combine.pl", "table_combine_sum": "table_combine.pl",
              "merge_tables": "merge_tables.pl", "add_POT": "add_POT.pl", "table_scale": "table_scale.pl",
              "table_integrate": "table_integrate.pl", "potential_shift": "potential_shift.pl",
              "table_smooth": "table_smooth.pl", "table_extrapolate": "table_extrapolate.pl",
              "table_get_value": "table_get_value.pl", "dist_adjust": "dist_adjust.pl",
              "table_switch_border": "table_switch_border.pl"}
SHELL_ONLY = {"potential_extrapolate", "table_change_flag", "table_dummy", "table_average"}
OPWORD = {"+": "add", "-": "sub", "x": "mul", "*": "mul", "/": "div", "d": "d", "d2": "d2", "=": "eq"}


def _req():
    T = ("", "non-bonded", "bond", "angle", "dihedral")
    F = ("", "constant", "linear", "quadratic", "sasha", "periodic", "exponential")
    out = [("dist_boltzmann_invert", "type", t) for t in T]
    out += [("dist_boltzmann_invert", "usemin", b) for b in (True, False)]
    out += [("potential_shift", "type", t) for t in T + ("bonded",)]
    out += [("table_combine", "cop", o) for o in OPWORD] + [("table_combine_sum", "cop", o) for o in OPWORD]
    out += [("table_combine", "wf", w) for w in ("", "i", "o", "u")] + [("table_combine", "noflags", True), ("table_combine", "err", True)]
    out += [("table_linearop", "wf", w) for w in ("", "i", "o", "u")] + [("table_linearop", "we", True), ("table_linearop_x", "wf", "i")]
    out += [("merge_tables", "wf", w) for w in ("", "i", "o", "u")]
    out += [("merge_tables", k, b) for k in ("noflags", "novalues") for b in (True, False)]
    out += [("table_integrate", "from", v) for v in ("", "left", "right")]
    out += [("table_integrate", "mode", v) for v in ("plain", "sphere", "S")] + [("table_integrate", "we", True)]
    out += [("table_extrapolate", "fn", v) for v in F] + [("table_extrapolate", "region", v) for v in ("", "left", "right", "leftright")]
    out += [("table_extrapolate", "fu", b) for b in (True, False)] + [("table_extrapolate", "defA", b) for b in (True, False)]
    out += [("potential_extrapolate", "type", t) for t in T[1:]]
    out += [("potential_extrapolate", "lf", v) for v in ("", "linear", "constant", "quadratic", "exponential", "sasha")]
    out += [("potential_extrapolate", "rf", v) for v in ("", "linear", "constant", "quadratic", "exponential", "sasha")]
    out += [(o, "clean", b) for o in ("potential_extrapolate", "table_average", "table_dummy") for b in (True, False)]
    out += [(o, "type", v) for o in ("resample_same", "resample_spline") for v in ("", "linear", "akima", "cubic")]
    out += [("resample_spline", "isline", b) for b in (True, False)] + [("resample_spline", "fit", "yes")] + [("table_combine_die", "ok", b) for b in (True, False)]
    out += [(o, "e4", True) for o in ("update_ibi_pot", "dist_boltzmann_invert", "table_combine", "merge_tables", "add_POT",
                                      "table_scale", "potential_shift", "table_smooth", "table_extrapolate", "table_get_value")]
    out += [(o, "twice", True) for o in ("potential_shift", "dist_adjust", "table_change_flag", "table_extrapolate", "merge_tables")]
    return out


# ------------------------------------------------------------------------------------------------
# lattice -> reals (the only arithmetic Python does on expectations)
# ------------------------------------------------------------------------------------------------
def fr(q):
    return Fraction(q[0], q[1])


def real(q):
    return float(Fraction(q[0], q[1]))


def num(q):
    """text of a lattice rational as a script argument / file entry (dyadic: exact)"""
    return repr(real(q))


def dist_value(e):
    return 0.0 if e == ZEXP else 2.0 ** e


def grid(c):
    """abscissae of the case's table: (x0 + g[k]) * h, equidistant or not"""
    h = fr(c["h"])
    return [float((c["x0"] + gk) * h) for gk in c["g"]]


def unit_grid(c):
    """the unit lattice (x0 + j) * h, j = 0..g[n], which contains every knot of a non-equidistant table"""
    h = fr(c["h"])
    return [float((c["x0"] + j) * h) for j in range(c["g"][-1] + 1)]


def bi_norm(c, x):
    """normalisation of dist_boltzmann_invert.pl --type: the file holds 2^e * norm(x), so that dist/norm = 2^e exactly"""
    return x * x if c["type"] == "bond" else (math.sin(x) if c["type"] == "angle" else 1.0)


def half_grid(c):
    """the equidistant grid (x0 + j + 1/2) * h, j = 0..g[n]-1: one or more points strictly inside every interval"""
    h = fr(c["h"])
    return [float((c["x0"] + j) * h + h / 2) for j in range(c["g"][-1])]


def write_table(path, xs, ys, flags, c=None):
    """c: the case; c["e4"]: write an error column (x y yerr flag; the tools are run without --with-errors and must take the
    LAST column as the flag); c["zsp"]: spelling of an exact zero"""
    e4 = bool(c and c.get("e4"))
    zsp = (c or {}).get("zsp", "0.0")
    with open(path, "w") as f:
        for x, y, fl in zip(xs, ys, flags):
            ytxt = zsp if y == 0 else repr(y)
            if e4:
                f.write("%r %s %r %s\n" % (x, ytxt, real(c["ye"]), fl))
            else:
                f.write("%r %s %s\n" % (x, ytxt, fl))


def write_tab(path, c, t, first=0):
    n = len(t["y"])
    xs = grid(c)[first:first + n]
    write_table(path, xs, [real(q) for q in t["y"]], t["f"], c)


# ------------------------------------------------------------------------------------------------
# running one case
# ------------------------------------------------------------------------------------------------
class Runner:
    def __init__(self, bindir, base):
        self.base = base
        self.bindir = bindir
        os.makedirs(base, exist_ok=True)
        wb = os.path.join(base, "bin")
        os.makedirs(wb, exist_ok=True)
        self.csg_call = os.path.join(wb, "csg_call")
        with open(self.csg_call, "w") as f:      # get_table_comment wants a csg_call on the PATH
            f.write('#!/bin/bash\nexec bash "%s" "$@"\n' % os.path.join(vlib.REPO, "csg", "scripts", "csg_call"))
        os.chmod(self.csg_call, 0o755)
        defaults = os.path.join(vlib.BUILD, "repo", "csg", "share", "xml", "csg_defaults.xml")
        if not os.path.exists(defaults):
            raise vlib.InfraError("csg_defaults.xml was not generated in the build tree: " + defaults)
        e = dict(os.environ)
        e["PERL5LIB"] = SCRIPTS
        e["VOTCASHARE"] = os.path.join(vlib.REPO, "csg", "share")
        e["VOTCA_CSG_DEFAULTS"] = defaults
        e["PATH"] = wb + ":" + bindir + ":" + e.get("PATH", "")
        e["CSGNOCOLOR"] = "yes"
        for k in ("CSGXMLFILE", "CSGSHARE", "VOTCA_TABLES_WITHOUT_FLAG", "CSGDEBUG"):
            e.pop(k, None)
        self.env = e

    def script(self, c, args, via_call):
        op = c["op"]
        if via_call or op in SHELL_ONLY:
            return [self.csg_call] + list(CALLKEY[op]) + args
        return ["perl", os.path.join(SCRIPTS, SCRIPTFILE[op])] + args

    def commands(self, c, d, via_call):
        """writes the input files of case c into d; returns ([argv, ...], output file or None, kind)"""
        op = c["op"]
        out = "out.tab"
        S = lambda args: self.script(c, args, via_call)
        if op == "update_ibi_pot":
            xs = grid(c)
            write_table(os.path.join(d, "tgt.tab"), xs, [dist_value(e) for e in c["tg"]], "i" * c["n"], c)
            write_table(os.path.join(d, "cur.tab"), xs, [dist_value(e) for e in c["cu"]], "i" * c["n"], c)
            write_tab(os.path.join(d, "pot.tab"), c, c["pot"])
            return [S(["tgt.tab", "cur.tab", "pot.tab", out, repr(real(c["c"]) / LN2)])], out, "table"
        if op == "dist_boltzmann_invert":
            xs = grid(c)
            write_table(os.path.join(d, "in.tab"), xs, [dist_value(e) * bi_norm(c, x) for e, x in zip(c["e"], xs)], "i" * c["n"], c)
            a = ["--kbT", repr(real(c["c"]) / LN2)]
            if c["type"]:
                a += ["--type", c["type"]]
            if c["usemin"]:
                a += ["--min", repr(1.5 * 2.0 ** c["mk"])]
            return [S(a + ["in.tab", out])], out, "table"
        if op in ("table_linearop", "table_linearop_x"):
            write_tab(os.path.join(d, "in.tab"), c, c["t"])
            a = []
            if c["wf"]:
                a += ["--withflag", c["wf"]]
            if op == "table_linearop_x":
                a += ["--on-x"]
            if c.get("we"):
                a += ["--with-errors"]
                return [S(a + ["in.tab", out, num(c["a"]), num(c["b"])])], out, "table4e"
            return [S(a + ["in.tab", out, num(c["a"]), num(c["b"])])], out, "table"
        if op in ("table_combine", "table_combine_sum"):
            write_tab(os.path.join(d, "in1.tab"), c, c["t1"])
            write_tab(os.path.join(d, "in2.tab"), c, c["t2"])
            a = ["--op", c["cop"]]
            if c["sc"] != [1, 1]:
                a += ["--scale", num(c["sc"])]
            if c["wf"]:
                a += ["--withflag", c["wf"]]
            if c["noflags"]:
                a += ["--no-flags"]
            if c.get("err"):
                a += ["--error", "0.001"]
            if op == "table_combine_sum":
                return [S(a + ["--sum", "in1.tab", "in2.tab"])], None, "scalar"
            return [S(a + ["in1.tab", "in2.tab", out])], out, "table"
        if op == "table_combine_die":
            write_tab(os.path.join(d, "in1.tab"), c, c["t1"])
            write_tab(os.path.join(d, "in2.tab"), c, c["t2"])
            if via_call:           # csg_table: "table compare" = table_combine.pl --die --op =
                return [[self.csg_call, "table", "compare", "in1.tab", "in2.tab"]], None, "exit"
            return [["perl", os.path.join(SCRIPTS, "table_combine.pl"), "--die", "--op", "=", "in1.tab", "in2.tab"]], None, "exit"
        if op == "merge_tables":
            write_tab(os.path.join(d, "src.tab"), c, c["src"], c["off"])   # the source lives on points off.. of the common grid
            write_tab(os.path.join(d, "dst.tab"), c, c["dst"])
            a = []
            if c["wf"]:
                a += ["--withflag", c["wf"]]
            if c["noflags"]:
                a += ["--noflags"]
            if c["novalues"]:
                a += ["--novalues"]
            return [S(a + ["src.tab", "dst.tab", out])], out, "table"
        if op == "add_POT":
            write_tab(os.path.join(d, "in1.tab"), c, c["t1"])
            write_tab(os.path.join(d, "in2.tab"), c, c["t2"])
            return [S(["in1.tab", "in2.tab", out])], out, "table"
        if op == "table_scale":
            write_tab(os.path.join(d, "in.tab"), c, c["t"])
            return [S(["in.tab", out, num(c["p1"]), num(c["p2"])])], out, "table"
        if op == "table_integrate":
            write_tab(os.path.join(d, "in.tab"), c, c["t"])
            a = []
            if c["from"]:
                a += ["--from", c["from"]]
            if c["mode"] == "sphere":
                a += ["--sphere"]
            if c["mode"] == "S":
                a += ["--with-S", "--kbT", num(c["kt"])]
            if c.get("we"):
                return [S(a + ["--with-errors", "in.tab", out])], out, "table4e"
            return [S(a + ["in.tab", out])], out, "table"
        if op in ("resample_derivative", "integrate_derivative"):
            write_tab(os.path.join(d, "in.tab"), c, c["t"])
            hg = half_grid(c)
            g = "%r:%r:%r" % (hg[0], real(c["h"]), hg[-1])
            cmds = []
            src = "in.tab"
            if op == "integrate_derivative":
                cmds.append(["perl", os.path.join(SCRIPTS, "table_integrate.pl"), "--from", c["from"], "in.tab", "int.tab"])
                src = "int.tab"
            cmds.append([os.path.join(self.bindir, "csg_resample"), "--in", src, "--out", "res.tab", "--type", "linear",
                         "--grid", g, "--derivative", out])
            return cmds, out, "table"
        if op == "resample_spline":
            write_tab(os.path.join(d, "in.tab"), c, c["t"])
            ug = unit_grid(c)
            a = ["--type", c["type"]] if c["type"] else []
            if c.get("fit"):
                a += ["--fitgrid", "%r:%r:%r" % (ug[0], (ug[-1] - ug[0]) / c["fit"], ug[-1])]
            return [[os.path.join(self.bindir, "csg_resample"), "--in", "in.tab", "--out", out,
                     "--grid", "%r:%r:%r" % (ug[0], real(c["h"]), ug[-1]), "--derivative", "der.tab"] + a], out, "table"
        if op == "resample_same":
            write_tab(os.path.join(d, "in.tab"), c, c["t"])
            xs = grid(c)
            a = ["--type", c["type"]] if c["type"] else []
            return [[os.path.join(self.bindir, "csg_resample"), "--in", "in.tab", "--out", out,
                     "--grid", "%r:%r:%r" % (xs[0], real(c["h"]), xs[-1]), "--derivative", "der.tab"] + a], out, "table"
        if op == "potential_shift":
            write_tab(os.path.join(d, "in.tab"), c, c["t"])
            a = ["--type", c["type"]] if c["type"] else []
            return [S(a + ["in.tab", out])], out, "table"
        if op in ("table_smooth", "dist_adjust", "table_change_flag"):
            write_tab(os.path.join(d, "in.tab"), c, c["t"])
            return [S(["in.tab", out])], out, "table"
        if op == "table_extrapolate":
            write_tab(os.path.join(d, "in.tab"), c, c["t"])
            a = []
            if not c["defA"]:
                a += ["--avgpoints", str(c["A"])]
            if c["fn"]:
                a += ["--function", c["fn"]]
            if c["region"]:
                a += ["--region", c["region"]]
            if c["C"] != [10000, 1]:
                a += ["--curvature", num(c["C"])]
            if not c["fu"]:
                a += ["--no-flagupdate"]
            return [S(a + ["in.tab", out])], out, "table"
        if op == "potential_extrapolate":
            write_tab(os.path.join(d, "in.tab"), c, c["t"])
            a = ["--type", c["type"], "--avg-points", str(c["A"])]
            if c["lf"]:
                a += ["--lfct", c["lf"]]
            if c["rf"]:
                a += ["--rfct", c["rf"]]
            if c.get("clean"):
                a += ["--clean"]
            return [S(a + ["in.tab", out])], out, "table"
        if op == "table_get_value":
            write_tab(os.path.join(d, "in.tab"), c, c["t"])
            return [S([num(c["X"]), "in.tab"])], None, "scalar"
        if op == "table_dummy":
            xs = grid(c)
            a = ["--clean"] if c.get("clean") else []
            if c["y1"] != [0, 1]:
                a += ["--y1", num(c["y1"])]
            if c["y2"] != [0, 1]:
                a += ["--y2", num(c["y2"])]
            return [S(a + ["%r:%r:%r" % (xs[0], real(c["h"]), xs[-1]), out])], out, "table"
        if op == "table_average":
            names = []
            for j, t in enumerate(c["ts"]):
                names.append("in%d.tab" % j)
                write_tab(os.path.join(d, names[-1]), c, t)
            return [S((["--cols", "4", "--col-y", "2"] if c.get("e4") else []) + (["--clean"] if c.get("clean") else [])
                      + ["--output", out] + names)], out, "table4"
        if op == "average_linearop":
            names = []
            for j, t in enumerate(c["ts"]):
                names.append("in%d.tab" % j)
                write_tab(os.path.join(d, names[-1]), c, t)
            return [[self.csg_call, "table", "average", "--output", "avg.tab"] + names,
                    ["perl", os.path.join(SCRIPTS, "table_linearop.pl"), "--withflag", "i", "avg.tab", out, num(c["a"]), num(c["b"])]], out, "table"
        if op == "table_switch_border":
            write_tab(os.path.join(d, "in.tab"), c, c["t"])
            xs = grid(c)
            return [S(["in.tab", out, repr(xs[c["n"] - c["w"] - 1])])], out, "table"
        raise vlib.InfraError("unknown op " + op)

    def run(self, c, idx, via_call=False):
        d = os.path.join(self.base, "r%06d" % idx)
        shutil.rmtree(d, ignore_errors=True)
        os.makedirs(d)
        cmds, out, kind = self.commands(c, d, via_call)
        before = set(os.listdir(d))
        if c.get("twice"):       # idempotent operator: once more on its own output
            inname = "dst.tab" if c["op"] == "merge_tables" else "in.tab"
            cmds = cmds + [["out.tab" if a == inname else ("out2.tab" if a == out else a) for a in cmds[-1]]]
        obs = {"cmds": [" ".join(a) for a in cmds], "rc": 0, "stdout": "", "stderr": "", "kind": kind, "dir": d}
        for a in cmds:
            try:
                p = subprocess.run(a, cwd=d, env=self.env, stdout=subprocess.PIPE, stderr=subprocess.PIPE, text=True,
                                   timeout=300, stdin=subprocess.DEVNULL)
            except subprocess.TimeoutExpired:
                obs["rc"] = -999
                obs["stderr"] += "TIMEOUT"
                return obs
            obs["stdout"] += p.stdout
            obs["stderr"] += p.stderr
            if p.returncode != 0:
                obs["rc"] = p.returncode
                return obs
        obs["leftover"] = sorted(set(os.listdir(d)) - before - {"out.tab", "out2.tab", "der.tab", "res.tab", "int.tab", "avg.tab"})
        if kind == "exit":
            return obs
        if kind == "scalar":
            lines = [ln.strip() for ln in obs["stdout"].splitlines() if ln.strip()]
            obs["scalar"] = lines[-1] if lines else ""
        else:
            obs["rows"], obs["malformed"] = read_rows(os.path.join(d, out), 4 if kind in ("table4", "table4e") else 3)
            if kind == "table4e" and obs["rows"] is not None:       # --with-errors: x y yerr flag; the error column is not asserted
                obs["rows"] = [None if r is None else (r[0], r[1], r[3]) for r in obs["rows"]]
            if c["op"] in ("resample_same", "resample_spline"):
                obs["rows2"], obs["malformed2"] = read_rows(os.path.join(d, "der.tab"), 3)
            if c.get("twice"):
                obs["rows_twice"], obs["malformed_twice"] = read_rows(os.path.join(d, "out2.tab"), 3)
        return obs


def read_rows(path, ncol):
    if not os.path.exists(path):
        return None, None
    rows, bad = [], None
    for ln in open(path):
        s = ln.strip()
        if not s or s[0] in "#@":
            continue
        p = s.split()
        try:
            if len(p) != ncol:
                raise ValueError("columns")
            rows.append(tuple(float(t) for t in p[:ncol - 1]) + (p[-1],))
        except ValueError:
            bad = bad or ln.rstrip("\n")
            rows.append(None)
    return rows, bad


# ------------------------------------------------------------------------------------------------
# comparison with the TLC expectation
# ------------------------------------------------------------------------------------------------
def close(a, b):
    return math.isfinite(a) and abs(a - b) <= TOL * max(1.0, abs(b))


def variant(c):
    op = c["op"]
    if op == "dist_boltzmann_invert":
        return (c["type"] or "non-bonded") + (":min" if c["usemin"] else "")
    if op in ("table_linearop", "table_linearop_x"):
        return "withflag" if c["wf"] else "plain"
    if op == "table_combine":
        return OPWORD[c["cop"]] + (":withflag" if c["wf"] else "") + (":noflags" if c["noflags"] else "")
    if op == "table_combine_sum":
        return OPWORD[c["cop"]]
    if op == "merge_tables":
        return ("withflag" if c["wf"] else "plain") + (":noflags" if c["noflags"] else "") + (":novalues" if c["novalues"] else "")
    if op == "table_integrate":
        return (c["from"] or "right") + ":" + c["mode"]
    if op == "integrate_derivative":
        return c["from"]
    if op == "potential_shift":
        return c["type"] or "non-bonded"
    if op == "table_extrapolate":
        return c["fn"] or "quadratic"
    if op == "potential_extrapolate":
        return c["type"]
    if op == "resample_same":
        return c["type"] or "akima"
    if op == "resample_spline":
        return (c["type"] or "akima") + (":line" if c["isline"] else "") + (":fit" if c.get("fit") else "")
    return ""


def expected_x(c, exp, m):
    if "x" in exp:
        return [real(q) for q in exp["x"]]
    if c["op"] in ("resample_derivative", "integrate_derivative"):
        return half_grid(c)
    if c["op"] == "resample_spline":
        return unit_grid(c)
    return grid(c)


def point_class(c, exp, k):
    """class of point k for the key (which part of the documented behaviour it exercises)"""
    op = c["op"]
    if op == "update_ibi_pot":
        if exp["f"][k] == "i":
            return "valid"
        return "corner" if any(a[0] == k + 1 for a in exp["alt"]) else "continued"
    if op == "dist_boltzmann_invert":
        return "defined" if exp["f"][k] == "i" else "undefined"
    if op in ("table_extrapolate", "potential_extrapolate"):
        f = c["t"]["f"]
        first = f.index("i")
        last = len(f) - 1 - f[::-1].index("i")
        return "left" if k < first else ("right" if k > last else "inside")
    if op == "add_POT":
        return c["t1"]["f"][k] + c["t2"]["f"][k]
    return ""


def judge(c, exp, obs, ctx=None, drift=None):
    """returns [(key, text)]"""
    bad = judge1(c, exp, obs, ctx, None if c["op"] == "resample_spline" else drift)
    if c.get("twice") and obs["rc"] == 0:
        # script(script(t)) = script(t): the second output is judged against the same expectation
        o2 = dict(obs, rows=obs.get("rows_twice"), malformed=obs.get("malformed_twice"))
        bad += [(k.replace(c["op"] + ":", c["op"] + ":twice:", 1), t) for k, t in judge1(c, exp, o2, ctx, None)]
    if c.get("e4"):
        bad = [(k.replace(c["op"] + ":", c["op"] + ":4col:", 1), t) for k, t in bad]
    if c["op"] == "resample_spline" and obs["rc"] == 0:
        o2 = dict(obs, rows=obs.get("rows2"), malformed=obs.get("malformed2"))
        bad += [(k.replace("resample_spline:", "resample_spline:derivative:", 1), t) for k, t in judge1(c, exp["d"], o2, ctx, None)]
    if c.get("clean") and obs["rc"] == 0 and obs.get("leftover"):
        bad.append((c["op"] + ":clean:leftover", "--clean left intermediate files behind: %s" % obs["leftover"]))
    if c["op"] == "resample_same" and obs["rc"] == 0:
        # the --derivative table: flags of the input for every spline type, values (either adjacent slope) for the linear one
        e2 = dict(exp["d"])
        if (c["type"] or "akima") != "linear":
            e2["free"] = list(range(1, len(e2["y"]) + 1))
        o2 = dict(obs, rows=obs.get("rows2"), malformed=obs.get("malformed2"))
        bad += [(k.replace("resample_same:", "resample_same:derivative:", 1), t) for k, t in judge1(c, e2, o2, ctx, None)]
    return bad


def judge1(c, exp, obs, ctx=None, drift=None):
    op = c["op"]
    var = variant(c)
    pre = op + (":" + var if var else "")
    if obs["rc"] == -999:
        raise vlib.InfraError("script timed out: %s" % obs["cmds"])
    kind = exp["kind"]
    if kind == "exit":
        if ctx:
            ctx.count()
        if (obs["rc"] == 0) != exp["ok"]:
            return [(pre + (":same" if exp["ok"] else ":different") + ":exit",
                     "exit status %s, but the tables %s" % (obs["rc"], "agree" if exp["ok"] else "differ"))]
        return []
    if obs["rc"] != 0:
        return [(pre + ":exit", "exit status %s: %s" % (obs["rc"], (obs["stderr"] or obs["stdout"])[-300:].strip()))]
    if kind == "scalar":
        try:
            v = float(obs["scalar"])
        except ValueError:
            return [(pre + ":output", "printed %r instead of a number" % obs["scalar"])]
        if ctx:
            ctx.count()
        cands = [real(exp["v"])] + [real(a) for a in exp["alt"]]
        if not any(close(v, e) for e in cands):
            return [(pre + ":value", "printed %r, documented value %s" % (v, cands))]
        return []
    rows = obs["rows"]
    if rows is None:
        return [(pre + ":no-output", "no output table written")]
    if obs.get("malformed") is not None:
        return [(pre + ":malformed-row", "output row %r is not a table row" % obs["malformed"])]
    if kind == "avg":
        m = len(exp["y"])
    elif kind == "squares":
        m = len(exp["y2"])
    elif kind == "range":
        m = len(exp["lo"])
    else:
        m = len(exp["y"])
    if len(rows) != m:
        return [(pre + ":grid:rows", "%d rows written, %d expected" % (len(rows), m))]
    xs = expected_x(c, exp, m)
    for k in range(m):
        if abs(rows[k][0] - xs[k]) > 1e-12 * max(1.0, abs(xs[k])):
            return [(pre + ":grid:x", "row %d: x=%r, expected %r" % (k, rows[k][0], xs[k]))]
    bad = []
    if kind == "avg":
        for k in range(m):
            if ctx:
                ctx.count(2)
            if not close(rows[k][1], real(exp["y"][k])):
                bad.append((pre + ":mean", "row %d: mean %r, expected %r" % (k, rows[k][1], real(exp["y"][k]))))
                break
            if not close(rows[k][2] ** 2, real(exp["e2"][k])):
                bad.append((pre + ":error", "row %d: error %r, expected sqrt(%s)" % (k, rows[k][2], fr(exp["e2"][k]))))
                break
        return bad
    flags = exp["f"]
    altf = {a[0] - 1: a[1] for a in exp.get("altf", [])}
    for k in range(m):
        if rows[k][2] != flags[k] and rows[k][2] not in altf.get(k, ()):
            cls = point_class(c, exp, k)
            bad.append((pre + (":" + cls if cls else "") + ":flag",
                        "row %d (x=%r): flag %r, documented %r" % (k, rows[k][0], rows[k][2], [flags[k]] + list(altf.get(k, ())))))
            break
    if kind == "squares":
        for k in range(m):
            if ctx:
                ctx.count()
            y = rows[k][1]
            e2 = real(exp["y2"][k])
            ok = abs(y * y - e2) <= TOL * max(1.0, e2) and (e2 == 0 or (y > 0) == (exp["sg"][k] > 0))
            if not ok:
                bad.append((pre + ":value", "row %d: y=%r, documented y^2=%s sign %d" % (k, y, fr(exp["y2"][k]), exp["sg"][k])))
                break
        return bad
    if kind == "range":
        for k in range(m):
            if ctx:
                ctx.count()
            y = rows[k][1]
            lo, hi, yin = real(exp["lo"][k]), real(exp["hi"][k]), real(exp["y"][k])
            eps = TOL * max(1.0, abs(lo), abs(hi))
            st = exp["strict"][k]
            ok = math.isfinite(y) and lo - eps <= y <= hi + eps and (st != 1 or y < yin - eps) and (st != -1 or y > yin + eps)
            if not ok:
                bad.append((pre + ":value", "row %d: %r is not a smoothing of the input (range [%r,%r], input %r, strict %d)" % (
                    k, y, lo, hi, yin, st)))
                break
        if drift is not None and not bad:
            if any(not close(rows[k][1], real(exp["algo"][k])) for k in range(m)):
                drift.append({"op": op, "what": "smoothing weights differ from the transcription (1/4,1/2,1/4; (2,1)/3)", "seed": c.get("seed")})
        return bad
    # kind == "table"
    alt = {}
    for a in exp["alt"]:
        alt.setdefault(a[0] - 1, []).append(real(a[1]))
    free = set(k - 1 for k in exp["free"])
    lg = {a[0] - 1: (real(a[1]), real(a[2])) for a in exp.get("lg", [])}     # exponential extrapolation: ln(y/y0) is rational
    off = 0.0
    if exp["const"]:
        ref = next((k for k in range(m) if k not in free), None)
        if ref is not None:
            off = rows[ref][1] - real(exp["y"][ref])
            if not math.isfinite(off):
                off = 0.0
    for k in range(m):
        if ctx:
            ctx.count()
        y = rows[k][1]
        if k in lg:
            y0, lr = lg[k]
            if not (math.isfinite(y) and y / y0 > 0 and abs(math.log(y / y0) - lr) <= TOL * max(1.0, abs(lr))):
                cls = point_class(c, exp, k)
                bad.append((pre + (":" + cls if cls else "") + ":value",
                            "row %d (x=%r): written %r, documented %r*exp(%r)" % (k, rows[k][0], y, y0, lr)))
                break
            continue
        if k in free:
            if not math.isfinite(y):
                cls = point_class(c, exp, k)
                bad.append((pre + (":" + cls if cls else "") + ":not-a-number", "row %d: value %r" % (k, y)))
                break
            if drift is not None and not close(y - off, real(exp["y"][k])):
                drift.append({"op": op, "what": "undocumented point differs from the transcription", "row": k, "seed": c.get("seed")})
            continue
        cands = [real(exp["y"][k])] + alt.get(k, [])
        if not any(close(y - off, e) for e in cands):
            cls = point_class(c, exp, k)
            bad.append((pre + (":" + cls if cls else "") + ":value",
                        "row %d (x=%r): written %r, documented %s%s" % (k, rows[k][0], y, cands, " + const" if exp["const"] else "")))
            break
    return bad


REQUIRED_OPTIONS = _req()

# ------------------------------------------------------------------------------------------------
# trace direction: large random tables, judged by TLC
# ------------------------------------------------------------------------------------------------
LARGE_OPS = ["update_ibi_pot", "dist_boltzmann_invert", "table_linearop", "table_combine", "table_scale",
             "table_integrate", "resample_derivative", "potential_shift", "table_smooth", "table_extrapolate",
             "merge_tables", "add_POT"]
COEF = [[-1, 1], [2, 1], [1, 2], [0, 1], [-3, 4], [1, 1], [5, 2]]
CS = [[1, 1], [2, 1], [1, 2], [3, 1], [5, 2]]


def q(fra):
    return [fra.numerator, fra.denominator]


def rand_flags(rng, n, fam):
    if fam == 0:
        return ["i"] * n
    if fam == 1:
        a = rng.randint(0, min(12, (n - 1) // 3))
        b = rng.randint(0, min(12, (n - 1) // 3))
        return ["o"] * a + ["i"] * (n - a - b) + ["o"] * b
    pool = "iio" if fam == 2 else "iiiou"
    return [rng.choice(pool) for _ in range(n)]


def rand_tab(rng, n, fam=None):
    yd = rng.choice([1, 2, 4])
    return {"y": [q(Fraction(rng.randint(-16, 16), yd)) for _ in range(n)],
            "f": rand_flags(rng, n, rng.randint(0, 3) if fam is None else fam)}


def rand_exps(rng, n):
    return [ZEXP if rng.randint(0, 8) == 0 else rng.randint(-4, 3) for _ in range(n)]


def large_case(rng, op, n, ident):
    c = {"id": ident, "op": op, "n": n, "seed": ident, "x0": rng.randint(0, 2), "h": rng.choice([[1, 4], [1, 2], [1, 1], [1, 8]])}
    # equidistant or gaps 1..3 (scale: two readings on a non-equidistant table would make TLC's alternative set
    # quadratic for 1000 points; resample_derivative: the half-step output grid would triple; both stay equidistant here)
    if op in ("table_scale", "resample_derivative") or rng.randint(0, 1) == 0:
        c["g"] = list(range(n))
    else:
        g = [0]
        for _ in range(n - 1):
            g.append(g[-1] + rng.randint(1, 3))
        c["g"] = g
    if op == "update_ibi_pot":
        tg = rand_exps(rng, n)
        cu = list(tg) if rng.randint(0, 4) == 0 else rand_exps(rng, n)
        lead = rng.randint(0, n // 5) if rng.randint(0, 1) else 0
        cu = [ZEXP] * lead + cu[lead:]
        c.update(tg=tg, cu=cu, c=rng.choice(CS),
                 pot={"y": rand_tab(rng, n)["y"], "f": [rng.choice("iiiiou") for _ in range(n)]})
    elif op == "dist_boltzmann_invert":
        usemin = rng.randint(0, 1) == 1
        mk = rng.randint(-2, 0) if usemin else -40
        lo = mk if usemin else -4
        a, z = rng.randint(0, 3), rng.randint(0, 3)

        def und():
            return mk - rng.randint(0, 1) if usemin and rng.randint(0, 1) else ZEXP
        e = []
        for k in range(n):
            if k < a or k >= n - z:
                e.append(und())
            elif k < a + 10 or rng.randint(0, 9) != 0:
                e.append(lo + 1 + rng.randint(0, 5))
            else:
                e.append(und())
        c.update(e=e, usemin=usemin, mk=mk, c=rng.choice(CS), type=rng.choice(["non-bonded", "dihedral"]))
    elif op == "table_linearop":
        c.update(t=rand_tab(rng, n), a=rng.choice(COEF), b=rng.choice(COEF), wf=rng.choice(["", "", "i", "o"]))
    elif op == "table_combine":
        cop = rng.choice(["+", "-", "x", "*", "/", "d", "d2", "="])
        t1 = rand_tab(rng, n)
        t2 = rand_tab(rng, n)
        t2["f"] = list(t1["f"])
        for k in range(n):
            if cop == "/" and t2["y"][k][0] == 0:
                t2["y"][k] = [1, 1]
            if cop == "=" and rng.randint(0, 1) == 0:
                t2["y"][k] = list(t1["y"][k])
        c.update(t1=t1, t2=t2, cop=cop, sc=rng.choice([[1, 1], [1, 1], [1, 2], [-2, 1]]), wf="", noflags=False)
    elif op == "table_scale":
        c.update(t=rand_tab(rng, n), p1=rng.choice(COEF), p2=rng.choice(COEF))
    elif op == "table_integrate":
        mode = "sphere" if n <= 100 and rng.randint(0, 3) == 0 else "plain"
        if mode == "sphere":
            c["h"] = rng.choice([[1, 4], [1, 8]])
            c["g"] = list(range(n))
        c.update(t=rand_tab(rng, n), mode=mode, kt=[1, 1])
        c["from"] = rng.choice(["left", "right"])
    elif op == "resample_derivative":
        c.update(t=rand_tab(rng, n, rng.randint(0, 2)))
    elif op == "potential_shift":
        t = rand_tab(rng, n)
        t["f"][rng.randint(0, n - 1)] = "i"
        c.update(t=t, type=rng.choice(["non-bonded", "bond", "angle", "dihedral", "bonded"]))
    elif op == "table_smooth":
        c.update(t=rand_tab(rng, n))
    elif op == "table_extrapolate":
        c["h"] = rng.choice([[1, 4], [1, 2], [1, 1]])
        t = rand_tab(rng, n, 1)
        A = rng.randint(1, 3)
        c.update(t=t, A=A, defA=False, fn=rng.choice(["constant", "linear", "quadratic", "periodic"]),
                 region=rng.choice(["left", "right", "leftright"]), C=rng.choice([[2, 1], [1, 2]]), fu=rng.randint(0, 2) != 0)
    elif op == "merge_tables":
        ns = rng.randint(1, n)
        c.update(src=rand_tab(rng, ns), off=rng.randint(0, n - ns), dst=rand_tab(rng, n), wf=rng.choice(["", "", "i", "o"]),
                 noflags=rng.randint(0, 3) == 0, novalues=rng.randint(0, 3) == 0)
    elif op == "add_POT":
        c.update(t1=rand_tab(rng, n, 3), t2=rand_tab(rng, n, 3))
    return c


def snap(v):
    """observed double -> lattice rational [n, d] (d <= 65536, 31 bits), or None if it is not on the lattice"""
    if not math.isfinite(v):
        return None
    f = Fraction(v).limit_denominator(65536)
    if abs(float(f) - v) > TOL * max(1.0, abs(v)) or abs(f.numerator) >= 2 ** 31 - 1:
        return None
    return [f.numerator, f.denominator]


def trace_record(c, obs):
    """(record for TLC, None) or (None, (key, text)) when the output cannot even be put on the lattice"""
    pre = c["op"] + (":" + variant(c) if variant(c) else "")
    if obs["rc"] == -999:
        raise vlib.InfraError("script timed out: %s" % obs["cmds"])
    if obs["rc"] != 0:
        return None, (pre + ":exit", "exit status %s: %s" % (obs["rc"], (obs["stderr"] or obs["stdout"])[-300:].strip()))
    rows = obs["rows"]
    if rows is None:
        return None, (pre + ":no-output", "no output table written")
    if obs.get("malformed") is not None:
        return None, (pre + ":malformed-row", "output row %r is not a table row" % obs["malformed"])
    xs = half_grid(c) if c["op"] == "resample_derivative" else grid(c)
    m = len(xs)
    if len(rows) != m:
        return None, (pre + ":grid:rows", "%d rows written, %d expected" % (len(rows), m))
    ys = []
    for k in range(m):
        if abs(rows[k][0] - xs[k]) > 1e-12 * max(1.0, abs(xs[k])):
            return None, (pre + ":grid:x", "row %d: x=%r, expected %r" % (k, rows[k][0], xs[k]))
        s = snap(rows[k][1])
        if s is None:
            return None, (pre + ":off-lattice", "row %d (x=%r): value %r is not a lattice number" % (k, rows[k][0], rows[k][1]))
        if rows[k][2] not in ("i", "o", "u"):
            return None, (pre + ":flag", "row %d: flag %r" % (k, rows[k][2]))
        ys.append(s)
    r = {k: v for k, v in c.items() if k != "seed"}
    r["obs"] = {"y": ys, "f": [row[2] for row in rows]}
    return r, None


def large_sizes(rng, count, quick):
    out = []
    for i in range(count):
        if quick:
            out.append(rng.randint(20, 120))
        elif i % 8 == 7:
            out.append(1000)
        elif i % 4 == 3:
            out.append(rng.randint(100, 400))
        else:
            out.append(rng.randint(10, 80))
    return out


# ------------------------------------------------------------------------------------------------
def run(ctx):
    bindir = vlib.ensure_build(["csg_resample", "csg_property"])
    quick = ctx.quick
    base = os.path.join(vlib.SCRATCH, "c19-%d" % os.getpid())
    shutil.rmtree(base, ignore_errors=True)
    rn = Runner(bindir, base)
    ctx.rule = ("replay: one case = one run of a real script (pipeline of two for integrate->derivative) on TLC-chosen "
                "input, compared point by point with the TLC expectation; trace: one run on a large random table, judged by "
                "TLC; non-trivial = distinct (script, option variant, size); an evaluation = one compared number")
    ctx.assumptions += [
        "inputs are dyadic rationals k/d (d in 1,2,4) on grids (x0+g_i)*h, h in 1/8..1, g equidistant or strictly increasing with "
        "gaps 1..3 (no help text restricts a tool to equidistant tables; trapezoid and slopes are stated for general gaps); "
        "csg_resample on the grid of its input additionally with >= 40 points and decimal steps 0.05, 0.1, 0.01k and flag "
        "transitions at late points (flags must be preserved exactly); distributions are 2^e (e in -6..6) or 0; "
        "kT = c/ln 2; --min = 1.5*2^m: no decision of a script sits on a rounding boundary",
        "values are compared with 1e-9 (relative above 1), flags and row count exactly, abscissae to 1e-12",
        "input-file variants chosen by TLC that must not matter: an error column (x y yerr flag, tools run without "
        "--with-errors), the spelling of an exact zero (0.0, 0, -0, -0.0, 0e0), already shifted potentials; idempotent "
        "operators (shift, dist_adjust, change_flag, extrapolate, merge) are executed twice: script(script(t)) = script(t)",
        "two-valued points (DESIGN 7.3a scan start of update_ibi_pot.pl, several maxima of the current rdf, closest-point "
        "ties of table_get_value, minimum over 'i' points or all points in potential_shift, flag of a midpoint in the "
        "derivative) admit every reading; points the documentation leaves open (undefined region of the Boltzmann inversion, "
        "entries skipped by table_combine --withflag, add_POT with an undefined first table) only have to be numbers",
        "table_smooth.pl documents no formula: the verdict is the declarative smoothing property, the script's weights are "
        "a transcription (difference = warning transcription_drift)",
        "Boltzmann inversion needs >= 10 valid points (the script refuses fewer): its tables have 10..19 points"]
    drift = []

    # ---------------- replay direction -------------------------------------------------------------
    if getattr(ctx, "replay", None):
        rec = json.load(open(ctx.replay))["replay"]
        recs = [rec]
        largecount = 0
    else:
        nseed = 3 if quick else 62
        seed0 = 1 + (ctx.seed - 1) * 1000
        recs = []
        step = nseed if quick else 16
        for s0 in range(seed0, seed0 + nseed, step):
            ns = min(step, seed0 + nseed - s0)
            res = vlib.tlc("tablescripts", "MCTS", cfg="MCTS.cfg", workers=WORKERS, timeout=2400,
                           env={"C19_SEED0": s0, "C19_NSEED": ns, "C19_NLO": 3, "C19_NHI": 8, "C19_EMIT": 1})
            vlib.tlc_must_hold(res, "TableScripts algebra (Algebra, SameGrid, FlagsAsStated)")
            ctx.add_tlc("MCTS seeds %d..%d" % (s0, s0 + ns - 1), res, constants={"sizes": "3..8", "ops": len(OPNAMES)})
            if len(res.records) * 2 != res.distinct:
                raise vlib.InfraError("case export incomplete: %d records for %d states" % (len(res.records), res.distinct))
            recs += res.records
        recs.sort(key=lambda r: (r["c"]["op"], r["c"]["n"], r["c"]["seed"]))
        # every enumerated option value of every script must be exercised in every tier (the cases cycle through them)
        seen = set()
        for r in recs:
            for k, v in r["c"].items():
                if isinstance(v, (str, bool)):
                    seen.add((r["c"]["op"], k, v))
                if k == "fit" and v:
                    seen.add((r["c"]["op"], k, "yes"))
            if r["exp"].get("kind") == "exit":
                seen.add((r["c"]["op"], "ok", r["exp"]["ok"]))
        missing = [x for x in REQUIRED_OPTIONS if x not in seen]
        if missing:
            raise vlib.InfraError("option values not exercised by the TLC cases: %s" % missing)
        ctx.extra["option_values_exercised"] = len(REQUIRED_OPTIONS)
        # exhaustive small domain of the two logarithmic scripts: every target/current pair over {0,1,4}^3 and every
        # i/u pattern of the current potential (algebra on all of them; thorough also on 4 points); the 3-point
        # update_ibi_pot cases are executed too (quick: every 60th)
        if not quick:
            res = vlib.tlc("tablescripts", "MCExh", cfg="MCExh.cfg", workers=WORKERS, timeout=2400,
                           env={"C19_XLO": 4, "C19_XHI": 4, "C19_EMIT": 0})
            vlib.tlc_must_hold(res, "TableScripts algebra on the exhaustive 4-point domain")
            ctx.add_tlc("MCExh 4 points (algebra only)", res)
        res = vlib.tlc("tablescripts", "MCExh", cfg="MCExh.cfg", workers=WORKERS, timeout=2400,
                       env={"C19_XLO": 3, "C19_XHI": 3, "C19_EMIT": 1})
        vlib.tlc_must_hold(res, "TableScripts algebra on the exhaustive 3-point domain")
        ctx.add_tlc("MCExh 3 points", res)
        xr = sorted((r for r in res.records if r["c"]["op"] == "update_ibi_pot"),
                    key=lambda r: (r["c"]["tg"], r["c"]["cu"], r["c"]["pot"]["f"]))
        if len(xr) != 27 * 27 * 8:
            raise vlib.InfraError("exhaustive export incomplete: %d update_ibi_pot cases" % len(xr))
        recs += xr[::60] if quick else xr
        largecount = 3 if quick else 165

    def via_call(i, c):
        if c.get("cop") == "*":      # the help text itself says: use x "to avoid shell trouble" (csg_call expands *)
            return False
        return c["op"] not in SHELL_ONLY and c["op"] in CALLKEY and i % 8 == 5

    def work(a):
        i, r = a
        return rn.run(r["c"], i, via_call(i, r["c"]))

    with ThreadPoolExecutor(max_workers=WORKERS) as ex:
        outs = list(ex.map(work, list(enumerate(recs))))
    for i, (r, obs) in enumerate(zip(recs, outs)):
        c, exp = r["c"], r["exp"]
        ctx.traces += 1
        ctx.nontriv((c["op"], variant(c), c["n"]))
        bad = judge(c, exp, obs, ctx, drift)
        if bad:
            obs2 = rn.run(c, 500000 + i, via_call(i, c))          # re-run once before reporting (DESIGN 7.7)
            keys2 = {k for k, _ in judge(c, exp, obs2)}
            for key, text in bad:
                if key in keys2:
                    ctx.violation(key, "%s [%s]" % (text, " ; ".join(obs["cmds"])),
                                  {"c": c, "exp": exp, "cmds": obs["cmds"], "stderr": obs["stderr"][-500:]})
        if i % max(1, len(recs) // 6) == 0:
            ctx.sample({"script": c["op"], "cmd": obs["cmds"][-1].replace(base, "$SCRATCH"), "case": c, "expected": exp})

    # ---------------- trace direction -----------------------------------------------------------------
    if largecount:
        rng = random.Random(ctx.seed * 7919 + (0 if quick else 1))
        cases = []
        for op in LARGE_OPS:
            for n in large_sizes(rng, largecount, quick):
                if op == "dist_boltzmann_invert":
                    n = max(n, 16)
                cases.append(large_case(rng, op, n, len(cases) + 1))

        def lwork(c):
            return rn.run(c, 1000000 + c["id"])

        with ThreadPoolExecutor(max_workers=WORKERS) as ex:
            louts = list(ex.map(lwork, cases))
        trecs, byid = [], {}
        for c, obs in zip(cases, louts):
            ctx.traces += 1
            ctx.nontriv((c["op"], variant(c), "large", c["n"] // 100))
            rec, err = trace_record(c, obs)
            if err:
                obs2 = rn.run(c, 2000000 + c["id"])
                rec2, err2 = trace_record(c, obs2)
                if err2 and err2[0] == err[0]:
                    ctx.violation(err[0], "%s [n=%d, %s]" % (err[1], c["n"], " ; ".join(obs["cmds"])), {"large": c})
                continue
            trecs.append(rec)
            byid[c["id"]] = (c, obs)
        # chunks of bounded size (points), validated by parallel single-worker TLC runs
        chunks, cur, pts = [], [], 0
        for rec in trecs:
            cur.append(rec)
            pts += rec["n"]
            if pts >= 12000:
                chunks.append(cur)
                cur, pts = [], 0
        if cur:
            chunks.append(cur)

        def validate(a):
            ci, chunk = a
            path = os.path.join(base, "trace-%d.ndjson" % ci)
            vlib.write_ndjson(path, chunk)
            res = vlib.tlc("tablescripts", "TraceTS", cfg="TraceTS.cfg", workers=1, timeout=2400, env={"TRACE": path}, heap="3g")
            vlib.tlc_must_hold(res, "TraceTS (verdicts are printed, never an invariant failure)")
            if len(res.records) != len(chunk):
                raise vlib.InfraError("trace chunk %d: %d verdicts for %d records" % (ci, len(res.records), len(chunk)))
            return res

        with ThreadPoolExecutor(max_workers=WORKERS) as ex:
            vres = list(ex.map(validate, list(enumerate(chunks))))
        tstates = 0
        for res in vres:
            tstates += res.distinct
            ctx.states += res.distinct
            ctx.transitions += res.generated
            for v in res.records:
                c, obs = byid[v["id"]]
                ctx.count(c["n"])
                if v["drift"]:
                    drift.append({"op": c["op"], "what": "large table: output differs from the transcription at an undocumented point / smoothing weights", "n": c["n"]})
                if not v["ok"]:
                    var = variant(c)
                    key = c["op"] + (":" + var if var else "") + ":" + ("grid:rows" if v["cls"] == "rows" else v["cls"])
                    k = v["k"]
                    row = obs["rows"][k - 1] if 0 < k <= len(obs["rows"]) else None
                    ctx.violation(key, "TLC rejects the output of a %d-point table at row %d (%s; %d rows rejected) [%s]" % (
                        c["n"], k - 1, row, v["nbad"], " ; ".join(obs["cmds"])), {"large": c, "verdict": v})
        ctx.configs.append({"config": "TraceTS (%d chunks, -workers 1 each)" % len(chunks), "distinct": tstates,
                            "records": len(trecs), "largest_table": max(c["n"] for c in cases)})
        if trecs:
            big = max(trecs, key=lambda r: r["n"])
            ctx.sample({"trace_record": {"op": big["op"], "n": big["n"], "first_rows": big["obs"]["y"][:4]}})

    ctx.extra["transcription_drift"] = len(drift)
    if drift:
        ctx.extra["transcription_drift_samples"] = drift[:5]
        vlib.log("WARNING: %d outputs differ from the transcription at points the documentation leaves open (not a verdict): %s" % (
            len(drift), drift[0]))
    ctx.extra["scripts_covered"] = sorted(set(SCRIPTFILE.values()) | {"table_change_flag.sh", "table_dummy.sh", "table_average.sh",
                                                                      "potential_extrapolate.sh", "csg_resample --derivative", "csg_call"})
    if not ctx.violations:
        shutil.rmtree(base, ignore_errors=True)
    ctx.exhaustive = False
