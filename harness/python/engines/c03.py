"""C03 - neighbour search finds exactly the pairs and triples within the cutoff, once.
spec/nbgrid: NbGrid (Spec = brute-force minimum image, Algo = transcription of nblistgrid.cc /
nblist.cc / nblistgrid_3body.cc / nblist_3body.cc), NbGridMC (lattice domain families, vectors),
NbLemma (the oracle's image range), ExclusionList (mode H), TraceNbGrid (random runs of the real
code validated by TLC).  Python only builds command lines from TLC's vectors, converts lattice
integers to reals and compares; every expectation comes from TLC."""
import atexit
import collections
import json
import os
import random
import vlib

TYPES = {0: "*", 1: "A", 2: "B", 3: "C"}

MANIFEST = dict(
        engine="nbgrid", design_ref="DESIGN.md 5/C03",
        technique="TLA+ spec (pairs/triples from a brute-force minimum image vs a transcription of the cell-grid "
                  "and simple searches; ExclusionList as a history machine) model-checked with TLC; TLC-exported "
                  "vectors and call histories replayed into NBListGrid/NBList/NBListGrid_3Body/NBList_3Body/"
                  "ExclusionList; random runs of the real code validated by TLC against the Spec operators",
        text="TLC enumerates a lattice domain of configurations (0..4 beads, orthorhombic boxes with 1..4 cells per "
             "direction in every combination, reduced triclinic boxes, beads next to every cell boundary, outside "
             "the box, at negative coordinates, coincident; bead types, molecules, bonded interactions) and checks "
             "on each that the transcribed grid and simple searches deliver exactly the spec's pairs (every pair "
             "once, with a shortest connection vector) and store exactly the spec's triples; each configuration is "
             "exported with its expected pairs/triples and replayed into the real classes with a counting match "
             "callback (callback multiset, stored pairs with r and dist, stored triples). Exclusion histories "
             "(CreateExclusions/Insert/Remove/list variants) are enumerated to a fixed depth and replayed with the "
             "full IsExcluded relation compared after every call. Random larger configurations run through the "
             "real code are accepted or rejected by TLC evaluating the Spec operators on the logged result. "
             "Two mode-H layers: one list object used for several Generate calls (other box, cutoff, lists, with and "
             "without Cleanup) must report the pairs/triples of each call's own configuration; the Topology object "
             "(create/copy/cleanup/setBox/rename/exclusions) must answer every query as recomputed from what was created.",
        note="Trusted: TLC, the dyadic lattice argument (coordinates k/8 nm, rc given as rc^2: every distance "
             "decision differs by >= 1 lattice unit^2), the driver protocol. Only cutoffs up to half the shortest "
             "box height are asserted (one-cell directions are replayed but only recorded). For the 3-body lists "
             "only the stored triples are compared (the grid variant may call the match function for (i,j,k) and "
             "(i,k,j)). Not modelled: overlapping but distinct bead lists, non-reduced triclinic boxes, open boxes, custom pair types, match functions returning false.")


# ----------------------------------------------------------------------------------------------
# building driver commands from a configuration (lattice integers, 1-based bead ids)
# ----------------------------------------------------------------------------------------------

def conf_cmds(r):
    cmds = ["top " + " ".join(str(v) for v in r["box"])]
    for p, t, m in zip(r["pos"], r["typ"], r["mol"]):
        cmds.append("bead %s %d %d %d %d" % (TYPES[t], m - 1, p[0], p[1], p[2]))
    for ia in r["ias"]:
        cmds.append("ia %d %s" % (len(ia), " ".join(str(b - 1) for b in ia)))
    if r["ias"]:
        cmds.append("rebuild")
    return cmds


def run_cmds(r, run):
    sel = " ".join(TYPES[s] for s in run["s"])
    kind = "pair" if run["k"] == "p" else "tri"
    return ["%s %s %d %d %s" % (kind, algo, r["rc2"], 1 if run["x"] else 0, sel) for algo in ("grid", "simple")]


def parse_pairs(line, tag):
    p = line.split()
    if not p or p[0] != tag:
        return None
    n = int(p[1])
    out = []
    for k in range(n):
        q = p[2 + 6 * k: 8 + 6 * k]
        out.append((int(q[0]) + 1, int(q[1]) + 1, float(q[2]), float(q[3]), float(q[4]), float(q[5])))
    return out


def parse_triples(line):
    p = line.split()
    if not p or p[0] != "stored":
        return None
    n = int(p[1])
    return [(int(p[2 + 5 * k]) + 1, int(p[3 + 5 * k]) + 1, int(p[4 + 5 * k]) + 1) for k in range(n)]


def lattice(x):
    """real nm -> lattice integer (units of 1/8 nm); None if not on the lattice"""
    v = x * 8.0
    k = round(v)
    return k if abs(v - k) <= 1e-9 * max(1.0, abs(k)) else None


def variant(run):
    if run["k"] == "p":
        return "1list" if len(run["s"]) == 1 else "2lists"
    return {1: "1type", 2: "2types"}.get(len(run["s"]), "3types" if len(set(run["s"])) == 3 else "3lists-aab")


CLASS = {("p", "grid"): "NBListGrid", ("p", "simple"): "NBList",
         ("t", "grid"): "NBListGrid_3Body", ("t", "simple"): "NBList_3Body"}


def conf_class(r):
    box = "ortho" if r["box"][1] == 0 and r["box"][3] == 0 and r["box"][4] == 0 else "triclinic"
    mn = min(r["N"])
    return "minN=%s" % ("3+" if mn >= 3 else str(mn))


# ----------------------------------------------------------------------------------------------
# comparing one run of the real code with the expectation (rows from TLC)
# ----------------------------------------------------------------------------------------------

def cmp_pair_list(obs, rows, what):
    """obs: [(f,s,rx,ry,rz,d)], rows: {(i,j): (v, d2, uniq)} -> list of (kind, text)"""
    bad = []
    cnt = collections.Counter((min(o[0], o[1]), max(o[0], o[1])) for o in obs)
    for k in rows:
        if cnt.get(k, 0) == 0:
            bad.append(("%s-missing" % what, "pair %s within the cutoff (d2=%d) not %s" % (k, rows[k][1], what)))
        elif cnt[k] > 1:
            bad.append(("%s-duplicate" % what, "pair %s %s %d times" % (k, what, cnt[k])))
    for k in cnt:
        if k not in rows:
            bad.append(("%s-spurious" % what, "pair %s %s but not a neighbour pair of the spec" % (k, what)))
    for o in obs:
        k = (min(o[0], o[1]), max(o[0], o[1]))
        if k not in rows:
            continue
        v, d2, uniq = rows[k]
        rl = [lattice(o[2]), lattice(o[3]), lattice(o[4])]
        if None in rl:
            bad.append(("%s-vector" % what, "connection vector of %s not on the lattice: %r" % (k, o[2:5])))
            continue
        sgn = 1 if o[0] < o[1] else -1
        if uniq and [sgn * x for x in rl] != list(v):
            bad.append(("%s-vector" % what, "pair (%d,%d): r=%s expected %s" % (o[0], o[1], rl, [sgn * x for x in v])))
        elif sum(x * x for x in rl) != d2:
            bad.append(("%s-vector" % what, "pair (%d,%d): |r|^2=%d expected %d" % (o[0], o[1], sum(x * x for x in rl), d2)))
        if not vlib.close((o[5] * 8.0) ** 2, d2, 1e-9, 1e-9):
            bad.append(("%s-dist" % what, "pair (%d,%d): dist^2=%r expected %d" % (o[0], o[1], (o[5] * 8.0) ** 2, d2)))
    return bad


def cmp_triples(obs, rows):
    bad = []
    cnt = collections.Counter((o[0], min(o[1], o[2]), max(o[1], o[2])) for o in obs)
    for k in rows:
        if cnt.get(k, 0) == 0:
            bad.append(("stored-missing", "triple %s not stored" % (k,)))
        elif cnt[k] > 1:
            bad.append(("stored-duplicate", "triple %s stored %d times" % (k, cnt[k])))
    for k in cnt:
        if k not in rows:
            bad.append(("stored-spurious", "triple %s stored but not a triple of the spec" % (k,)))
    return bad


class Replayer:
    def __init__(self, ctx, exe):
        self.ctx = ctx
        self.exe = exe
        self.beyond = 0          # mismatches on configurations outside the statement's domain (recorded only)
        self.beyond_samples = []
        self.drift = 0           # real code differs from the Algo transcription (not from the Spec): warning only
        self.drift_samples = []
        self.drift_checked = 0
        self.runs = 0

    def report(self, r, key, text):
        if r["dom"]:
            self.ctx.violation(key, text + " | box=%s rc2=%d pos=%s N=%s" % (r["box"], r["rc2"], r["pos"], r["N"]), r)
        else:
            self.beyond += 1
            if len(self.beyond_samples) < 5:
                self.beyond_samples.append({"key": key, "what": text, "box": r["box"], "rc2": r["rc2"], "pos": r["pos"]})

    def report_run(self, r, run, cls, algo, base, bad, seen):
        """one key per root cause: a stored-X that merely follows from callback-X, and a failure of the
        run with exclusions that the same run without exclusions shows as well, are not reported again"""
        kinds = set(k for k, _ in bad)
        for kind, text in bad:
            if kind.startswith("stored-") and "callback-" + kind[7:] in kinds:
                continue
            if run["x"] and (cls, variant(run), kind) in seen:
                continue
            if not run["x"]:
                seen.add((cls, variant(run), kind))
            self.report(r, base + ":" + kind, "%s (%s, lists %s): %s" % (cls, algo, [TYPES[s] for s in run["s"]], text))

    def note_drift(self, r, text):
        self.drift += 1
        if len(self.drift_samples) < 5:
            self.drift_samples.append({"what": text, "box": r["box"], "rc2": r["rc2"], "pos": r["pos"]})

    def replay(self, recs, family):
        ctx = self.ctx
        items = []
        for i, r in enumerate(recs):
            cmds = conf_cmds(r)
            r["_nsetup"] = len(cmds)
            cmds.append("grid %d" % r["rc2"])
            for run in r["runs"]:
                cmds += run_cmds(r, run)
            items.append((i, cmds))
        results, crashes = vlib.run_items(self.exe, items, timeout=3000)
        for i, r in enumerate(recs):
            ctx.count()
            cc = conf_class(r)
            n = len(r["pos"])
            if n >= 2 and (r["bnd"] or not r["dom"] or min(r["N"]) < 3 or any(p[k] < 0 or p[k] >= r["box"][(0, 2, 5)[k]]
                                                                             for p in r["pos"] for k in range(3))):
                ctx.nontriv((family, tuple(r["box"]), r["rc2"], json.dumps(r["pos"]), json.dumps(r["typ"]), json.dumps(r["ias"])))
            if i in crashes:
                self.report(r, "crash:%s" % cc, "driver aborted (memory error / assertion): " + crashes[i])
                continue
            out = results[i]
            for k in range(r["_nsetup"]):
                if not out[k] or not out[k][0].startswith("ok"):
                    raise vlib.InfraError("driver setup failed on %s: %s" % (r, out[k]))
            pos = r["_nsetup"]
            gl = out[pos][0].split() if out[pos] else ["?"]
            pos += 1
            # ---- transcription conformance (warning only, DESIGN 7.8): cell counts and cell of every bead
            if gl[0] == "grid":
                self.drift_checked += 1
                Nreal = [int(x) for x in gl[1:4]]
                cells = [int(x) for x in gl[4:]]
                if not r["ntie"] and Nreal != r["N"]:
                    self.note_drift(r, "cells per direction %s, transcription %s" % (Nreal, r["N"]))
                elif not r["ntie"] and not r["bnd"]:
                    exp = [c[0] + 10 * c[1] + 100 * c[2] for c in r["cell"]]
                    if cells != exp:
                        self.note_drift(r, "bead cells %s, transcription %s" % (cells, exp))
            else:
                self.report(r, "grid-probe:%s" % cc, "InitializeGrid/getCell failed: %s" % out[pos - 1])
            seen = set()     # (class, variant, kind) already reported for this configuration without exclusions
            for run in r["runs"]:
                self.runs += 1
                for algo in ("grid", "simple"):
                    o = out[pos]
                    pos += 1
                    cls = CLASS[(run["k"], algo)]
                    base = "%s:%s:%s:%s" % (cls, variant(run), "excl" if run["x"] else "noexcl", cc)
                    if not o or o[0].startswith("exc") or len(o) < 2:
                        self.report(r, base + ":exception", "Generate failed: %s" % (o,))
                        continue
                    if run["k"] == "p":
                        rows = {(w[0], w[1]): (tuple(w[2:5]), w[5], w[6] == 1) for w in run["rows"]}
                        calls = parse_pairs(o[0], "calls")
                        stored = parse_pairs(o[1], "stored")
                        bad = cmp_pair_list(calls, rows, "callback") + cmp_pair_list(stored, rows, "stored")
                        self.report_run(r, run, cls, algo, base, bad, seen)
                        if algo == "grid" and not bad and not r["bnd"] and not r["ntie"]:
                            if [[c[0], c[1]] for c in calls] != run["gc"]:
                                self.note_drift(r, "order of callbacks %s, transcription %s" % ([c[:2] for c in calls], run["gc"]))
                    else:
                        rows = set((w[0], w[1], w[2]) for w in run["rows"])
                        stored = parse_triples(o[1])
                        self.report_run(r, run, cls, algo, base, cmp_triples(stored, rows), seen)
                        if algo == "grid" and not r["bnd"] and not r["ntie"]:
                            ncall = int(o[0].split()[1])
                            if ncall != run["gn"]:
                                self.note_drift(r, "3-body grid match calls %d, transcription %d" % (ncall, run["gn"]))


# ----------------------------------------------------------------------------------------------
# exclusion histories (mode H)
# ----------------------------------------------------------------------------------------------

XCMD = {"ins": "xins", "rem": "xrem", "exl": "xexl", "reml": "xreml", "insl": "xinsl"}


def replay_exclusions(ctx, exe, hists):
    items = []
    for i, r in enumerate(hists):
        n = len(r["mol"])
        cmds = ["top 16 0 16 0 0 16"]
        for b in range(n):
            cmds.append("bead A %d %d 0 0" % (r["mol"][b] - 1, b))
        for ia in r["ias"]:
            cmds.append("ia %d %s" % (len(ia), " ".join(str(b - 1) for b in ia)))
        r["_nsetup"] = len(cmds)
        for op in r["h"]:
            if op["a"] == "create":
                cmds.append("xcreate")
            else:
                cmds.append("%s %s" % (XCMD[op["a"]], " ".join(str(b - 1) for b in op["l"])))
            cmds.append("xq")
        items.append((i, cmds))
    results, crashes = vlib.run_items(exe, items, timeout=3000)
    for i, r in enumerate(hists):
        ctx.traces += 1
        ops = [o["a"] for o in r["h"]]
        ctx.nontriv(("excl", json.dumps(r["mol"]), json.dumps(r["ias"]), json.dumps([(o["a"], o["l"]) for o in r["h"]])))
        if i in crashes:
            ctx.violation("ExclusionList:crash", "driver aborted: " + crashes[i], r)
            continue
        out = results[i]
        for j, op in enumerate(r["h"]):
            res = out[r["_nsetup"] + 2 * j]
            q = out[r["_nsetup"] + 2 * j + 1]
            if not res or not res[0].startswith("ok") or not q or not q[0].startswith("excl"):
                ctx.violation("ExclusionList:%s:exception" % op["a"], "call %d (%s %s) failed: %s %s" % (j, op["a"], op["l"], res, q), r)
                break
            p = [int(x) + 1 for x in q[0].split()[1:]]
            got = sorted((p[2 * k], p[2 * k + 1]) for k in range(len(p) // 2))
            exp = sorted((a, b) for a, b in op["obs"])
            if got != exp:
                # identify the call site: the operation whose effect is wrong and what preceded it
                kind = "excluded-but-should-not" if set(got) - set(exp) else "not-excluded-but-should"
                hist = "after-remove" if "rem" in ops[:j] or "reml" in ops[:j] else "fresh"
                ctx.violation("ExclusionList:%s:%s:%s" % (op["a"], kind, hist),
                              "history %s: IsExcluded relation %s, expected %s (molecules %s, interactions %s)" % (
                                  [(o["a"], o["l"]) for o in r["h"][:j + 1]], got, exp, r["mol"], r["ias"]), r)
                break


# ----------------------------------------------------------------------------------------------
# object re-use histories (mode H, spec/nbgrid/NbHist.tla): one list object, several Generate calls
# ----------------------------------------------------------------------------------------------

def _change(prev, op):
    """what differs between two consecutive Generate calls on the same object"""
    if prev is None:
        return "first"
    d = []
    if op["box"] != prev["box"]:
        d.append("box")
    if op["pos"] != prev["pos"]:
        d.append("positions")
    if op["rc2"] != prev["rc2"]:
        d.append("cutoff-up" if op["rc2"] > prev["rc2"] else "cutoff-down")
    if (op["s"], op["x"]) != (prev["s"], prev["x"]):
        d.append("lists")
    return "same" if not d else d[0] if len(d) == 1 else "multi"


def reuse_vacuity(hists):
    """the histories must contain, for pair and triple lists, two calls on the SAME box and positions where only the
    cutoff grows, the cell count really changes and the larger cutoff finds something the smaller did not"""
    need = {"p": False, "t": False}
    kinds = collections.Counter()
    for r in hists:
        gens = [o for o in r["h"] if o["a"] == "gen"]
        for a, b in zip(gens, gens[1:]):
            c = _change(a, b)
            kinds[(r["kind"], c)] += 1
            if c == "cutoff-up" and a["N"] != b["N"]:
                ida = set(tuple(w[:2]) if r["kind"] == "p" else tuple(w) for w in a["rows"])
                idb = set(tuple(w[:2]) if r["kind"] == "p" else tuple(w) for w in b["rows"])
                if idb - ida:
                    need[r["kind"]] = True
    for k in ("p", "t"):
        for c in ("cutoff-up", "cutoff-down", "positions", "lists", "box"):
            if not kinds[(k, c)]:
                raise vlib.InfraError("vacuous re-use domain: no history of kind %s where only '%s' changes" % (k, c))
        if not need[k]:
            raise vlib.InfraError("vacuous re-use domain: no history of kind %s with the same box, a larger cutoff, "
                                  "another cell count and new neighbours" % k)
    return {"%s:%s" % k: v for k, v in sorted(kinds.items())}


def replay_reuse(ctx, exe, hists):
    items = []
    for i, r in enumerate(hists):
        first = next(op for op in r["h"] if op["a"] == "gen")
        conf = {"box": first["box"], "pos": first["pos"], "typ": r["typ"], "mol": r["mol"], "ias": r["ias"]}
        for algo in ("grid", "simple"):          # one driver item per (history, class): a crash is attributed exactly
            cmds = conf_cmds(conf)
            r["_nsetup"] = len(cmds)
            cmds.append("obj new %s %s" % ("pair" if r["kind"] == "p" else "tri", algo))
            for op in r["h"]:
                if op["a"] == "clean":
                    cmds.append("obj clean")
                    continue
                cmds.append("setbox " + " ".join(str(v) for v in op["box"]))
                for b, p in enumerate(op["pos"]):
                    cmds.append("setpos %d %d %d %d" % (b, p[0], p[1], p[2]))
                cmds.append("obj cut %d" % op["rc2"])
                cmds.append("obj gen %d %s" % (1 if op["x"] else 0, " ".join(TYPES[t] for t in op["s"])))
            items.append(((i, algo), cmds))
    results, crashes = vlib.run_items(exe, items, timeout=3000)
    for i, r in enumerate(hists):
        ctx.traces += 1
        ctx.nontriv(("reuse", r["kind"], json.dumps([(o.get("f"), o.get("rc2"), o.get("s"), o.get("x")) for o in r["h"]])))
        n = len(r["typ"])
        hist = [(q["a"], q.get("f"), q.get("rc2"), q.get("s")) for q in r["h"]]
        for algo in ("grid", "simple"):
            cls = CLASS[(r["kind"], algo)]
            if (i, algo) in crashes:
                ctx.violation("Reuse:%s:crash" % cls, "driver aborted (memory error) while one %s object is used for history %s: %s" % (
                    cls, hist, crashes[(i, algo)][:1500]), r)
                continue
            out = results[(i, algo)]
            pos = r["_nsetup"] + 1             # setup, obj new
            ngen = 0
            prev = None
            for op in r["h"]:
                if op["a"] == "clean":
                    pos += 1
                    continue
                chg = _change(prev, op)
                prev = op
                pos += 1 + n + 1               # setbox, setpos*, obj cut
                o = out[pos]
                pos += 1
                ngen += 1
                when = ("first" if ngen == 1 else "later:" + chg) + (":after-cleanup" if op["fresh"] and ngen > 1 else
                                                                      "" if op["fresh"] else ":accumulating")
                base = "Reuse:%s:%s:%s" % (cls, variant({"k": r["kind"], "s": op["s"]}), when)
                if not o or o[0].startswith("exc") or len(o) < 2:
                    ctx.violation(base + ":exception", "Generate failed: %s in history %s" % (o, hist), r)
                    break
                bad = []
                if r["kind"] == "p":
                    rows = {(w[0], w[1]): (tuple(w[2:5]), w[5], w[6] == 1) for w in op["rows"]}
                    calls = parse_pairs(o[0], "calls")
                    stored = parse_pairs(o[1], "stored")
                    bad += cmp_pair_list(calls, rows, "callback")
                    if op["fresh"]:
                        bad += cmp_pair_list(stored, rows, "stored")
                    else:
                        # accumulating list: identities old + new (or only new), each once; the vectors of
                        # pairs that were stored before are not specified
                        ids = collections.Counter((min(q[0], q[1]), max(q[0], q[1])) for q in stored)
                        want1 = set(rows)
                        want2 = want1 | set((a, b) for a, b in op["old"])
                        if any(v > 1 for v in ids.values()):
                            bad.append(("stored-duplicate", "stored pairs %s" % sorted(ids.elements())))
                        elif set(ids) != want1 and set(ids) != want2:
                            bad.append(("stored-set", "stored pairs %s, expected %s or only %s" % (sorted(ids), sorted(want2), sorted(want1))))
                else:
                    rows = set((w[0], w[1], w[2]) for w in op["rows"])
                    stored = parse_triples(o[1])
                    if op["fresh"]:
                        bad += cmp_triples(stored, rows)
                    else:
                        ids = collections.Counter((q[0], min(q[1], q[2]), max(q[1], q[2])) for q in stored)
                        want2 = rows | set((a, b, c) for a, b, c in op["old"])
                        if any(v > 1 for v in ids.values()):
                            bad.append(("stored-duplicate", "stored triples %s" % sorted(ids.elements())))
                        elif set(ids) != rows and set(ids) != want2:
                            bad.append(("stored-set", "stored triples %s, expected %s or only %s" % (sorted(ids), sorted(want2), sorted(rows))))
                kinds = set(k for k, _ in bad)
                for kind, text in bad:
                    if kind.startswith("stored-") and "callback-" + kind[7:] in kinds:
                        continue
                    ctx.violation(base + ":" + kind, "%s re-used, call %d of history %s: %s | box=%s rc2=%d pos=%s" % (
                        cls, ngen, hist, text, op["box"], op["rc2"], op["pos"]), r)
                if bad:
                    break


# ----------------------------------------------------------------------------------------------
# topology substrate (mode H, spec/topology/Topology.tla); keys prefixed "Topology:"
# ----------------------------------------------------------------------------------------------

def _topo_cmds(w, op):
    a, arg = op["a"], op["arg"]
    t = "t %d " % w
    if a == "res":
        return t + "res " + arg[0]
    if a == "bead":
        return t + "bead %s %s %d" % (arg[0], arg[1], arg[2])
    if a == "mol":
        return t + "mol " + arg[0]
    if a == "add":
        return t + "add %d %d" % (arg[0] - 1, arg[1] - 1)
    if a == "ia":
        return t + "ia %s %d %s" % (arg[0], len(arg[1]), " ".join(str(b - 1) for b in arg[1]))
    if a == "box":
        return t + "box %s %s" % (" ".join(str(v) for v in arg[0]), arg[1])
    if a == "rename":
        return t + "rename %s %s" % (arg[0], arg[1])
    return t + a          # rebuild, cleanup, copy


def _source_cmds(src):
    cmds = ["t 1 new"]
    for n in src["res"]:
        cmds.append("t 1 res " + n)
    for b in src["beads"]:
        cmds.append("t 1 bead %s %s %d" % (b["name"], b["type"], b["resnr"]))
    for mi, m in enumerate(src["mols"]):
        cmds.append("t 1 mol " + m["name"])
        for b in m["beads"]:
            cmds.append("t 1 add %d %d" % (mi, b - 1))
    cmds.append("t 1 box %s %s" % (" ".join(str(v) for v in src["box"]["v"]), src["box"]["t"]))
    return cmds


def _topo_diff(got, exp):
    """fields of the observable state that differ: [(field, text)]"""
    bad = []

    def chk(field, g, e):
        if g != e:
            bad.append((field, "%s = %s, expected %s" % (field, g, e)))
    chk("residues", got["res"], [[i, n] for i, n in enumerate(exp["res"])])
    chk("beads", got["beads"], [[i] + list(b) for i, b in enumerate(exp["beads"])])
    chk("molecules", got["mols"], [[i] + list(m) for i, m in enumerate(exp["mols"])])
    chk("interaction-count", got["nia"], exp["nia"])
    chk("interactions", got["ialist"], exp["ialist"])
    chk("interaction-groups", got["grp"], exp["grp"])
    chk("group-ids", got["gid"], exp["gid"])
    chk("box-type", got["bt"], exp["bt"])
    if exp["boxset"]:
        ok = all(isinstance(x, (int, float)) and x == x and vlib.close(float(x), float(y), 1e-12, 1e-12)
                 for x, y in zip(got["box"], exp["box"])) and all(x == 0 for x in got["low"])
        if not ok:
            bad.append(("box", "box = %s (lower triangle %s), expected %s" % (got["box"], got["low"], exp["box"])))
    chk("exclusions", sorted(map(list, got["excl"])), sorted(map(list, exp["excl"])))
    chk("beadlist", got["sel"], exp["sel"])
    return bad


def replay_topology(ctx, exe, hists):
    items = []
    for i, r in enumerate(hists):
        cmds = _source_cmds(r["src"]) + ["t 0 new"]
        r["_nsetup"] = len(cmds)
        for op in r["h"]:
            cmds.append(_topo_cmds(0, op))
            cmds.append("t 0 q")
        items.append((i, cmds))
    # no quarantine: freed bead storage is handed out again at once, as with the normal allocator, so that
    # state keyed by the address of a destroyed bead (stale exclusions) becomes observable
    results, crashes = vlib.run_items(exe, items, timeout=3000,
                                      env={"ASAN_OPTIONS": "detect_leaks=0:abort_on_error=0:quarantine_size_mb=0"})
    for i, r in enumerate(hists):
        ctx.traces += 1
        ops = [o["a"] for o in r["h"]]
        ctx.nontriv(("topology", json.dumps([(o["a"], o["arg"]) for o in r["h"]])))
        if i in crashes:
            ctx.violation("Topology:crash", "driver aborted (memory error) in history %s: %s" % (
                [(o["a"], o["arg"]) for o in r["h"]], crashes[i][:1500]), r)
            continue
        out = results[i]
        for k in range(r["_nsetup"]):
            if not out[k] or not out[k][0].startswith("ok"):
                raise vlib.InfraError("topology driver setup failed: %s" % out[k])
        for j, op in enumerate(r["h"]):
            res = out[r["_nsetup"] + 2 * j]
            q = out[r["_nsetup"] + 2 * j + 1]
            hist = [(o["a"], o["arg"]) for o in r["h"][:j + 1]]
            after = ":after-cleanup" if "cleanup" in ops[:j] else ":after-copy" if "copy" in ops[:j] else ""
            if op["obs"] == "throws":
                if not res or not res[0].startswith("exc"):
                    ctx.violation("Topology:%s:no-exception" % op["a"], "history %s: call returned %s, an exception was expected" % (hist, res), r)
                break
            if not res or not res[0].startswith("ok"):
                ctx.violation("Topology:%s:exception" % op["a"], "history %s: %s" % (hist, res), r)
                break
            try:
                got = json.loads(q[0])
            except Exception:
                ctx.violation("Topology:%s:query-failed" % op["a"], "history %s: state query printed %s" % (hist, q), r)
                break
            bad = _topo_diff(got, op["obs"])
            for field, text in bad:
                ctx.violation("Topology:%s:%s%s" % (op["a"], field, after), "history %s: %s" % (hist, text), r)
            if bad:
                break


# ----------------------------------------------------------------------------------------------
# random configurations: the real code runs first, TLC validates the logged result (TraceNbGrid)
# ----------------------------------------------------------------------------------------------

def random_conf(rng, nmax):
    tric = rng.random() < 0.5
    while True:
        ax, by, cz = (rng.randint(6, 40) for _ in range(3))
        if tric:
            bx = rng.randint(-(ax // 2), ax // 2)
            cx = rng.randint(-(ax // 2), ax // 2)
            cy = rng.randint(-(by // 2), by // 2)
        else:
            bx = cx = cy = 0
        # heights: V / |n|
        na = (by * cz, -bx * cz, bx * cy - by * cx)
        nb = (0, cz * ax, -cy * ax)
        nc = (0, 0, ax * by)
        V = ax * by * cz
        lim = min(V * V // (4 * sum(x * x for x in n)) for n in (na, nb, nc))   # rc2 <= h^2/4
        if lim >= 2 and V * V < 2 ** 31 // 64:
            break
    # cutoffs giving few and many cells
    rc2 = rng.choice([lim, max(1, lim - rng.randint(0, 3)), rng.randint(1, lim), rng.randint(1, max(1, lim // 4))])
    n = rng.randint(2, nmax)
    span = rng.choice([1, 1, 2, 3])
    dense = rng.random() < 0.5
    pos = []
    for _ in range(n):
        if dense and pos and rng.random() < 0.6:
            q = rng.choice(pos)
            w = int(rc2 ** 0.5) + 1
            pos.append([q[k] + rng.randint(-w, w) for k in range(3)])
        else:
            f = [rng.randint(-span * 8, (span + 1) * 8) for _ in range(3)]   # eighths of a box vector
            pos.append([(f[0] * ax + f[1] * bx + f[2] * cx) // 8, (f[1] * by + f[2] * cy) // 8, (f[2] * cz) // 8])
    typ = [rng.choice([1, 1, 2, 2, 3]) for _ in range(n)]
    nm = rng.randint(1, max(1, n // 2))
    mol = sorted(rng.randint(1, nm) for _ in range(n))
    ias = []
    for _ in range(rng.randint(0, n)):
        k = rng.randint(2, min(4, n))
        ias.append(rng.sample(range(1, n + 1), k))
    runs = []
    for x in (False, True):
        runs += [{"k": "p", "s": [0], "x": x}, {"k": "p", "s": [1], "x": x}, {"k": "p", "s": [1, 2], "x": x},
                 {"k": "t", "s": [0], "x": x}, {"k": "t", "s": [1, 2], "x": x}, {"k": "t", "s": [1, 2, 3], "x": x}]
    return {"box": [ax, bx, by, cx, cy, cz], "rc2": rc2, "pos": pos, "typ": typ, "mol": mol, "ias": ias,
            "runs": runs, "dom": True, "N": [0, 0, 0]}


def trace_validate(ctx, exe, nconf, nmax, confs=None, rerun=False):
    """random configurations -> real code -> ndjson log -> TLC (TraceNbGrid) accepts/rejects.
    A rejection is reported only if the same configuration, run and judged once more, is rejected again."""
    if confs is None:
        rng = random.Random(ctx.seed * 7919 + 3)
        confs = [random_conf(rng, nmax) for _ in range(nconf)]
    items = []
    for i, r in enumerate(confs):
        cmds = conf_cmds(r)
        r["_nsetup"] = len(cmds)
        for run in r["runs"]:
            cmds += run_cmds(r, run)
        items.append((i, cmds))
    results, crashes = vlib.run_items(exe, items, timeout=3000)
    recs = []
    for i, r in enumerate(confs):
        if i in crashes:
            ctx.violation("crash:random", "driver aborted: " + crashes[i], r)
            continue
        out = results[i]
        pos = r["_nsetup"]
        obs = []
        ok = True
        for run in r["runs"]:
            for algo in ("grid", "simple"):
                o = out[pos]
                pos += 1
                if not o or o[0].startswith("exc") or len(o) < 2:
                    ctx.violation("%s:%s:exception:random" % (CLASS[(run["k"], algo)], variant(run)), "Generate failed: %s" % (o,), r)
                    ok = False
                    continue
                e = {"k": run["k"], "g": 1 if algo == "grid" else 0, "s": run["s"], "x": run["x"]}
                if run["k"] == "p":
                    for tag, line in (("calls", o[0]), ("stored", o[1])):
                        lst = []
                        for (f, s, rx, ry, rz, d) in parse_pairs(line, tag):
                            rl = [lattice(rx), lattice(ry), lattice(rz)]
                            d2 = round((d * 8.0) ** 2)
                            if None in rl or not vlib.close((d * 8.0) ** 2, d2, 1e-9, 1e-9):
                                ctx.violation("%s:%s:off-lattice:random" % (CLASS[("p", algo)], variant(run)),
                                              "pair (%d,%d): r=%r dist=%r is not a lattice vector / its norm" % (f, s, (rx, ry, rz), d), r)
                                ok = False
                                rl = [0, 0, 0]
                            lst.append([f, s, rl[0], rl[1], rl[2], d2])
                        e[tag] = lst
                else:
                    e["stored"] = [list(t) for t in parse_triples(o[1])]
                    e["calls"] = []
                obs.append(e)
        if ok:
            recs.append({"id": i, "box": r["box"], "rc2": r["rc2"], "pos": r["pos"], "typ": r["typ"], "mol": r["mol"],
                         "ias": r["ias"], "obs": obs})
    path = vlib.scratch_file("c03-trace.ndjson")
    vlib.write_ndjson(path, recs)
    res = vlib.tlc("nbgrid", "TraceNbGrid", cfg="TraceNbGrid.cfg", env={"TRACE": path}, timeout=3000)
    vlib.tlc_must_hold(res, "TraceNbGrid (the validator itself must not fail; rejections are printed)")
    ctx.add_tlc("TraceNbGrid(%d %s configurations, <=%d beads)" % (len(recs), "re-run" if rerun else "random", nmax), res)
    rejected = [x for x in res.records if isinstance(x, dict) and "reject" in x]
    accepted = len(recs) - len(set(x["reject"] for x in rejected))
    if rejected and not rerun:
        ids = sorted(set(x["reject"] for x in rejected))
        again = trace_validate(ctx, exe, 0, nmax, confs=[confs[i] for i in ids], rerun=True)
        ctx.traces += len(recs)
        return len(recs) - (len(ids) - again)
    if not rerun:
        ctx.traces += len(recs)
    whys = set((x["reject"], x["run"]["k"], x["run"]["g"], json.dumps(x["run"]["s"]), x["run"]["x"], x["why"]) for x in rejected)
    for x in rejected:
        r = confs[x["reject"]]
        e = x["run"]
        sig = (x["reject"], e["k"], e["g"], json.dumps(e["s"]))
        if x["why"].startswith("stored-") and sig + (e["x"], "callback-" + x["why"][7:]) in whys:
            continue
        if e["x"] and sig + (False, x["why"]) in whys:
            continue
        cls = CLASS[(e["k"], "grid" if e["g"] else "simple")]
        ctx.violation("%s:%s:%s:%s:random" % (cls, variant(e), "excl" if e["x"] else "noexcl", x["why"]),
                      "TLC rejects the logged result of %s lists %s: %s | box=%s rc2=%d pos=%s" % (
                          cls, [TYPES[s] for s in e["s"]], x["why"], r["box"], r["rc2"], r["pos"]),
                      {"conf": {k: r[k] for k in ("box", "rc2", "pos", "typ", "mol", "ias")}, "run": e})
    if recs:
        ctx.sample({"random_configuration": {k: recs[0][k] for k in ("box", "rc2", "pos")}, "runs": len(recs[0]["obs"])})
    return accepted


# ----------------------------------------------------------------------------------------------

def replay_artefact(ctx, exe, path):
    """vcheck C03 --replay FILE: re-run exactly one recorded vector / history / random configuration"""
    obj = json.load(open(path))["replay"]
    # a single replay is not a check run: keep the evidence file of the last full run
    evp = os.path.join(vlib.VERIF, "evidence", ctx.pid + ".json")
    if os.path.exists(evp):
        old = open(evp).read()
        atexit.register(lambda: open(evp, "w").write(old))
    if "h" in obj and "kind" in obj:
        replay_reuse(ctx, exe, [obj])
    elif "h" in obj and "src" in obj:
        replay_topology(ctx, exe, [obj])
    elif "h" in obj:
        replay_exclusions(ctx, exe, [obj])
    elif "runs" in obj:
        Replayer(ctx, exe).replay([obj], "replay")
    elif "conf" in obj:
        c = dict(obj["conf"])
        c.update({"runs": [dict(k=obj["run"]["k"], s=obj["run"]["s"], x=obj["run"]["x"])], "dom": True, "N": [0, 0, 0]})
        trace_validate(ctx, exe, 0, len(c["pos"]), confs=[c])
    else:
        raise vlib.InfraError("unknown replay artefact " + path)


def run(ctx):
    bindir = vlib.ensure_build(["drv_nbgrid"])
    exe = bindir + "/drv_nbgrid"
    quick = ctx.quick
    if getattr(ctx, "replay", None):
        replay_artefact(ctx, exe, ctx.replay)
        return
    ctx.rule = ("mode L: every configuration of the TLC lattice domain is one vector, replayed with all list variants "
                "(non-trivial = a bead on a cell boundary or outside the box, fewer than 3 cells in a direction, or "
                "beyond the domain); mode H: every exclusion call history up to Depth; trace validation: random "
                "configurations run by the real code and judged by TLC")
    ctx.assumptions += [
        "lattice: positions and box vectors are multiples of 1/8 nm, the cutoff is sqrt(rc2)/8 nm with integer rc2; "
        "d < cutoff is decided exactly (d^2 and rc2 are integers < 2^31 in lattice units)",
        "boxes: orthorhombic, or triclinic in the reduced form a=(ax,0,0), b=(bx,by,0), c=(cx,cy,cz), |bx|,|cx| <= ax/2, "
        "|cy| <= by/2 that TriclinicBox::BCShortestConnection is written for",
        "asserted only for cutoffs up to half the shortest box height (all cell counts >= 2); configurations with a "
        "one-cell direction are replayed and only counted (beyond_domain_mismatches)",
        "a bead exactly on a cell boundary may be put into either adjacent cell by floating point, an exact quotient "
        "h/rc may give N or N-1 cells: neither changes the specified result; the comparison with the transcription's "
        "cells / callback order (a warning, not a verdict) skips such configurations",
        "3-body lists: only the stored triples are compared, not the match callbacks"]

    rp = Replayer(ctx, exe)

    # ---- 0. the oracle's image range (lemma) ----------------------------------------------------
    mod = "MCNbLemmaQuick" if quick else "MCNbLemmaThorough"
    res = vlib.tlc("nbgrid", mod, cfg=mod + ".cfg", timeout=1500)
    vlib.tlc_must_hold(res, "NbLemma: nested image enumeration = flat cube, independent of a larger cube; "
                            "sequential reduction = brute force in the domain")
    ctx.add_tlc(mod, res)

    # ---- 1. configurations (mode L) ---------------------------------------------------------------
    mod = "MCNbQuick" if quick else "MCNbThorough"
    fams = ["tiny", "tric", "corners", "sweep", "multi"] if quick else \
           ["tiny", "tric", "tric2", "corners8", "corners9", "corners10", "sweep8", "sweep9", "sweep10", "multi3", "multi4a", "multi4b"]
    nvec = 0
    for fam in fams:
        res = vlib.tlc("nbgrid", mod, cfg="MCNb.cfg", env={"FAMILY": fam}, timeout=3000)
        vlib.tlc_must_hold(res, "NbGrid %s: Algo = Spec on every configuration" % fam)
        ctx.add_tlc("%s[%s]" % (mod, fam), res)
        recs = res.records
        if 2 * len(recs) != res.distinct:
            raise vlib.InfraError("vector export incomplete for %s: %d vectors, %d states" % (fam, len(recs), res.distinct))
        res.out = ""
        rp.replay(recs, fam)
        nvec += len(recs)
        if recs:
            r = recs[len(recs) // 2]
            ctx.sample({"family": fam, "box": r["box"], "rc2": r["rc2"], "pos": r["pos"], "cells": r["N"],
                        "expected_pairs_all_beads": r["runs"][0]["rows"]})
        vlib.log("family %s: %d configurations replayed" % (fam, len(recs)))
    ctx.extra["configurations"] = nvec
    ctx.extra["generate_calls_compared"] = 2 * rp.runs

    # ---- 1b. one list object used for several Generate calls (mode H) -------------------------------------
    mod = "MCNbHistQuick" if quick else "MCNbHistThorough"
    res = vlib.tlc("nbgrid", mod, cfg=mod + ".cfg", timeout=3000)
    vlib.tlc_must_hold(res, "NbHist: every Generate of a re-used object = Spec of its own configuration")
    ctx.add_tlc(mod, res)
    hists = res.records
    res.out = ""
    # two calls (with / without Cleanup between) where exactly one thing changes: cutoff, positions, lists, box
    res = vlib.tlc("nbgrid", "MCNbHistOne", cfg="MCNbHistOne.cfg", timeout=3000)
    vlib.tlc_must_hold(res, "NbHist (one thing changes between two Generate calls)")
    ctx.add_tlc("MCNbHistOne", res)
    ctx.extra["reuse_changes"] = reuse_vacuity(res.records)
    hists += res.records
    res.out = ""
    replay_reuse(ctx, exe, hists)
    ctx.extra["reuse_histories"] = len(hists)
    if hists:
        ctx.sample({"reuse_history": [(o["a"], o.get("box"), o.get("rc2"), o.get("s")) for o in hists[len(hists) // 2]["h"]]})

    # ---- 2. exclusion histories (mode H) --------------------------------------------------------------
    mod = "MCExclQuick" if quick else "MCExclThorough"
    res = vlib.tlc("nbgrid", mod, cfg=mod + ".cfg", timeout=1500)
    vlib.tlc_must_hold(res, "ExclusionList: data structure = abstract relation; CreateExclusions = statement")
    ctx.add_tlc(mod, res)
    hists = res.records
    res.out = ""
    replay_exclusions(ctx, exe, hists)
    if hists:
        ctx.sample({"exclusion_history": hists[len(hists) // 3]})
    if not quick:
        res = vlib.tlc("nbgrid", "MCExclSim", cfg="MCExclSim.cfg", timeout=1500, simulate=250, depth=10, workers=4, seed=ctx.seed)
        vlib.tlc_must_hold(res, "ExclusionList simulation")
        ctx.add_tlc("MCExclSim(simulate)", res)
        replay_exclusions(ctx, exe, res.records)

    # ---- 2b. topology substrate (mode H, spec/topology): keys Topology:... --------------------------------
    thists = []
    res = vlib.tlc("topology", "MCTopology", cfg="MCTopologyBfs.cfg", timeout=1500)
    vlib.tlc_must_hold(res, "Topology: consistency of the abstract state (BFS)")
    ctx.add_tlc("MCTopologyBfs", res)
    thists += res.records
    if not quick:
        res = vlib.tlc("topology", "MCTopology", cfg="MCTopologyCore.cfg", timeout=1500)
        vlib.tlc_must_hold(res, "Topology: consistency of the abstract state (core alphabet, deeper)")
        ctx.add_tlc("MCTopologyCore", res)
        thists += res.records
    res = vlib.tlc("topology", "MCTopology", cfg="MCTopologySim.cfg", timeout=1500, simulate=100 if quick else 1200,
                   depth=14, workers=4, seed=ctx.seed)
    vlib.tlc_must_hold(res, "Topology simulation")
    ctx.add_tlc("MCTopologySim(simulate)", res)
    thists += res.records
    replay_topology(ctx, exe, thists)
    ctx.extra["topology_histories"] = len(thists)
    if thists:
        ctx.sample({"topology_history": [(o["a"], o["arg"]) for o in thists[-1]["h"]]})
    del thists

    # ---- 3. random configurations validated by TLC ---------------------------------------------------------
    acc = trace_validate(ctx, exe, 150 if quick else 800, 8 if quick else 16)
    ctx.extra["random_configurations_accepted"] = acc

    ctx.extra["beyond_domain_mismatches"] = rp.beyond
    if rp.beyond_samples:
        ctx.extra["beyond_domain_samples"] = rp.beyond_samples
    ctx.extra["transcription_checked"] = rp.drift_checked
    ctx.extra["transcription_drift"] = rp.drift
    if rp.drift_samples:
        ctx.extra["transcription_drift_samples"] = rp.drift_samples
        vlib.log("WARNING: real code differs from the Algo transcription on %d configurations (not a verdict): %s" % (
            rp.drift, rp.drift_samples[0]))
    ctx.exhaustive = False
