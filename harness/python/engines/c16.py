"""C16 - structure comparison and graph decomposition are label-independent and lossless.
spec/graph: Graph (declarative SpecDist/SpecComponents/SpecSingle/SpecChains/IdCands + transcriptions),
GraphBFS (Graph_BF_Visitor + GraphDistVisitor as a state machine, every neighbour order), GraphClasses
(domain), GraphVec (mode L vectors), GraphTrace (validation of logged runs on larger random graphs).
spec/beadstructure: BeadStructure (mode H, cache flags as variables), BeadTrace (validation of long random
call sequences)."""
import random
import vlib

MANIFEST = dict(
        engine="graph", design_ref="DESIGN.md 5/C16",
        technique="TLA+ specs (hop distance by fixpoint, components, junction-to-junction chains, structure-id "
                  "candidates; transcription of the two-level breadth-first edge queue with nondeterministic "
                  "neighbour order; BeadStructure with its cache flags as a state machine) model-checked with TLC; "
                  "TLC-exported graph vectors (relabelled, re-ordered, attribute-altered copies) and call histories "
                  "replayed into tools::Graph algorithms and csg::BeadStructure (ASan+assert driver); logged runs on "
                  "larger random graphs and long random call sequences validated by TLC against the specs",
        text="TLC checks on every simple graph of the domain (all graphs up to the configured vertex count plus "
             "chains, rings, fused/spiro/theta rings, stars, trees and disconnected mixtures up to 7 vertices, ids "
             "not 1..n) that the breadth-first edge queue labels every reachable vertex with its hop count under "
             "every neighbour order, that flood-fill decomposition equals the component partition, that "
             "single-network equals connected-and-no-isolated-vertex, that the chain decomposition is a lossless "
             "partition obeying the end-point rule, and that the set of structure-id candidates is invariant under "
             "relabelling and separates different (name,mass) multisets; every vector and every BeadStructure call "
             "history is replayed into the real code and compared as sets; logged real runs are validated by TLC.",
        note="Trusted: TLC, the text driver protocol, node strings being injective for the palette names. "
             "Container/iteration order is free (sets compared). Not asserted: equivalence verdict for "
             "non-isomorphic structures with equal (name,mass) multisets, Dist labels of unreachable vertices, "
             "isSingleStructure of an empty structure, multigraphs/self loops, Graph_DF_Visitor on its own, "
             "beadmotif algorithms.")

# palette index -> (name, mass): the lattice of attributes; 4 shares a name prefix with 1
PAL = {1: ("C", "12"), 2: ("H", "1"), 3: ("O", "16"), 4: ("CA", "12.5"),
       # non-dyadic masses: a floating-point sum over them depends on the order of summation
       11: ("H", "1.008"), 12: ("C", "12.011"), 13: ("O", "15.999"), 14: ("X", "0.1"), 15: ("Y", "0.2"), 16: ("Z", "0.3"),
       17: ("W", "0.001"), 18: ("Q", "1e16"), 19: ("U", "1")}


# ----------------------------------------------------------------------------------------
# parsing of driver output
# ----------------------------------------------------------------------------------------

def _edge(tok):
    a, b = tok.split("-")
    a, b = int(a), int(b)
    return (a, b) if a <= b else (b, a)


def _edges(toks):
    return [_edge(t) for t in toks]


def _exc(lines):
    for ln in lines:
        if ln.startswith("exc") or ln.startswith("err"):
            return ln
    return None


def _sections(line):
    """'graph 1 2 | nodes a:b:c | edges 1-2' -> {'graph': [...], 'nodes': [...], 'edges': [...]}"""
    out = {}
    for part in line.split("|"):
        p = part.split()
        if p:
            out[p[0]] = p[1:]
    return out


def _graph_line(line):
    s = _sections(line)
    verts = frozenset(int(x) for x in s.get("graph", []))
    nodes = {}
    for t in s.get("nodes", []):
        v, name, mass = t.split(":")
        nodes[int(v)] = (name, mass)
    el = _edges(s.get("edges", []))
    return verts, nodes, el


def _eset(pairs):
    return frozenset((min(a, b), max(a, b)) for a, b in pairs)


def _gcmd(vs, at, es):
    return "g %d %s %d %s" % (len(vs), " ".join("%d %s %s" % (v, PAL[a][0], PAL[a][1]) for v, a in zip(vs, at)),
                              len(es), " ".join("%d %d" % (a, b) for a, b in es))


def _bs_build(slot, vs, at, es):
    cmds = ["bs_new %d" % slot]
    cmds += ["bs_add %d %d %s %s" % (slot, v, PAL[a][0], PAL[a][1]) for v, a in zip(vs, at)]
    cmds += ["bs_conn %d %d %d" % (slot, a, b) for a, b in es]
    return cmds


def _shape(n, ne, parts, chains):
    """class of a graph for violation keys / non-triviality: stable, coarse"""
    if n == 0:
        return "empty"
    kind = "conn" if parts == 1 else "disc"
    cyc = ne - n + parts          # cyclomatic number
    return "%s-c%d" % (kind, min(cyc, 3))


# ----------------------------------------------------------------------------------------
# mode L: graph vectors
# ----------------------------------------------------------------------------------------

def check_vectors(ctx, exe, vecs, origin):
    items = []
    plans = []
    for i, r in enumerate(vecs):
        vs, at, es = r["vs"], r["at"], r["es"]
        cmds = [_gcmd(vs, at, es)]
        plan = [("g", None)]
        for row in r["dist"]:
            cmds.append("dist %d" % row["s"])
            plan.append(("dist", row))
            cmds.append("single %d" % row["s"])
            plan.append(("single", row["s"]))
            cmds.append("dfs %d" % row["s"])
            plan.append(("dfs", row))
        for b in r.get("branches", []):
            cmds.append("branch %d %d %d" % (b["s"], b["e"][0], b["e"][1]))
            plan.append(("branch", b))
        cmds += ["decouple", "reduce", "sid"]
        plan += [("decouple", None), ("reduce", None), ("sid", 0)]
        cmds += [_gcmd(r["rvs"], r["rat"], r["res"]), "sid"]
        plan += [("g", None), ("sid", 1)]
        # BeadStructure level: original (slot 0), relabelled + re-ordered (1), altered multiset (2)
        for slot, (a, b, c) in enumerate([(vs, at, es), (r["rvs"], r["rat"], r["res"]), (r["avs"], r["aat"], es)]):
            bc = _bs_build(slot, a, b, c)
            cmds += bc
            plan += [("ok", None)] * len(bc)
        cmds += ["bs_equiv 0 1", "bs_equiv 1 0", "bs_equiv 0 2", "bs_equiv 2 0", "bs_single 0", "bs_break 0",
                 "bs_single 1", "bs_graph 0"]
        plan += [("equiv", r["equivRelabelled"]), ("equiv", r["equivRelabelled"]), ("equiv", r["equivAltered"]),
                 ("equiv", r["equivAltered"]), ("bs_single", None), ("bs_break", None), ("bs_single", None),
                 ("bs_graph", None)]
        extras = r["n"] != 6 or r["salt"] == 0
        if "at2" in r and extras:
            # the same structure with non-dyadic masses: original order, relabelled + two other insertion orders
            for slot, (a, b, c) in ((4, (vs, r["at2"], es)), (5, (r["rvs"], r["rat2"], r["res"])),
                                    (6, (r["rvs3"], r["rat3"], list(reversed(r["res"]))))):
                bc = _bs_build(slot, a, b, c)
                cmds += bc
                plan += [("ok", None)] * len(bc)
            cmds += ["bs_equiv 4 5", "bs_equiv 5 4", "bs_equiv 4 6", "bs_equiv 6 5"]
            plan += [("equiv2", r["equivRelabelled"])] * 4
        if "mes" in r and extras and (r["nloops"] or r["ndups"]):
            cmds += [_gcmd(vs, at, r["mes"]), "decouple", "sid"]
            plan += [("g", None), ("mdecouple", None), ("sid", 2)]
            for row in r["dist"][:2]:
                cmds.append("dist %d" % row["s"])
                plan.append(("mdist", row))
            cmds += [_gcmd(r["rvs"], r["rat"], r["mres"]), "sid"]
            plan += [("g", None), ("sid", 3)]
        items.append((i, cmds))
        plans.append(plan)
    results, crashes = _run_parallel(exe, items)
    for i, r in enumerate(vecs):
        ctx.count()
        n = r["n"]
        V = frozenset(r["vs"])
        E = _eset(r["es"])
        shape = _shape(n, len(E), len(r["parts"]), len(r["chains"]))
        ctx.nontriv(("vec", tuple(sorted(V)), tuple(sorted(E)), r["salt"]))
        if i in crashes:
            ctx.violation("crash:%s" % shape, "driver aborted (%s) on %s: %s" % (origin, r, crashes[i]), r)
            continue
        out = results[i]
        sids = {}
        exp_parts = frozenset((frozenset(p["v"]), _eset(p["e"])) for p in r["parts"])
        for (kind, arg), lines in zip(plans[i], out):
            ex = _exc(lines)
            if ex:
                ctx.violation("%s:exception:%s" % (kind, shape), "%s raised '%s' on %s" % (kind, ex, _brief(r)), r)
                continue
            if kind == "dist":
                sec = _sections(lines[0])
                got = dict((int(t.split(":")[0]), int(t.split(":")[1])) for t in sec.get("dist", []))
                expl = frozenset(int(x) for x in sec.get("expl", []))
                for v, d in arg["d"]:
                    if d >= 0 and got.get(v) != d:
                        ctx.violation("dist:label:%s" % shape,
                                      "GraphDistVisitor from %d labels vertex %d with %s, shortest hop count is %d; %s"
                                      % (arg["s"], v, got.get(v), d, _brief(r)), r)
                        break
                    if d >= 0 and v not in expl:
                        ctx.violation("dist:explored:%s" % shape,
                                      "reachable vertex %d not explored from %d; %s" % (v, arg["s"], _brief(r)), r)
                        break
            elif kind == "dfs":
                got = frozenset(int(x) for x in lines[0].split()[1:])
                want = frozenset(v for v, d in arg["d"] if d >= 0)
                if got != want:
                    ctx.violation("dfs:explored:%s" % shape, "Graph_DF_Visitor from %d explores %s, reachable set is %s; %s"
                                  % (arg["s"], sorted(got), sorted(want), _brief(r)), r)
            elif kind == "branch":
                ctx.extra["n_branch"] = ctx.extra.get("n_branch", 0) + 1
                gl = _edges(lines[0].split()[1:])
                want = _eset(arg["b"])
                if len(want) < len(E):
                    ctx.extra["n_branch_proper"] = ctx.extra.get("n_branch_proper", 0) + 1
                if frozenset(gl) != want or len(gl) != len(want):
                    ctx.violation("exploreBranch:%s" % shape, "exploreBranch from %d through %s gives %s, the branch is %s; %s"
                                  % (arg["s"], arg["e"], sorted(gl), sorted(want), _brief(r)), r)
            elif kind == "single":
                got = lines[0].split()[1]
                if got != ("1" if r["single"] else "0"):
                    ctx.violation("singleNetwork:%s" % shape, "singleNetwork from %d says %s, expected %s; %s"
                                  % (arg, got, r["single"], _brief(r)), r)
            elif kind == "decouple":
                comps = [ln for ln in lines if ln.startswith("comp")]
                got = []
                for ln in comps:
                    verts, nodes, el = _graph_line(ln.replace("comp", "graph", 1))
                    got.append((verts, frozenset(el)))
                if frozenset(got) != exp_parts or len(got) != len(exp_parts):
                    ctx.violation("decouple:%s" % shape, "decoupleIsolatedSubGraphs gave %s, components are %s; %s"
                                  % (_fmt_parts(got), _fmt_parts(exp_parts), _brief(r)), r)
            elif kind == "reduce":
                _check_reduce(ctx, r, lines, shape)
            elif kind == "sid":
                sids[arg] = lines[0][4:] if lines else None
            elif kind == "equiv":
                got = lines[0].split()[1] == "1"
                if got != arg:
                    what = "relabelled" if arg else "altered-multiset"
                    ctx.violation("isStructureEquivalent:%s:%s" % (what, shape),
                                  "isStructureEquivalent says %s for the %s copy; %s" % (got, what, _brief(r, True)), r)
            elif kind == "equiv2":
                if n >= 5:
                    ctx.extra["n_nondyadic_5plus"] = ctx.extra.get("n_nondyadic_5plus", 0) + 1
                got = lines[0].split()[1] == "1"
                if got != arg:
                    ctx.violation("isStructureEquivalent:relabelled:non-dyadic-mass:%s" % shape,
                                  "isStructureEquivalent says %s for a copy that differs only in ids and insertion order "
                                  "(masses %s); G: V=%s E=%s relabelled V=%s / V=%s" %
                                  (got, [PAL[a][1] for a in r["at2"]], r["vs"], r["es"], r["rvs"], r["rvs3"]), r)
            elif kind == "mdecouple":
                mk = "self-edge" if r["nloops"] else "duplicate-edge"
                ctx.extra["n_multigraph"] = ctx.extra.get("n_multigraph", 0) + 1
                if r["nloops"]:
                    ctx.extra["n_multigraph_selfedge"] = ctx.extra.get("n_multigraph_selfedge", 0) + 1
                if any(len(p["v"]) == 1 and p["e"] for p in r["mparts"]):
                    ctx.extra["n_multigraph_selfedge_isolated"] = ctx.extra.get("n_multigraph_selfedge_isolated", 0) + 1
                if r["ndups"]:
                    ctx.extra["n_multigraph_dups"] = ctx.extra.get("n_multigraph_dups", 0) + 1
                got = []
                for ln in [ln for ln in lines if ln.startswith("comp")]:
                    verts, nodes, el = _graph_line(ln.replace("comp", "graph", 1))
                    got.append((verts, frozenset(el)))
                want = frozenset((frozenset(p["v"]), _eset(p["e"])) for p in r["mparts"])
                if frozenset(got) != want or len(got) != len(want):
                    ctx.violation("decouple:multigraph:%s" % mk,
                                  "decoupleIsolatedSubGraphs gave %s, the parts (edge sets incl. self edges) are %s; V=%s edges inserted %s"
                                  % (_fmt_parts(got), _fmt_parts(want), r["vs"], r["mes"]), r)
            elif kind == "mdist":
                sec = _sections(lines[0])
                got = dict((int(t.split(":")[0]), int(t.split(":")[1])) for t in sec.get("dist", []))
                wrong = [(v, got.get(v), d) for v, d in arg["d"] if d >= 0 and got.get(v) != d]
                if wrong:
                    ctx.violation("dist:label:multigraph", "with self/repeated edges GraphDistVisitor from %d gives %s, hop counts are %s; "
                                  "V=%s edges inserted %s" % (arg["s"], got, arg["d"], r["vs"], r["mes"]), r)
            elif kind == "bs_single":
                if n > 0 and (lines[0].split()[1] == "1") != r["single"]:
                    ctx.violation("isSingleStructure:%s" % shape, "isSingleStructure says %s, expected %s; %s"
                                  % (lines[0], r["single"], _brief(r)), r)
            elif kind == "bs_break":
                got = []
                for ln in lines[1:]:
                    ids_part, graph_part = ln.split("|", 1)
                    ids = frozenset(int(x) for x in ids_part.split()[2:])
                    verts, nodes, el = _graph_line(graph_part.strip())
                    got.append((ids, frozenset(el)))
                    if verts != ids:
                        ctx.violation("breakIntoStructures:graph:%s" % shape, "part with beads %s has graph vertices %s"
                                      % (sorted(ids), sorted(verts)), r)
                if frozenset(got) != exp_parts or len(got) != len(exp_parts):
                    ctx.violation("breakIntoStructures:%s" % shape, "breakIntoStructures gave %s, components are %s; %s"
                                  % (_fmt_parts(got), _fmt_parts(exp_parts), _brief(r)), r)
            elif kind == "bs_graph":
                verts, nodes, el = _graph_line(lines[0])
                want_nodes = dict((v, PAL[a]) for v, a in zip(r["vs"], r["at"]))
                if verts != V or frozenset(el) != E or len(el) != len(E) or \
                        any(_attr_differs(nodes.get(v), want_nodes[v]) for v in V):
                    ctx.violation("getGraph:%s" % shape, "getGraph returned %s, expected V=%s E=%s" %
                                  (lines[0], sorted(V), sorted(E)), r)
        if 0 in sids and sids[0] is not None and r.get("cands"):
            # transcription conformance only (DESIGN 7.8): a drift is a warning, never a violation
            bag = _parse_sid(sids[0])
            cands = [sorted((d, PAL[a], c) for d, a, c in cand) for cand in r["cands"]]
            if n > 0 and (bag is None or bag not in cands):
                ctx.extra.setdefault("algo_drift", [])
                if len(ctx.extra["algo_drift"]) < 5:
                    ctx.extra["algo_drift"].append({"sid": sids[0], "graph": _brief(r)})
        if 2 in sids and 3 in sids and sids[2] != sids[3]:
            ctx.violation("findStructureId:relabelled:multigraph",
                          "structure id of a graph with self/repeated edges changes under relabelling/insertion order: '%s' vs '%s'; "
                          "V=%s edges %s relabelled V=%s edges %s" % (sids[2], sids[3], r["vs"], r["mes"], r["rvs"], r["mres"]), r)
        if 0 in sids and 1 in sids and sids[0] != sids[1]:
            ctx.violation("findStructureId:relabelled:%s" % shape,
                          "structure id changes under relabelling/insertion order: '%s' vs '%s'; %s"
                          % (sids[0], sids[1], _brief(r, True)), r)


def _parse_sid(sid):
    """'Dist0Mass12NameC...' -> sorted [(dist, (name, mass), count)]; None if it does not parse"""
    import re
    from collections import Counter
    pos = 0
    cnt = Counter()
    rx = re.compile(r"(?:Dist(\d+))?Mass([0-9.]+)Name([A-Z]+?)(?=Dist|Mass|$)")
    while pos < len(sid):
        m = rx.match(sid, pos)
        if not m:
            return None
        cnt[(int(m.group(1)) if m.group(1) is not None else -1, (m.group(3), m.group(2)))] += 1
        pos = m.end()
    return sorted((d, a, c) for (d, a), c in cnt.items())


def _attr_differs(got, want):
    if got is None:
        return True
    return got[0] != want[0] or not vlib.close(float(got[1]), float(want[1]), 1e-12, 0)


def _check_reduce(ctx, r, lines, shape):
    V = frozenset(r["vs"])
    E = _eset(r["es"])
    d = {}
    chains = []
    for ln in lines:
        p = ln.split()
        if p[0] == "chain":
            chains.append(_edges(p[1:]))
        else:
            d[p[0]] = p[1:]
    expv = frozenset(int(x) for x in d.get("expv", []))
    expe = _edges(d.get("expe", []))
    want_v = frozenset(r["exp"]["v"])
    want_e = _eset(r["exp"]["e"])
    if expv != want_v:
        ctx.violation("reduce-expand:vertices:%s" % shape, "expandGraph(reduceGraph(G)) has vertices %s, G has %s; %s"
                      % (sorted(expv), sorted(want_v), _brief(r)), r)
    if frozenset(expe) != want_e:
        ctx.violation("reduce-expand:edges:%s" % shape, "expandGraph(reduceGraph(G)) has edges %s, G has %s; %s"
                      % (sorted(set(expe)), sorted(want_e), _brief(r)), r)
    elif len(expe) != len(want_e):
        ctx.violation("reduce-expand:duplicate-edge:%s" % shape, "expanded graph repeats an edge: %s; %s"
                      % (sorted(expe), _brief(r)), r)
    got = [frozenset(c) for c in chains]
    want = frozenset(_eset(c) for c in r["chains"])
    if frozenset(got) != want or len(got) != len(want) or any(len(c) != len(set(c)) for c in chains):
        ctx.violation("reduceGraph:chains:%s" % shape,
                      "chains %s are not the junction-to-junction decomposition %s; %s"
                      % (sorted(sorted(c) for c in got), sorted(sorted(c) for c in want), _brief(r)), r)


def _fmt_parts(parts):
    return sorted((sorted(v), sorted(e)) for v, e in parts)


def _brief(r, relab=False):
    s = "G: V=%s E=%s attr=%s" % (r["vs"], r["es"], r["at"])
    if relab:
        s += " relabelled V=%s E=%s attr=%s altered V=%s attr=%s" % (r["rvs"], r["res"], r["rat"], r["avs"], r["aat"])
    return s


# ----------------------------------------------------------------------------------------
# mode H: BeadStructure call histories
# ----------------------------------------------------------------------------------------

REF_SLOT = 9


def _hist_cmds(r):
    """commands for one history + plan [(kind, op)] aligned with the commands"""
    ref = r["ref"]
    cmds = _bs_build(REF_SLOT, ref["vs"], ref["at"], ref["es"])
    plan = [("setup", None)] * len(cmds)
    cmds.append("bs_new 0")
    plan.append(("setup", None))
    for j, op in enumerate(r["h"]):
        a = op["a"]
        on = op.get("on", 0)
        if a == "add":
            cmds.append("bs_add %d %d %s %s" % (on, op["id"], PAL[op["at"]][0], PAL[op["at"]][1]))
            plan.append(("mut", j))
        elif a == "conn":
            cmds.append("bs_conn %d %d %d" % (on, op["x"], op["y"]))
            plan.append(("mut", j))
        elif a == "single":
            cmds.append("bs_single %d" % on)
            plan.append(("single", j))
        elif a == "equiv":
            slot = REF_SLOT
            if op["kind"] != "ref":
                d = op["other"][0]
                bc = _bs_build(1, d["vs"], d["at"], d["es"])
                cmds += bc
                plan += [("setup", None)] * len(bc)
                slot = 1
            cmds += ["bs_equiv %d %d" % (on, slot), "bs_equiv %d %d" % (slot, on)]
            plan += [("equiv", j), ("equiv", j)]
        elif a == "graph":
            cmds.append("bs_graph %d" % on)
            plan.append(("graph", j))
        elif a == "break":
            cmds.append("bs_break %d" % on)
            plan.append(("break", j))
        elif a == "sub":
            cmds.append("bs_sub %d 2 %d %s %d %s" % (on, len(op["ids"]), " ".join(str(x) for x in op["ids"]), len(op["es"]),
                                                    " ".join("%d %d" % (e[0], e[1]) for e in op["es"])))
            plan.append(("sub", j))
        elif a == "fork":
            cmds.append("bs_copy %d %d %d" % (on, op["to"], op["mode"]))
            plan.append(("setup", None))
        elif a == "probe":
            cmds.append("bs_graph %d" % op["slot"])
            plan.append(("probe", j))
        else:
            raise vlib.InfraError("unknown history op %s" % op)
    return cmds, plan


def _graphrec_matches(line, rec):
    verts, nodes, el = _graph_line(line)
    want_v = frozenset(rec["v"])
    want_e = _eset(rec["e"])
    if verts != want_v or frozenset(el) != want_e or len(el) != len(want_e):
        return False
    for v, a in rec["at"]:
        if _attr_differs(nodes.get(v), PAL[a]):
            return False
    return True


def _context(r, j):
    """which kind of call preceded step j: tells stale-cache classes apart in the key"""
    prev = [op["a"] for op in r["h"][:j]]
    muts = [i for i, a in enumerate(prev) if a in ("add", "conn")]
    queries = [i for i, a in enumerate(prev) if a not in ("add", "conn", "sub")]
    if muts and queries and min(queries) < max(muts):
        return "after-query-then-mutation"
    return "first-use" if not queries else "repeated"


def check_histories(ctx, exe, hists, origin):
    items = []
    plans = []
    for i, r in enumerate(hists):
        cmds, plan = _hist_cmds(r)
        items.append((i, cmds))
        plans.append(plan)
    results, crashes = _run_parallel(exe, items)
    for i, r in enumerate(hists):
        ctx.traces += 1
        ctx.nontriv(("hist", origin if origin.startswith("trace") else "", _hist_sig(r)))
        if i in crashes:
            ctx.violation("BeadStructure:crash", "driver aborted (%s): %s" % (origin, crashes[i]), r)
            continue
        out = results[i]
        for (kind, j), lines in zip(plans[i], out):
            ex = _exc(lines)
            if kind == "setup":
                if ex:
                    raise vlib.InfraError("history setup command failed: %s" % ex)
                continue
            op = r["h"][j]
            where = "step %d %s of %s" % (j, _op_str(op), [_op_str(o) for o in r["h"]])
            if kind == "mut":
                if (ex is not None) != (op["exp"] == "exc"):
                    ctx.violation("BeadStructure:%s:%s" % (op["a"], "unexpected-exception" if ex else "missing-exception"),
                                  "%s: got '%s', expected %s" % (where, ex or lines, op["exp"]), r)
                    break
                continue
            if kind == "sub":
                if op["exp"] == []:
                    if ex is None:
                        ctx.violation("BeadStructure:getSubStructure:missing-exception",
                                      "%s: unknown connection accepted: %s" % (where, lines), r)
                        break
                elif ex or not _graphrec_matches(lines[0], op["exp"][0]):
                    ctx.violation("BeadStructure:getSubStructure", "%s: got %s, expected %s" % (where, ex or lines, op["exp"]), r)
                    break
                continue
            if ex:
                ctx.violation("BeadStructure:%s:exception" % op["a"], "%s raised %s" % (where, ex), r)
                break
            cx = _context(r, j)
            if any(o["a"] == "fork" for o in r["h"][:j]):
                cx = "on-copy:" + cx
                ctx.extra["n_query_on_copy"] = ctx.extra.get("n_query_on_copy", 0) + 1
            if kind == "single":
                if op["defined"] and (lines[0].split()[1] == "1") != op["exp"]:
                    ctx.violation("BeadStructure:isSingleStructure:%s" % cx, "%s: got %s, expected %s" % (where, lines[0], op["exp"]), r)
                    break
            elif kind == "equiv":
                got = "T" if lines[0].split()[1] == "1" else "F"
                if op["exp"] != "any" and got != op["exp"]:
                    ctx.violation("BeadStructure:isStructureEquivalent:%s:%s" % (op["kind"], cx),
                                  "%s: got %s, expected %s" % (where, got, op["exp"]), r)
                    break
            elif kind == "probe":
                ctx.extra["n_probe_after_fork"] = ctx.extra.get("n_probe_after_fork", 0) + 1
                if not _graphrec_matches(lines[0], op["exp"]):
                    ctx.violation("BeadStructure:copy:original-changed",
                                  "%s: the abandoned original shows %s, it had %s when it was copied" % (where, lines[0], op["exp"]), r)
                    break
            elif kind == "graph":
                if not _graphrec_matches(lines[0], op["exp"]):
                    ctx.violation("BeadStructure:getGraph:%s" % cx, "%s: got %s, expected %s" % (where, lines[0], op["exp"]), r)
                    break
            elif kind == "break":
                got = []
                okv = True
                for ln in lines[1:]:
                    ids_part, graph_part = ln.split("|", 1)
                    ids = frozenset(int(x) for x in ids_part.split()[2:])
                    verts, nodes, el = _graph_line(graph_part.strip())
                    okv = okv and verts == ids
                    got.append((ids, frozenset(el)))
                want = frozenset((frozenset(p["v"]), _eset(p["e"])) for p in op["exp"])
                if not okv or frozenset(got) != want or len(got) != len(want):
                    ctx.violation("BeadStructure:breakIntoStructures:%s" % cx,
                                  "%s: got %s, expected %s" % (where, _fmt_parts(got), _fmt_parts(want)), r)
                    break


def _op_str(op):
    a = op["a"]
    if a == "add":
        return "AddBead(%d)" % op["id"]
    if a == "conn":
        return "ConnectBeads(%d,%d)" % (op["x"], op["y"])
    if a == "equiv":
        return "isStructureEquivalent(%s)" % op["kind"]
    if a == "sub":
        return "getSubStructure(%s,%s)" % (op["ids"], op["es"])
    if a == "fork":
        return "copy(%s)->slot%d" % ("ctor" if op["mode"] == 0 else "assign", op["to"])
    if a == "probe":
        return "original.getGraph()"
    return {"single": "isSingleStructure()", "graph": "getGraph()", "break": "breakIntoStructures()"}[a]


def _hist_sig(r):
    return "|".join(_op_str(o) for o in r["h"])


# ----------------------------------------------------------------------------------------
# trace validation: real runs on larger random graphs, judged by TLC (GraphTrace.tla)
# ----------------------------------------------------------------------------------------

def _rand_ids(rnd, n):
    pool = set()
    while len(pool) < n:
        r = rnd.random()
        if r < 0.4:
            pool.add(rnd.randrange(0, 64))
        elif r < 0.8:
            pool.add(rnd.randrange(64, 100000))
        else:
            pool.add(rnd.randrange(100000, 2 ** 31 - 1))
    ids = list(pool)
    rnd.shuffle(ids)
    return ids


def _rand_graph(rnd, ids):
    """input generator only (no expectation): dense, sparse, tree+chords, subdivided skeletons, several pieces"""
    n = len(ids)
    E = set()
    style = rnd.choice(["gnp", "gnp", "tree", "subdiv", "pieces"])
    if style == "gnp":
        p = rnd.choice([0.1, 0.2, 0.35, 0.6])
        for a in range(n):
            for b in range(a + 1, n):
                if rnd.random() < p:
                    E.add((ids[a], ids[b]))
    elif style == "tree":
        for a in range(1, n):
            E.add((ids[rnd.randrange(0, a)], ids[a]))
        for _ in range(rnd.randrange(0, 4)):
            a, b = rnd.sample(ids, 2)
            E.add((a, b))
    elif style == "subdiv":
        k = rnd.randrange(2, 5)
        core = ids[:k]
        for a in range(k):
            for b in range(a + 1, k):
                if rnd.random() < 0.7:
                    E.add((core[a], core[b]))
        for v in ids[k:]:
            r = rnd.random()
            if E and r < 0.75:
                e = rnd.choice(sorted(E))
                E.discard(e)
                E.add((e[0], v))
                E.add((v, e[1]))
            elif r < 0.92:
                E.add((rnd.choice(ids[:ids.index(v)]), v))
    else:
        cut = sorted(rnd.sample(range(1, n), rnd.randrange(1, 4)))
        pieces = [ids[a:b] for a, b in zip([0] + cut, cut + [n])]
        for pc in pieces:
            if len(pc) >= 3 and rnd.random() < 0.5:
                for a in range(len(pc)):
                    E.add((pc[a], pc[(a + 1) % len(pc)]))
            else:
                for a in range(1, len(pc)):
                    E.add((pc[rnd.randrange(0, a)], pc[a]))
    E = set((min(a, b), max(a, b)) for a, b in E if a != b)
    es = [list(e) if rnd.random() < 0.5 else [e[1], e[0]] for e in E]
    rnd.shuffle(es)
    return es


def graph_traces(ctx, exe, count):
    rnd = random.Random(ctx.seed * 7919 + 16)
    inputs = []
    items = []
    for i in range(count):
        n = rnd.randrange(8, 13)
        vs = _rand_ids(rnd, n)
        pal = [1, 1, 2, 3, 4] if i % 2 == 0 else [11, 12, 13, 14, 15, 16, 17, 18, 19]
        at = [rnd.choice(pal) for _ in vs]
        es = _rand_graph(rnd, vs)
        starts = rnd.sample(vs, 2)
        # relabelled, re-ordered copy
        targets = _rand_ids(rnd, n)
        pi = dict(zip(vs, targets))
        order = list(range(n))
        rnd.shuffle(order)
        rvs = [pi[vs[k]] for k in order]
        rat = [at[k] for k in order]
        res = [[pi[a], pi[b]] if rnd.random() < 0.5 else [pi[b], pi[a]] for a, b in es]
        rnd.shuffle(res)
        # altered copy: one attribute changed or one extra bead
        avs, aat = list(vs), list(at)
        if rnd.random() < 0.5:
            k = rnd.randrange(n)
            aat[k] = (aat[k] % 4 + 1) if aat[k] < 10 else (11 + (aat[k] - 10) % 9)
        else:
            extra = max(vs) + 1 if max(vs) < 2 ** 31 - 2 else min(set(range(n + 2)) - set(vs))
            avs.append(extra)
            aat.append(rnd.choice([1, 2]))
        inp = dict(vs=vs, at=at, es=es, starts=starts, pi=[[a, pi[a]] for a in vs], rvs=rvs, rat=rat, res=res,
                   avs=avs, aat=aat)
        cmds = [_gcmd(vs, at, es)]
        for s in starts:
            cmds += ["dist %d" % s, "single %d" % s]
        cmds += ["decouple", "reduce", "sid", _gcmd(rvs, rat, res), "sid"]
        cmds += _bs_build(0, vs, at, es) + _bs_build(1, rvs, rat, res) + _bs_build(2, avs, aat, es)
        cmds += ["bs_equiv 0 1", "bs_equiv 1 0", "bs_equiv 0 2", "bs_equiv 2 0"]
        inputs.append(inp)
        items.append((i, cmds))
    results, crashes = _run_parallel(exe, items)
    recs = []
    for i, inp in enumerate(inputs):
        if i in crashes:
            ctx.violation("crash:random-graph", "driver aborted on %s: %s" % (inp, crashes[i]), inp)
            continue
        out = results[i]
        bad = [ln for lines in out for ln in lines if ln.startswith("exc") or ln.startswith("err")]
        if bad:
            ctx.violation("exception:random-graph", "real code raised %s on %s" % (bad[0], inp), inp)
            continue
        rec = dict(inp)
        pos = 1
        rec["starts"] = []
        rec["single"] = []
        for s in inp["starts"]:
            sec = _sections(out[pos][0])
            rec["starts"].append({"s": s, "d": [[int(t.split(":")[0]), int(t.split(":")[1])] for t in sec.get("dist", [])],
                                  "x": [int(x) for x in sec.get("expl", [])]})
            rec["single"].append([s, int(out[pos + 1][0].split()[1])])
            pos += 2
        rec["parts"] = []
        for ln in out[pos]:
            if ln.startswith("comp"):
                verts, nodes, el = _graph_line(ln.replace("comp", "graph", 1))
                rec["parts"].append({"v": sorted(verts), "e": [list(e) for e in el]})
        red = out[pos + 1]
        rec["chains"] = [[list(e) for e in _edges(ln.split()[1:])] for ln in red if ln.startswith("chain")]
        d = dict((ln.split()[0], ln.split()[1:]) for ln in red if not ln.startswith("chain"))
        rec["expv"] = [int(x) for x in d.get("expv", [])]
        rec["expe"] = [list(e) for e in _edges(d.get("expe", []))]
        sid0 = out[pos + 2][0]
        sid1 = out[pos + 4][0]
        rec["sideq"] = sid0 == sid1
        eq = [ln[0].split()[1] == "1" for ln in out[-4:]]
        rec["equiv"] = eq[:2]
        rec["equivalt"] = eq[2:]
        recs.append(rec)
    return recs


_TRACE_KEYS = {"TraceDist": "dist:label:random-graph", "TraceParts": "decouple:random-graph",
               "TraceSingle": "singleNetwork:random-graph", "TraceChains": "reduceGraph:chains:random-graph",
               "TraceExpand": "reduce-expand:random-graph", "TraceEquivalent": "isStructureEquivalent:relabelled:random-graph",
               "TraceDifferent": "isStructureEquivalent:altered-multiset:random-graph"}


def _tlc_trace(spec_dir, module, recs, name, workers=None):
    path = vlib.scratch_file(name)
    vlib.write_ndjson(path, recs)
    return vlib.tlc(spec_dir, module, cfg=module + ".cfg", env={"TRACE": path}, timeout=3000, workers=workers)


def validate_graph_traces(ctx, recs):
    import re
    if not recs:
        return
    res = _tlc_trace("graph", "GraphTrace", recs, "graphtrace.ndjson")
    ctx.add_tlc("GraphTrace(%d records)" % len(recs), res)
    pending = list(recs)
    rounds = 0
    while not res.ok and rounds < 8:
        rounds += 1
        m = re.search(r"Invariant (\w+) is violated", res.violation or "")
        idx = re.findall(r"/\\ i = (\d+)", res.out)
        if not m or not idx:
            raise vlib.InfraError("GraphTrace rejected a record but it could not be located:\n" + res.out[-2000:])
        inv = m.group(1)
        rec = pending[int(idx[-1]) - 1]
        # a rejection is reported only if the record alone is rejected again (DESIGN 7.7)
        again = _tlc_trace("graph", "GraphTrace", [rec], "graphtrace-one.ndjson", workers=1)
        if again.ok:
            raise vlib.InfraError("GraphTrace rejection of a record was not reproducible")
        if inv == "TraceWellFormed":
            raise vlib.InfraError("GraphTrace: malformed record %s" % rec)
        ctx.violation(_TRACE_KEYS.get(inv, "trace:" + inv), "TLC rejects the logged run (%s): %s" % (inv, rec), rec)
        pending = [r for r in pending if r is not rec]
        if not pending:
            break
        res = _tlc_trace("graph", "GraphTrace", pending, "graphtrace.ndjson")
    ctx.traces += len(recs)
    for r in recs[:2000]:
        ctx.nontriv(("trace", tuple(r["vs"]), tuple(map(tuple, r["es"]))))


# ----------------------------------------------------------------------------------------
# trace validation: long random call sequences on BeadStructure, judged by TLC (BeadTrace.tla)
# ----------------------------------------------------------------------------------------

def _run_items(exe, items):
    """vlib.run_items with a timeout proportional to the work; an expired timeout is broken
    infrastructure (DESIGN 7.6: no verdict from timing), reported at once instead of being
    retried item by item."""
    ncmd = sum(len(c) for _, c in items)
    results, crashes = {}, {}
    pos = 0
    while pos < len(items):
        chunk = items[pos:]
        owner, lines = [], []
        for idx, (iid, cmds) in enumerate(chunk):
            for c in cmds:
                owner.append(idx)
                lines.append(c)
        rc, out, err = vlib.run_driver(exe, "\n".join(lines) + "\n", timeout=180 + 0.02 * ncmd)
        if rc == -999:
            done = out.count("\ncmd ") + (1 if out.startswith("cmd ") else 0)
            raise vlib.InfraError("driver %s did not finish in time; it was executing '%s'"
                                  % (exe, lines[done - 1] if 0 < done <= len(lines) else "?"))
        cur, per_cmd = None, []
        for ln in out.splitlines():
            if ln.startswith("cmd "):
                cur = []
                per_cmd.append(cur)
            elif cur is not None:
                cur.append(ln)
        for ci, res in enumerate(per_cmd):
            results.setdefault(chunk[owner[ci]][0], []).append(res)
        if rc == 0 and len(per_cmd) == len(lines):
            break
        if not per_cmd:
            raise vlib.InfraError("driver %s died before the first command (rc=%s): %s" % (exe, rc, err[-2000:]))
        bad = owner[len(per_cmd) - 1]
        iid = chunk[bad][0]
        crashes[iid] = "rc=%s during '%s': %s" % (rc, lines[len(per_cmd) - 1], err[-1500:])
        results.pop(iid, None)
        for k in range(bad + 1, len(chunk)):
            results.pop(chunk[k][0], None)
        pos += bad + 1
    return results, crashes


def _run_parallel(exe, items, nproc=None):
    """_run_items over slices in parallel (the driver is single threaded and items are independent)"""
    import concurrent.futures
    nproc = nproc or vlib.NCPU
    if len(items) < 200 or nproc <= 1:
        return _run_items(exe, items)
    step = (len(items) + nproc - 1) // nproc
    slices = [items[k:k + step] for k in range(0, len(items), step)]
    results, crashes = {}, {}
    with concurrent.futures.ThreadPoolExecutor(max_workers=nproc) as pool:
        for r, c in pool.map(lambda sl: _run_items(exe, sl), slices):
            results.update(r)
            crashes.update(c)
    return results, crashes


def bead_traces(ctx, exe, ntraces, length):
    rnd = random.Random(ctx.seed * 104729 + 61)
    items = []
    metas = []
    for t in range(ntraces):
        pool = _rand_ids(rnd, rnd.randrange(3, 8))
        beads, conns = {}, set()
        cmds = ["bs_new 0"]
        meta = [{"a": "reset"}]
        for _ in range(length):
            r = rnd.random()
            if r < 0.22:
                v = rnd.choice(pool)
                a = rnd.choice([1, 1, 2, 3, 4])
                cmds.append("bs_add 0 %d %s %s" % (v, PAL[a][0], PAL[a][1]))
                meta.append({"a": "add", "id": v, "at": a})
                beads.setdefault(v, a)
            elif r < 0.47:
                x, y = rnd.choice(pool), rnd.choice(pool)
                cmds.append("bs_conn 0 %d %d" % (x, y))
                meta.append({"a": "conn", "x": x, "y": y})
                if x in beads and y in beads and x != y:
                    conns.add((min(x, y), max(x, y)))
            elif r < 0.6:
                cmds.append("bs_single 0")
                meta.append({"a": "single"})
            elif r < 0.7:
                cmds.append("bs_graph 0")
                meta.append({"a": "graph"})
            elif r < 0.8:
                cmds.append("bs_break 0")
                meta.append({"a": "break"})
            else:
                # a copy: relabelled and re-ordered; half of the time with one attribute changed / a bead added
                ids = list(beads)
                targets = _rand_ids(rnd, len(ids) + 1)
                pi = dict(zip(ids, targets))
                order = list(ids)
                rnd.shuffle(order)
                cvs = [pi[v] for v in order]
                cat = [beads[v] for v in order]
                ces = [[pi[a], pi[b]] if rnd.random() < 0.5 else [pi[b], pi[a]] for a, b in conns]
                rnd.shuffle(ces)
                if rnd.random() < 0.5:
                    if cvs and rnd.random() < 0.6:
                        k = rnd.randrange(len(cvs))
                        cat[k] = cat[k] % 4 + 1
                    else:
                        cvs.append(targets[-1])
                        cat.append(rnd.choice([1, 2]))
                bc = _bs_build(1, cvs, cat, ces)
                cmds += bc + ["bs_equiv 0 1", "bs_equiv 1 0"]
                meta += [None] * len(bc)
                meta.append({"a": "equiv", "cvs": cvs, "cat": cat, "ces": ces, "pi": [[v, pi[v]] for v in ids], "_two": True})
                meta.append(None)
        items.append((t, cmds))
        metas.append(meta)
    results, crashes = _run_parallel(exe, items)
    recs = []
    spans = []
    for t in range(ntraces):
        if t in crashes:
            ctx.violation("BeadStructure:crash", "driver aborted during a random call sequence: %s" % crashes[t], items[t][1])
            continue
        out = results[t]
        begin = len(recs)
        k = 0
        while k < len(metas[t]):
            m = metas[t][k]
            lines = out[k]
            if m is None:
                k += 1
                continue
            rec = dict((a, b) for a, b in m.items() if not a.startswith("_"))
            ex = _exc(lines)
            if m["a"] in ("add", "conn"):
                rec["r"] = "exc" if ex else "ok"
            elif ex:
                ctx.violation("BeadStructure:%s:exception" % m["a"], "query raised %s in %s" % (ex, items[t][1][:k + 1]), items[t][1])
                break
            elif m["a"] == "single":
                rec["r"] = int(lines[0].split()[1])
            elif m["a"] == "graph":
                verts, nodes, el = _graph_line(lines[0])
                rec["v"] = sorted(verts)
                rec["e"] = [list(e) for e in el]
                inv = dict((v, k2) for k2, v in PAL.items())
                rec["at"] = [[v, inv.get((nm, ms), 0)] for v, (nm, ms) in sorted(nodes.items())]
            elif m["a"] == "break":
                rec["parts"] = []
                for ln in lines[1:]:
                    ids_part, graph_part = ln.split("|", 1)
                    verts, nodes, el = _graph_line(graph_part.strip())
                    rec["parts"].append({"v": [int(x) for x in ids_part.split()[2:]], "e": [list(e) for e in el]})
            elif m["a"] == "equiv":
                rec["r"] = [int(lines[0].split()[1]), int(out[k + 1][0].split()[1])]
            recs.append(rec)
            k += 1
        spans.append((begin, len(recs), t))
    return recs, spans, items


def validate_bead_traces(ctx, recs, spans, items):
    import re
    if not recs:
        return
    res = _tlc_trace("beadstructure", "BeadTrace", recs, "beadtrace.ndjson", workers=1)
    ctx.add_tlc("BeadTrace(%d records)" % len(recs), res)
    if not res.ok:
        idx = re.findall(r"/\\ j = (\d+)", res.out)
        if not idx:
            raise vlib.InfraError("BeadTrace rejected the log but the step could not be located:\n" + res.out[-2000:])
        j = int(idx[-1])
        span = [s for s in spans if s[0] < j <= s[1]][0]
        one = recs[span[0]:j]
        again = _tlc_trace("beadstructure", "BeadTrace", one, "beadtrace-one.ndjson", workers=1)
        if again.ok:
            raise vlib.InfraError("BeadTrace rejection was not reproducible")
        last = one[-1]
        ctx.violation("BeadStructure:trace:%s" % last["a"], "TLC rejects the logged call sequence at %s; calls so far: %s"
                      % (last, [r["a"] for r in one]), {"records": one, "commands": items[span[2]][1]})
    ctx.traces += len(spans)
    for s in spans[:2000]:
        ctx.nontriv(("beadtrace", s[2], ctx.seed))


# ----------------------------------------------------------------------------------------
# mode H for distance labelling: several sweeps over ONE Graph object (GraphHist.tla)
# ----------------------------------------------------------------------------------------

def check_sweep_histories(ctx, exe, hists):
    items = []
    plans = []
    for i, r in enumerate(hists):
        vs = r["vs"]
        cmds = [_gcmd(vs, [1 + (k % 3) for k in range(len(vs))], r["es"])]
        cmds += ["prelabel %d %d" % (v, d) for v, d in r["pre"]]
        plan = [None] * len(cmds)
        for j, op in enumerate(r["h"]):
            if op.get("cp", -1) >= 0:
                cmds.append("gcopy %d" % op["cp"])
                plan.append(None)
            cmds.append("hdist %d" % op["s"])
            plan.append(("sweep", j))
            if op.get("cp", -1) >= 0:
                cmds.append("gold")
                plan.append(("old", j))
        items.append((i, cmds))
        plans.append(plan)
    results, crashes = _run_parallel(exe, items)
    for i, r in enumerate(hists):
        ctx.traces += 1
        ctx.nontriv(("sweeps", tuple(r["vs"]), tuple(map(tuple, r["es"])), tuple(map(tuple, r["pre"])),
                     tuple(op["s"] for op in r["h"])))
        if i in crashes:
            ctx.violation("dist:history:crash", "driver aborted: %s on %s" % (crashes[i], r), r)
            continue
        for pl, lines in zip(plans[i], results[i]):
            if pl is None:
                continue
            what, j = pl
            op = r["h"][j]
            ex = _exc(lines)
            if ex:
                ctx.violation("dist:history:exception", "sweep %d from %d raised %s; %s" % (j, op["s"], ex, _sweeps(r)), r)
                break
            if what == "old":
                ctx.extra["n_graph_copy_probe"] = ctx.extra.get("n_graph_copy_probe", 0) + 1
                sec = _sections(lines[0])
                got = dict((int(t.split(":")[0]), int(t.split(":")[1])) for t in sec.get("dist", []))
                verts, nodes, el = _graph_line(lines[1])
                wrong = [(v, got.get(v), d) for v, d in op["old"] if got.get(v) != d]
                if wrong or verts != frozenset(r["vs"]) or frozenset(el) != _eset(r["es"]):
                    ctx.violation("Graph:copy:original-changed",
                                  "after copying (mode %d) and sweeping the COPY from %d the original shows %s / %s, expected labels %s; %s"
                                  % (op["cp"], op["s"], lines[0], lines[1], op["old"], _sweeps(r)), r)
                    break
                continue
            sec = _sections(lines[0])
            got = dict((int(t.split(":")[0]), int(t.split(":")[1])) for t in sec.get("dist", []))
            wrong = [(v, got.get(v), d) for v, d in op["d"] if got.get(v) != d]
            if wrong:
                if j == 0:
                    kind = "prelabelled-first-sweep" if r["pre"] else "first-sweep"
                else:
                    kind = "repeated-start" if op["s"] in [o["s"] for o in r["h"][:j]] else "later-sweep-other-start"
                    if op.get("cp", -1) >= 0:
                        kind = "on-copy:" + kind
                v, g_, d = wrong[0]
                ctx.violation("dist:history:%s" % kind,
                              "sweep %d from %d on the same Graph object labels vertex %d with %s, shortest hop count is %d "
                              "(%d wrong labels); %s" % (j, op["s"], v, g_, d, len(wrong), _sweeps(r)), r)
                break
            # transcription conformance only: untouched vertices keep what they had
            keep = [(v, d) for v, d in op["keep"] if (got.get(v) if d >= 0 else (-1 if v not in got else got[v])) != d]
            if keep:
                ctx.extra.setdefault("algo_drift", [])
                if len(ctx.extra["algo_drift"]) < 5:
                    ctx.extra["algo_drift"].append({"unreached_label_changed": keep, "history": _sweeps(r)})


def _sweeps(r):
    return "G: V=%s E=%s pre-labels=%s sweeps from %s" % (r["vs"], r["es"], r["pre"], [op["s"] for op in r["h"]])


# ----------------------------------------------------------------------------------------
# breakIntoMotifs / breakIntoSimpleMotifs / BeadMotifConnector: logged decompositions judged by TLC
# ----------------------------------------------------------------------------------------

_MOTIF_KEYS = {"MotifTops": "breakIntoMotifs:components", "MotifNoDuplicates": "breakIntoSimpleMotifs:duplicate",
               "MotifLossless": "breakIntoSimpleMotifs:lossless"}


def motif_traces(ctx, exe, graphs):
    """graphs: list of (vs, es).  Returns the logged decompositions."""
    items = []
    for i, (vs, es) in enumerate(graphs):
        items.append((i, _bs_build(0, vs, [1 + (k % 3) for k in range(len(vs))], es) + ["bs_motifs 0"]))
    results, crashes = _run_parallel(exe, items)
    recs = []
    for i, (vs, es) in enumerate(graphs):
        inp = {"vs": vs, "es": es}
        if i in crashes:
            ctx.violation("breakIntoSimpleMotifs:crash", "driver aborted on %s: %s" % (inp, crashes[i]), inp)
            continue
        lines = results[i][-1]
        ex = _exc(lines)
        if ex:
            ctx.violation("breakIntoSimpleMotifs:exception", "raised %s on %s" % (ex, inp), inp)
            continue
        rec = {"vs": list(vs), "es": [list(e) for e in es], "tops": []}
        for ln in lines[1:]:
            p = ln.split()
            if p[0] == "top":
                rec["tops"].append({"type": p[1], "ids": [int(x) for x in p[3:]], "motifs": [], "conns": []})
            elif p[0] == "motif":
                sec = _sections(" ".join(p[3:]))
                rec["tops"][-1]["motifs"].append({"id": int(p[1]), "type": p[2], "ids": [int(x) for x in sec.get("ids", [])],
                                                   "es": [list(e) for e in _edges(sec.get("edges", []))]})
            elif p[0] == "conn":
                rec["tops"][-1]["conns"].append({"e": list(_edge(p[1])), "m": [int(p[3]), int(p[4])]})
        recs.append(rec)
    return recs


def validate_motif_traces(ctx, recs):
    import re
    if not recs:
        return
    res = _tlc_trace("graph", "MotifTrace", recs, "motiftrace.ndjson")
    ctx.add_tlc("MotifTrace(%d records)" % len(recs), res)
    if not res.ok:
        m = re.search(r"Invariant (\w+) is violated", res.violation or "")
        idx = re.findall(r"/\\ i = (\d+)", res.out)
        if not m or not idx:
            raise vlib.InfraError("MotifTrace rejected a record but it could not be located:\n" + res.out[-2000:])
        rec = recs[int(idx[-1]) - 1]
        again = _tlc_trace("graph", "MotifTrace", [rec], "motiftrace-one.ndjson", workers=1)
        if again.ok:
            raise vlib.InfraError("MotifTrace rejection was not reproducible")
        if m.group(1) == "MotifWellFormed":
            raise vlib.InfraError("MotifTrace: malformed record %s" % rec)
        ctx.violation(_MOTIF_KEYS.get(m.group(1), "motif:" + m.group(1)),
                      "TLC rejects the logged motif decomposition (%s): %s" % (m.group(1), rec), rec)
    ctx.traces += len(recs)
    # vacuity guard: complex structures were really split and connectors really produced
    ctx.extra["n_motif_split"] = sum(1 for r in recs for t in r["tops"] if len(t["motifs"]) > 1)
    ctx.extra["n_motif_connector_edges"] = sum(len(t["conns"]) for r in recs for t in r["tops"])
    ctx.extra["motif_types_seen"] = sorted(set(m["type"] for r in recs for t in r["tops"] for m in t["motifs"]))


# ----------------------------------------------------------------------------------------
# structure id as a string: adversarial names (IdString.tla) and the mass lattice (IdMass.tla)
# ----------------------------------------------------------------------------------------

def check_id_strings(ctx, exe, pairs, masses):
    items = []
    for i, r in enumerate(pairs):
        cmds = []
        for slot, st in ((0, r["x"]), (1, r["y"])):
            cmds.append("bs_new %d" % slot)
            for k, bd in enumerate(st["b"]):
                cmds.append("bs_add %d %d %s %d" % (slot, 10 * slot + 3 + 4 * k, "".join(bd["n"]), bd["m"]))
            if st["edge"]:
                cmds.append("bs_conn %d %d %d" % (slot, 10 * slot + 3, 10 * slot + 7))
        cmds += ["bs_equiv 0 1", "bs_equiv 1 0"]
        items.append((("s", i), cmds))
    for i, r in enumerate(masses):
        fmt = lambda k: repr(k / float(r["unit"]))
        items.append((("m", i), ["bs_new 0", "bs_add 0 5 C %s" % fmt(r["ma"]), "bs_new 1", "bs_add 1 77 C %s" % fmt(r["mb"]),
                                 "bs_equiv 0 1", "bs_equiv 1 0"]))
    results, crashes = _run_items(exe, items)
    ncoll = 0
    for (fam, i), cmds in items:
        r = pairs[i] if fam == "s" else masses[i]
        ctx.count()
        ctx.nontriv(("idstring", fam, i))
        if (fam, i) in crashes:
            ctx.violation("isStructureEquivalent:crash", "driver aborted on %s: %s" % (r, crashes[(fam, i)]), r)
            continue
        out = results[(fam, i)]
        bad = [ln for lines in out for ln in lines if ln.startswith("exc")]
        if bad:
            ctx.violation("isStructureEquivalent:exception", "%s on %s" % (bad[0], r), r)
            continue
        got = [lines[0].split()[1] == "1" for lines in out[-2:]]
        if fam == "m":
            if any(got):
                ctx.violation("isStructureEquivalent:altered-multiset:mass-within-8-digits",
                              "single beads with masses %r and %r (units of 1/%d) are reported equivalent" %
                              (r["ma"], r["mb"], r["unit"]), r)
            continue
        keyword = any(t in ("Dist", "Mass", "Name") for t in r["x"]["b"][0]["n"])
        if r.get("idcollide"):
            ncoll += 1
        if any(got):
            ctx.violation("isStructureEquivalent:altered-multiset:%s" % ("name-contains-keyword" if keyword else "plain-names"),
                          "structures with different (name,mass) multisets are reported equivalent: X=%s Y=%s" %
                          (_fmt_struct(r["x"]), _fmt_struct(r["y"])), r)
        if all(got) != r["collide"]:
            ctx.extra.setdefault("algo_drift", [])
            if len(ctx.extra["algo_drift"]) < 5:
                ctx.extra["algo_drift"].append({"idstring_model_says_collide": r["collide"], "code_says_equal": got, "pair": r})
    ctx.extra["n_idstring_id_collisions"] = ncoll


def _fmt_struct(st):
    return "%s%s" % ([("".join(b["n"]), b["m"]) for b in st["b"]], " bonded" if st["edge"] else "")


def _replay(ctx, exe):
    """--replay FILE: re-run exactly one recorded vector / history / logged run"""
    import json
    obj = json.load(open(ctx.replay))["replay"]
    if isinstance(obj, dict) and "h" in obj and "pre" in obj:
        check_sweep_histories(ctx, exe, [obj])
    elif isinstance(obj, dict) and "h" in obj:
        check_histories(ctx, exe, [obj], "replay")
    elif isinstance(obj, dict) and "dist" in obj:
        check_vectors(ctx, exe, [obj], "replay")
    elif isinstance(obj, dict) and "collide" in obj:
        check_id_strings(ctx, exe, [obj], [])
    elif isinstance(obj, dict) and "ma" in obj:
        check_id_strings(ctx, exe, [], [obj])
    elif isinstance(obj, dict) and "tops" in obj:
        validate_motif_traces(ctx, motif_traces(ctx, exe, [(obj["vs"], obj["es"])]))
    elif isinstance(obj, dict) and "starts" in obj:
        validate_graph_traces(ctx, [obj])
    elif isinstance(obj, dict) and "records" in obj:
        recs = obj["records"]
        validate_bead_traces(ctx, recs, [(0, len(recs), 0)], [(0, obj.get("commands", []))])
    else:
        raise vlib.InfraError("replay file of unknown shape")


def run(ctx):
    bindir = vlib.ensure_build(["drv_graph"])
    exe = bindir + "/drv_graph"
    quick = ctx.quick
    ctx.rule = ("mode L: one vector per (graph, salt) of the TLC domain, non-trivial = distinct (V,E,salt); "
                "mode H: every BeadStructure call history of the TLC model (BFS to Depth + simulation) and every history "
                "of 2-3 GraphDistVisitor sweeps over one Graph object (with/without left-over Dist labels); "
                "trace validation: logged runs on random graphs of 8-12 vertices / long random call sequences")
    ctx.assumptions += [
        "simple graphs only (no self loops, no parallel edges); attributes from a 4-entry (name,mass) palette",
        "vertex ids are arbitrary non-negative integers below 2^31, never 1..n",
        "driver compiles the graph sources and beadstructure.cc with assertions, ASan and UBSan",
        "the breadth-first visitor's explored set is bound through distances, components and single-network only"]

    if getattr(ctx, "replay", None):
        return _replay(ctx, exe)

    # ---- 1. the breadth-first queue, every neighbour order (design level) ---------------
    mod = "MCBfsQuick" if quick else "MCBfsThorough"
    res = vlib.tlc("graph", mod, cfg=mod + ".cfg", timeout=3000)
    vlib.tlc_must_hold(res, "GraphBFS: labels are shortest hop counts under every neighbour order")
    ctx.add_tlc(mod, res)

    # ---- 1b. histories of sweeps over one Graph object (mode H) -----------------------------
    mod = "MCHistQuick" if quick else "MCHistThorough"
    res = vlib.tlc("graph", mod, cfg=mod + ".cfg", timeout=3000)
    vlib.tlc_must_hold(res, "GraphHist: after every sweep the reachable vertices carry the hop counts of that start")
    ctx.add_tlc(mod, res)
    if not res.records:
        raise vlib.InfraError("no sweep histories exported by " + mod)
    check_sweep_histories(ctx, exe, res.records)
    ctx.sample({"sweep_history": res.records[len(res.records) // 2]})

    # ---- 2. graph vectors (mode L) ---------------------------------------------------------
    mod = "MCVecQuick" if quick else "MCVecThorough"
    res = vlib.tlc("graph", mod, cfg=mod + ".cfg", timeout=3000)
    vlib.tlc_must_hold(res, "GraphVec: component/single/reduce/structure-id laws")
    ctx.add_tlc(mod, res)
    vecs = res.records
    res.out = ""
    if not vecs:
        raise vlib.InfraError("no vectors exported by " + mod)
    check_vectors(ctx, exe, vecs, mod)
    salt0 = min(r["salt"] for r in vecs)
    motif_graphs = [(r["vs"], r["es"]) for r in vecs if r["salt"] == salt0 and (r["n"] <= 5 or r["n"] == 7)]
    ctx.sample({"graph_vector": dict((k, v) for k, v in vecs[len(vecs) // 2].items() if k != "cands")})
    mod = "MCLaws" if quick else "MCLawsThorough"
    res = vlib.tlc("graph", mod, cfg=mod + ".cfg", timeout=3000)
    vlib.tlc_must_hold(res, "chains are the classes of the degree-2 link relation; the reduction obeying the end-point rule is unique")
    ctx.add_tlc(mod, res)

    # ---- 3. BeadStructure call histories (mode H) ---------------------------------------------
    del vecs
    hists = []
    for mod in (["MCBeadQuick"] if quick else ["MCBeadQuick", "MCBeadThorough"]):
        res = vlib.tlc("beadstructure", mod, cfg=mod + ".cfg", timeout=3000)
        vlib.tlc_must_hold(res, "BeadStructure: cache coherence, every answer equals the recomputed one")
        ctx.add_tlc(mod, res)
        if not res.records:
            raise vlib.InfraError("no histories exported by " + mod)
        hists += res.records
    res = vlib.tlc("beadstructure", "MCBeadSim", cfg="MCBeadSim.cfg", timeout=3000, simulate=(40 if quick else 300),
                   depth=11, workers=4, seed=ctx.seed)
    vlib.tlc_must_hold(res, "BeadStructure simulation")
    ctx.add_tlc("MCBeadSim(simulate)", res)
    hists += res.records
    res = None
    check_histories(ctx, exe, hists, "MCBead")
    ctx.sample({"history": [_op_str(o) + " -> " + str(o.get("exp", ""))[:80] for o in hists[len(hists) // 3]["h"]]})
    ctx.sample({"history": [_op_str(o) + " -> " + str(o.get("exp", ""))[:80] for o in hists[-1]["h"]]})
    del hists

    # ---- 3a. the id as a string: adversarial names, mass lattice --------------------------------------
    mod = "MCIdString" if quick else "MCIdStringThorough"
    res = vlib.tlc("graph", mod, cfg=mod + ".cfg", timeout=1200)
    vlib.tlc_must_hold(res, "IdString: ids of keyword-free names are injective on the family")
    ctx.add_tlc(mod, res)
    res2 = vlib.tlc("graph", "IdMass", cfg="IdMass.cfg", timeout=600)
    vlib.tlc_must_hold(res2, "IdMass: lattice masses have at most 8 significant digits")
    ctx.add_tlc("IdMass", res2)
    if not res.records or not res2.records:
        raise vlib.InfraError("no id-string vectors exported")
    check_id_strings(ctx, exe, res.records, res2.records)

    # ---- 3b. motif decompositions of the vector-domain graphs and of larger random ones -----------
    rnd = random.Random(ctx.seed * 31337 + 5)
    for _ in range(150 if quick else 4000):
        ids = _rand_ids(rnd, rnd.randrange(6, 13))
        motif_graphs.append((ids, _rand_graph(rnd, ids)))
    validate_motif_traces(ctx, motif_traces(ctx, exe, motif_graphs))
    del motif_graphs

    # ---- 4. real runs on larger random graphs, validated by TLC ------------------------------------
    recs = graph_traces(ctx, exe, 300 if quick else 8000)
    validate_graph_traces(ctx, recs)
    if recs:
        ctx.sample({"validated_run": dict((k, recs[0][k]) for k in ("vs", "es", "chains", "equiv", "equivalt"))})

    # ---- 5. long random call sequences on BeadStructure, validated by TLC ----------------------------
    recs, spans, titems = bead_traces(ctx, exe, 150 if quick else 2000, 40 if quick else 60)
    validate_bead_traces(ctx, recs, spans, titems)
    ctx.exhaustive = False

    # ---- vacuity guards: the cases the newer layers are about really occurred in this run ------------
    need = ["n_nondyadic_5plus", "n_multigraph_selfedge", "n_multigraph_selfedge_isolated", "n_multigraph_dups",
            "n_graph_copy_probe", "n_branch_proper", "n_query_on_copy", "n_probe_after_fork", "n_motif_split",
            "n_motif_connector_edges", "n_idstring_id_collisions"]
    missing = [k for k in need if not ctx.extra.get(k)]
    if missing or set(ctx.extra.get("motif_types_seen", [])) != {"single_bead", "line", "loop", "fused_ring"}:
        raise vlib.InfraError("vacuous run: counters %s are zero / motif types seen %s" %
                              (missing, ctx.extra.get("motif_types_seen")))


