"""C11 - option handling merges user input over defaults without loss or invention; XML
round trip of property trees; typed access accepts exactly the documented literals.
spec/options: Options (declarative resolution), OptTiny (exhaustive tiny descriptions x user
trees), OptShipped (the shipped xtp calculator files, user trees chosen by TLC).
spec/proptree: PropTree (history spec of tools::Property), XmlLaw (Load(Print(t)) = Trim(t)),
LitVectors/Literals (as<bool|Index|double|vectors>)."""
import glob
import json
import os
import re
import shutil
import xml.etree.ElementTree as ET
from fractions import Fraction
from xml.sax.saxutils import escape, quoteattr

import vlib

MANIFEST = dict(
    engine="options+proptree", design_ref="DESIGN.md 5/C11",
    technique="TLA+ spec of the documented option resolution (flat pre-order trees, links, OPTIONAL/REQUIRED, lists, "
              "unchecked, choices) and a history spec of tools::Property, model-checked with TLC; TLC-chosen "
              "(description, user tree, expected) vectors and call histories replayed into OptionsHandler / Property "
              "(ASan+UBSan driver); XML law and literal classifiers exported as vectors",
    text="TLC enumerates every tiny calculator description x user tree of the OptTiny family and, for every shipped xtp "
         "calculator file (converted by python's ElementTree, links left to the spec), user trees with every single "
         "leaf, every invalid value per choice type, undeclared names in- and outside unchecked sections, list "
         "multiplicities 0..2 and hashed 1-3 leaf combinations; the theorems nothing-invented / nothing-lost / "
         "defaults-kept / idempotence hold on all of them and every vector is replayed into "
         "OptionsHandler::ProcessUserInput / CalculatorOptions with comparison of the projected tree or of the "
         "option named by the error.  Property call histories (BFS + simulation), XML round trips over an alphabet "
         "with & < > \" ' and white space, and as<T> literals are replayed the same way.",
    note="Trusted: TLC, python's ElementTree as the independent reader of the shipped files, the text driver protocol. "
         "Three-valued literals: forms the documentation does not settle (+5, 5., .5, nan, -0 for int+/float+, empty "
         "multi-choice, comma runs in vectors) admit both outcomes. Not modelled: duplicate user keys outside lists, list sections without OPTIONAL/REQUIRED that are not supplied, "
         "HLP/TXT output formats (only their names are documented).")

XTP_XML = os.path.join(vlib.REPO, "xtp", "share", "xtp", "xml")


# ------------------------------------------------------------------------------------------
# representation helpers (no property logic: flat form <-> XML text, canonical comparison form)
# ------------------------------------------------------------------------------------------

def attr_xml(a):
    """spec attribute record -> XML attribute text"""
    out = ""
    if a["hd"]:
        out += " default=" + quoteattr(a["df"])
    if a["hc"]:
        out += " choices=" + quoteattr(a["ch"])
    if a["hl"]:
        out += " link=" + quoteattr(a["ln"])
    if a["ls"]:
        out += ' list=""'
    if a["un"]:
        out += ' unchecked=""'
    return out


def flat_to_xml(nodes):
    """[[d,n,v,attr-record]..] -> XML document text"""
    out = []
    stack = []
    for nd in nodes:
        d, n, v, a = nd[0], nd[1], nd[2], nd[3]
        while len(stack) > d:
            out.append("</%s>" % stack.pop())
        out.append("<%s%s>%s" % (n, attr_xml(a), escape(v)))
        stack.append(n)
    while stack:
        out.append("</%s>" % stack.pop())
    return "".join(out) + "\n"


def xml_to_flat(path):
    """Independent reader of a shipped description: ElementTree -> flat spec form (links unresolved)."""
    root = ET.parse(path).getroot()
    out = []

    def rec(el, d):
        txt = (el.text or "") + "".join((c.tail or "") for c in el)
        at = el.attrib
        out.append({"d": d, "n": el.tag, "v": txt,
                    "a": {"hd": "default" in at, "df": at.get("default", ""),
                          "hc": "choices" in at, "ch": at.get("choices", ""),
                          "hl": "link" in at, "ln": at.get("link", ""),
                          "ls": "list" in at, "un": "unchecked" in at}})
        for c in el:
            rec(c, d + 1)
    rec(root, 0)
    return out


def canon(nodes):
    """flat [[d,n,v,...]..] -> {indexed path: node}; the indexed path numbers equal names among
    siblings in document order, so that the comparison does not depend on the order of different names"""
    out = {}
    path = []
    counts = [dict()]
    for nd in nodes:
        d, n = nd[0], nd[1]
        del path[d:]
        del counts[d + 1:]
        k = counts[d].get(n, 0) + 1
        counts[d][n] = k
        path.append((n, k))
        counts.append(dict())
        out[tuple(path)] = nd
    return out


def pstr(ip):
    return ".".join(n if k == 1 else "%s[%d]" % (n, k) for n, k in ip)


def is_leaf_list(nodes):
    return [i + 1 == len(nodes) or nodes[i + 1][0] <= nodes[i][0] for i in range(len(nodes))]


def first(lines, tag):
    for ln in lines:
        if ln.startswith(tag + " "):
            return json.loads(ln[len(tag) + 1:])
    return None


# ------------------------------------------------------------------------------------------
# comparison of one ProcessUserInput observation with the expectation printed by TLC
# ------------------------------------------------------------------------------------------

def classify_msg(msg):
    if "has no option" in msg:
        return "undeclared"
    if "Please specify" in msg:
        return "required"
    if "cannot be converted" in msg:
        return "choice"
    return "other"


def named_options(msg):
    """the option(s) an error text names: the last path component / the quoted name of the three
    message forms of optionshandler.cc, else every word of the text"""
    for lead in ("has no option:", "specify an input for:"):
        if lead in msg:
            return {msg.split(lead, 1)[1].strip().split(".")[-1]}
    m = re.search(r'input value for "([^"]*)"', msg)
    if m:
        return {m.group(1)}
    return set(re.findall(r"[A-Za-z0-9_+-]+", msg))


def path_fault(lines, who):
    """path() of every node of a dumped tree must be the dotted names of its ancestors (checked in the driver)"""
    pi = first(lines, "paths")
    if pi and pi[0]:
        return (who + ":path-bookkeeping", "%d node(s) with a wrong path(), e.g. %s" % (pi[0], pi[1]))
    return None


def judge_process(exp, lines):
    """returns None or (key, text)"""
    tree = first(lines, "tree")
    msg = first(lines, "exc")
    pf = path_fault(lines, "ProcessUserInput")
    if pf:
        return pf
    if tree is None and msg is None:
        return ("ProcessUserInput:driver", "no observation: %s" % lines)
    errs = [tuple(e) for e in exp["errs"]]
    maybe = [tuple(e) for e in exp["maybe"]]
    if msg is not None:
        if not errs and not maybe:
            kind = classify_msg(msg)
            if kind == "undeclared" and any(n[3] == "c" for n in exp["nodes"]):
                return ("ProcessUserInput:unchecked-section:rejected",
                        "keys below a section declared unchecked are rejected: %r" % msg)
            return ("ProcessUserInput:spurious-rejection:" + kind, "valid input rejected: %r" % msg)
        if not (named_options(msg) & set(n for (_, n) in errs + maybe)):
            return ("ProcessUserInput:error-not-naming:" + "+".join(sorted(set(e for e, _ in errs))),
                    "error %r names none of %s" % (msg, errs + maybe))
        return None
    if errs:
        return ("ProcessUserInput:accepted:" + "+".join(sorted(set(e for e, _ in errs))),
                "input accepted although %s" % errs)
    leaf = is_leaf_list(exp["nodes"])
    want = canon([list(n) + [leaf[i]] for i, n in enumerate(exp["nodes"])])
    got = canon(tree)
    for ip, nd in want.items():
        if ip not in got:
            return ("ProcessUserInput:tree:missing:" + nd[3], "resolved options lack %s (%s)" % (pstr(ip), nd[3]))
        # values are compared (trimmed) on the leaves the statement speaks about: user-supplied, defaulted and
        # copied ones; section text and leaves without a default attribute are outside the statement
        if nd[4] and nd[3] in ("u", "d", "c") and nd[2].strip() != got[ip][2].strip():
            return ("ProcessUserInput:tree:value:" + nd[3],
                    "%s is %r, expected %r (%s)" % (pstr(ip), got[ip][2], nd[2], nd[3]))
    for ip in got:
        if ip not in want:
            return ("ProcessUserInput:tree:extra", "resolved options contain %s = %r which nothing declares or supplies"
                    % (pstr(ip), got[ip][2]))
    return None


def judge_calcopts(copt, lines):
    tree = first(lines, "tree")
    if tree is None:
        return ("CalculatorOptions:failed", "no tree: %s" % lines)
    pf = path_fault(lines, "CalculatorOptions")
    if pf:
        return pf
    if [(n[0], n[1]) for n in tree] != [(n[0], n[1]) for n in copt]:
        return ("CalculatorOptions:structure",
                "links not resolved as documented (children appended in order): got %s expected %s"
                % ([(n[0], n[1]) for n in tree], [(n[0], n[1]) for n in copt]))
    for got, want in zip(tree, copt):
        a, at = want[3], got[3]
        if want[4] and a["hd"] and want[2].strip() != got[2].strip():
            return ("CalculatorOptions:default-value", "%s shows %r, default is %r" % (want[1], got[2], want[2]))
        for flag, val, name in (("hd", "df", "default"), ("hc", "ch", "choices")):
            if a[flag] != (name in at) or (a[flag] and a[val] != at[name]):
                return ("CalculatorOptions:attribute:" + name,
                        "%s: attribute %s is %r, expected %r" % (want[1], name, at.get(name), a[val] if a[flag] else None))
        for flag, name in (("ls", "list"), ("un", "unchecked")):
            if a[flag] != (name in at):
                return ("CalculatorOptions:attribute:" + name, "%s: attribute %s presence" % (want[1], name))
        if "link" in at:
            return ("CalculatorOptions:attribute:link", "%s still carries its link attribute" % want[1])
    return None


# ------------------------------------------------------------------------------------------
# part 1: tiny descriptions x user trees (exhaustive)
# ------------------------------------------------------------------------------------------

def part_tiny(ctx, exe, work):
    mod = "MCTinyQuick" if ctx.quick else "MCTinyThorough"
    res = vlib.tlc("options", mod, cfg=mod + ".cfg", timeout=3000)
    vlib.tlc_must_hold(res, "Options theorems on the tiny family (invented/lost/defaults/idempotent)")
    ctx.add_tlc(mod, res)
    heads = [r for r in res.records if "desc" in r]
    recs = [r for r in res.records if "user" in r]
    if not recs or not heads or len(res.records) != res.distinct:
        raise vlib.InfraError("vector export incomplete from %s: %d of %d" % (mod, len(res.records), res.distinct))
    descs = {}
    items = []
    for k, r in enumerate(heads):
        key = json.dumps(r["p"], sort_keys=True)
        ddir = os.path.join(work, "tiny", "d%d" % k)
        os.makedirs(os.path.join(ddir, "subpackages"), exist_ok=True)
        with open(os.path.join(ddir, "t.xml"), "w") as f:
            f.write(flat_to_xml(r["desc"]))
        for pk in r["pkgs"]:
            with open(os.path.join(ddir, "subpackages", pk["file"]), "w") as f:
                f.write(flat_to_xml(pk["t"]))
        descs[key] = (ddir + "/", r)
        items.append(("co%d" % k, ["calcopts " + json.dumps({"dir": ddir + "/", "calc": "t"})]))
    for i, r in enumerate(recs):
        key = json.dumps(r["p"], sort_keys=True)
        via = "xml" if (ctx.quick or i % 2 == 0) else "api"
        items.append((i, ["process " + json.dumps({"dir": descs[key][0], "calc": "t", "user": r["user"], "via": via})]))
    results, crashes = vlib.run_items(exe, items, args=(work,))
    for k, r in enumerate(heads):
        ctx.count()
        ci = "co%d" % k
        rep = {"kind": "tiny-calcopts", "p": r["p"], "desc": r["desc"], "pkgs": r["pkgs"], "copt": r["copt"]}
        if ci in crashes:
            ctx.violation("CalculatorOptions:crash", "driver aborted: " + crashes[ci], rep)
            continue
        v = judge_calcopts(r["copt"], results[ci][0])
        if v:
            ctx.violation(v[0], v[1] + "  [description %s]" % r["p"], rep)
    for i, r in enumerate(recs):
        ctx.count()
        if r["exp"]["errs"] or r["exp"]["maybe"] or any(n[3] in ("u", "c") for n in r["exp"]["nodes"][2:]):
            ctx.nontriv(("tiny", json.dumps(r["p"], sort_keys=True), json.dumps(r["user"])))
        head = descs[json.dumps(r["p"], sort_keys=True)][1]
        rep = {"kind": "tiny", "p": r["p"], "desc": head["desc"], "pkgs": head["pkgs"], "user": r["user"], "exp": r["exp"]}
        if i in crashes:
            ctx.violation("ProcessUserInput:crash", "driver aborted: " + crashes[i], rep)
            continue
        v = judge_process(r["exp"], results[i][0])
        if v:
            ctx.violation(v[0], v[1] + "  [description %s, user %s]" % (r["p"], r["user"]), rep)
    ok = [r for r in recs if not r["exp"]["errs"] and any(n[3] == "u" for n in r["exp"]["nodes"])]
    bad = [r for r in recs if r["exp"]["errs"]]
    if ok:
        ctx.sample({"tiny_ok": {"p": ok[len(ok) // 2]["p"], "user": ok[len(ok) // 2]["user"],
                                "expected": ok[len(ok) // 2]["exp"]}})
    if bad:
        ctx.sample({"tiny_error": {"p": bad[len(bad) // 3]["p"], "user": bad[len(bad) // 3]["user"],
                                   "expected": bad[len(bad) // 3]["exp"]}})
    return len(descs)


# ------------------------------------------------------------------------------------------
# part 2: the shipped calculator descriptions, user trees chosen by TLC
# ------------------------------------------------------------------------------------------

def shipped_descs(path):
    recs = []
    for f in sorted(glob.glob(XTP_XML + "/*.xml")):
        recs.append({"file": os.path.basename(f), "calc": True, "t": xml_to_flat(f)})
    for f in sorted(glob.glob(XTP_XML + "/subpackages/*.xml")):
        recs.append({"file": os.path.basename(f), "calc": False, "t": xml_to_flat(f)})
    if len([r for r in recs if r["calc"]]) < 20:
        raise vlib.InfraError("shipped calculator descriptions not found under " + XTP_XML)
    vlib.write_ndjson(path, recs)
    return recs


def judge_shipped(ctx, exe, work, recs):
    items = []
    for i, r in enumerate(recs):
        calc = r["calc"][:-4]
        if r["kind"] == "calcopts":
            items.append((i, ["calcopts " + json.dumps({"dir": XTP_XML + "/", "calc": calc})]))
        else:
            items.append((i, ["process " + json.dumps({"dir": XTP_XML + "/", "calc": calc, "user": r["user"],
                                                      "via": "xml" if i % 5 else "api"})]))
    results, crashes = vlib.run_items(exe, items, args=(work,))
    for i, r in enumerate(recs):
        ctx.count()
        rep = dict(r)
        rep["source"] = "shipped"
        if r["kind"] == "calcopts":
            ctx.nontriv(("copt", r["calc"]))
            if i in crashes:
                ctx.violation("CalculatorOptions:crash", "driver aborted on %s: %s" % (r["calc"], crashes[i]), rep)
                continue
            v = judge_calcopts(r["copt"], results[i][0])
            if v:
                ctx.violation(v[0], "%s: %s" % (r["calc"], v[1]), rep)
            continue
        ctx.nontriv((r["calc"], r["kind"], json.dumps(r["user"])))
        if i in crashes:
            ctx.violation("ProcessUserInput:crash", "driver aborted on %s: %s" % (r["calc"], crashes[i]), rep)
            continue
        v = judge_process(r["exp"], results[i][0])
        if v:
            ctx.violation(v[0], "%s (%s): %s  [user %s]" % (r["calc"], r["kind"], v[1], r["user"]), rep)


def part_shipped(ctx, exe, work):
    dfile = os.path.join(work, "descs.ndjson")
    descs = shipped_descs(dfile)
    calcs = [d["file"] for d in descs if d["calc"]]
    mod = "MCShipQuick" if ctx.quick else "MCShipThorough"
    # thorough: one TLC run per calculator keeps the exported expectations (one full resolved tree per
    # vector) in bounded memory
    runs = [""] if ctx.quick else calcs
    total = 0
    kinds = {}
    for only in runs:
        res = vlib.tlc("options", mod, cfg=mod + ".cfg", timeout=3000,
                       env={"C11_DESCS": dfile, "C11_ONLY": only, "C11_SEED": ctx.seed})
        vlib.tlc_must_hold(res, "Options theorems / scenario generator on shipped descriptions " + only)
        ctx.add_tlc(mod + (":" + only if only else ""), res)
        if len(res.records) != res.distinct:
            raise vlib.InfraError("vector export incomplete: %d of %d" % (len(res.records), res.distinct))
        for r in res.records:
            kinds[r["kind"]] = kinds.get(r["kind"], 0) + 1
        judge_shipped(ctx, exe, work, res.records)
        total += len(res.records)
        if total == len(res.records):
            for kind in ("sample", "invalid", "list"):
                for r in res.records:
                    if r["kind"] == kind:
                        ctx.sample({"shipped_" + kind: {"calc": r["calc"], "user": r["user"],
                                                       "errs": r["exp"]["errs"], "resolved_nodes": len(r["exp"]["nodes"])}})
                        break
    for need in ("calcopts", "single", "invalid", "undecl", "free", "list", "sample", "empty",
                 "uattr", "battr", "emptyval", "biglist", "multiword"):
        if not kinds.get(need):
            raise vlib.InfraError("scenario kind %s never generated" % need)
    ctx.extra["shipped_scenarios"] = kinds
    ctx.extra["shipped_calculators"] = len(calcs)


# ------------------------------------------------------------------------------------------
# part 3: Property call histories (mode H)
# ------------------------------------------------------------------------------------------

def tree_cmp(want, got, trim=False):
    """want [[d,n,v,[[k,v]..]]..] from TLC, got [[d,n,v,{k:v},idx_ok]..] from the driver;
    trim: compare values up to surrounding blanks/tabs/newlines (the XML law speaks of trimmed values)"""
    if len(want) != len(got):
        return "shape", "tree has %d nodes, expected %d: %s vs %s" % (len(got), len(want), got, want)
    for w, g in zip(want, got):
        if (w[0], w[1]) != (g[0], g[1]):
            return "shape", "node (%s,%r) where (%s,%r) expected" % (g[0], g[1], w[0], w[1])
        if (w[2] != g[2].strip(" \t\n")) if trim else (w[2] != g[2]):
            return "value", "node %r has value %r, expected %r" % (w[1], g[2], w[2])
        if dict((k, v) for k, v in w[3]) != g[3]:
            return "attributes", "node %r has attributes %r, expected %r" % (w[1], g[3], w[3])
        if len(w) > 4 and len(g) > 5 and w[4] != g[5]:
            return "path", "node %r has path() %r, expected %r" % (w[1], g[5], w[4])
        if len(g) > 4 and not g[4]:
            return "index", "name index of node %r disagrees with its child list" % (w[1],)
    return None


def judge_history(hist, out):
    """returns None or (key, text)"""
    for j, e in enumerate(hist):
        res = first(out[j + 1], "res")
        op = e["call"]["op"]
        if res is None:
            return ("Property:%s:driver" % op, "no observation at step %d: %s" % (j, out[j + 1]))
        if bool(e["exc"]) != ("exc" in res):
            return ("Property:%s:exception" % op, "step %d %s: exception %r, expected %s" % (j, e["call"], res.get("exc"), e["exc"]))
        d = tree_cmp(e["obs"]["tree"], res["tree"])
        if d:
            return ("Property:%s:%s" % (op, d[0]), "step %d %s: %s" % (j, e["call"], d[1]))
        if not e["exc"] and e["ret"] and res.get("ret") != e["ret"]:
            return ("Property:%s:returned-node" % op, "step %d %s: returned node #%s, expected #%s" % (j, e["call"], res.get("ret"), e["ret"]))
        for k, want in e["obs"]["get"].items():
            if res["get"].get(k) != want:
                return ("Property:get-after-%s" % op, "step %d %s: get/exists(%r) -> node #%s, expected #%s (0 = not found)"
                        % (j, e["call"], k, res["get"].get(k), want))
        for f, want in e["obs"]["sel"].items():
            if res["sel"].get(f) != list(want):
                return ("Property:Select-after-%s" % op, "step %d %s: Select(%r) -> %s, expected %s" % (j, e["call"], f, res["sel"].get(f), want))
    return None


def part_proptree(ctx, exe, work):
    hists = []
    mod = "MCTreeQuick" if ctx.quick else "MCTreeThorough"
    res = vlib.tlc("proptree", mod, cfg=mod + ".cfg", timeout=3000)
    vlib.tlc_must_hold(res, "PropTree invariants (last wins, Select/get agreement, postconditions)")
    ctx.add_tlc(mod, res)
    hists += res.records
    nsim = 4 if ctx.quick else 60
    res = vlib.tlc("proptree", "MCTreeSim", cfg="MCTreeSim.cfg", timeout=3000, simulate=nsim, depth=8, workers=4,
                   seed=ctx.seed)
    vlib.tlc_must_hold(res, "PropTree simulation")
    ctx.add_tlc("MCTreeSim(simulate)", res)
    hists += res.records
    items = []
    for i, r in enumerate(hists):
        cmds = ["pt " + json.dumps({"op": "new"})]
        for e in r["h"]:
            c = dict(e["call"])
            c["keys"] = sorted(e["obs"]["get"].keys())
            c["filters"] = sorted(e["obs"]["sel"].keys())
            cmds.append("pt " + json.dumps(c))
        items.append((i, cmds))
    results, crashes = vlib.run_items(exe, items, args=(work,))
    for i, r in enumerate(hists):
        ctx.traces += 1
        ctx.nontriv(("hist", json.dumps([e["call"] for e in r["h"]], sort_keys=True)))
        if i in crashes:
            ctx.violation("Property:history-crash", "driver aborted: " + crashes[i], r)
            continue
        v = judge_history(r["h"], results[i])
        if v:
            ctx.violation(v[0], v[1], r)
    if hists:
        ctx.sample({"property_history": [e["call"] for e in hists[len(hists) // 2]["h"]]})


# ------------------------------------------------------------------------------------------
# part 4: XML law  Load(Print(t)) = Trim(t)
# ------------------------------------------------------------------------------------------

META = "&<>\"'"


def part_xml(ctx, exe, work):
    mod = "MCXmlQuick" if ctx.quick else "MCXmlThorough"
    res = vlib.tlc("proptree", mod, cfg=mod + ".cfg", timeout=3000)
    vlib.tlc_must_hold(res, "XmlLaw: Trim is a projection")
    ctx.add_tlc(mod, res)
    recs = res.records
    items = []
    for i, r in enumerate(recs):
        tree = [[n[0], n[1], n[2], dict((k, v) for k, v in n[3])] for n in r["t"]]
        items.append((i, ["roundtrip " + json.dumps({"tree": tree, "level": 1 if i % 3 else 0})]))
    results, crashes = vlib.run_items(exe, items, args=(work,))
    for i, r in enumerate(recs):
        ctx.count()
        vals = [n[2] for n in r["t"]]
        avals = [v for n in r["t"] for _, v in n[3]]
        meta_v = sorted(set(c for v in vals for c in v if c in META))
        meta_a = sorted(set(c for v in avals for c in v if c in META))
        if meta_v or meta_a or any(v != v.strip() for v in vals):
            ctx.nontriv(("xml", json.dumps(r["t"])))
        # the key names where the metacharacters sit, not which of them: one defect, one key
        where = "attribute" if meta_a else ("text" if meta_v else "plain")
        if i in crashes:
            ctx.violation("Property:xml-roundtrip:crash", "driver aborted: " + crashes[i], r)
            continue
        out = results[i][0]
        tree = first(out, "tree")
        if tree is None:
            ctx.violation("Property:xml-roundtrip:%s:unreadable" % where,
                          "printed XML %r does not load: %s" % (first(out, "xml"), first(out, "exc")), r)
            continue
        d = tree_cmp(r["exp"], tree, trim=True)
        if d:
            ctx.violation("Property:xml-roundtrip:%s:%s" % (where, d[0]),
                          "%s (printed %r)" % (d[1], first(out, "xml")), r)
            continue
        pf = path_fault(out, "Property:xml-roundtrip")
        if pf:
            ctx.violation(pf[0], pf[1], r)
        # same data a second time through print and load: still the same tree
        tree2 = first(out, "tree2")
        d = ("unreadable", "second generation does not load: %s" % first(out, "exc")) if tree2 is None \
            else tree_cmp(r["exp"], tree2, trim=True)
        if d:
            ctx.violation("Property:xml-roundtrip-twice:%s:%s" % (where, d[0]), d[1], r)
    for r in recs:
        if any("&" in n[2] for n in r["t"]):
            ctx.sample({"xml_roundtrip": r})
            break
    part_votca_property(ctx, work, recs)


def at_to_xml(nodes):
    """[[d,n,v,[[k,v]..]]..] -> XML text (python writes, properly escaped)"""
    out, stack = [], []
    for d, n, v, at in nodes:
        while len(stack) > d:
            out.append("</%s>" % stack.pop())
        out.append("<%s%s>%s" % (n, "".join(" %s=%s" % (k, quoteattr(x)) for k, x in sorted(at)), escape(v)))
        stack.append(n)
    while stack:
        out.append("</%s>" % stack.pop())
    return "".join(out) + "\n"


def et_to_flat(text):
    out = []

    def rec(el, d):
        out.append([d, el.tag, (el.text or "") + "".join((c.tail or "") for c in el), dict(el.attrib)])
        for c in el:
            rec(c, d + 1)
    rec(ET.fromstring(text), 0)
    return out


def part_votca_property(ctx, work, recs):
    """executable level: file -> votca_property (LoadFromXML, operator<<) -> stdout, read back by ElementTree"""
    bindir = vlib.ensure_build(["votca_property"])
    n = 40 if ctx.quick else 400
    step = max(1, len(recs) // n)
    for r in recs[::step]:
        ctx.traces += 1
        f = os.path.join(work, "vp.xml")
        with open(f, "w") as fh:
            fh.write(at_to_xml(r["t"]))
        rc, out, err = vlib.run_driver(bindir + "/votca_property", args=("--file", f), timeout=60)
        where = "attribute" if any(c in META for n_ in r["t"] for _, v in n_[3] for c in v) else \
            ("text" if any(c in META for n_ in r["t"] for c in n_[2]) else "plain")
        if rc != 0 or "an error occurred" in err:
            ctx.violation("votca_property:%s:failed" % where, "votca_property rc=%s on %r: %s" % (rc, at_to_xml(r["t"]), err[-300:]), r)
            continue
        try:
            back = et_to_flat(out)
        except ET.ParseError as e:
            ctx.violation("votca_property:%s:unreadable" % where, "output %r is not well-formed XML (%s)" % (out, e), r)
            continue
        d = tree_cmp(r["exp"], back, trim=True)
        if d:
            ctx.violation("votca_property:%s:%s" % (where, d[0]), "%s (output %r)" % (d[1], out), r)


# ------------------------------------------------------------------------------------------
# part 5: typed access as<T>
# ------------------------------------------------------------------------------------------

def part_literals(ctx, exe, work):
    mod = "MCLitQuick" if ctx.quick else "MCLitThorough"
    res = vlib.tlc("proptree", mod, cfg=mod + ".cfg", timeout=3000)
    vlib.tlc_must_hold(res, "Literals: classifiers consistent")
    ctx.add_tlc(mod, res)
    recs = res.records
    if len(recs) < res.distinct - 50 or not recs:      # the first-character states print nothing
        raise vlib.InfraError("vector export incomplete: %d of %d" % (len(recs), res.distinct))
    items = [(i, ["lit " + json.dumps({"s": r["s"]})]) for i, r in enumerate(recs)]
    results, crashes = vlib.run_items(exe, items, args=(work,))
    # (spec class field, spec value field or None, driver field, name)
    types = (("b", "bv", "b", "bool"), ("i", "iv", "i", "Index"), ("v", "vv", "v", "vector<Index>"),
             ("v3", None, "v3", "Vector3<Index>"), ("f", None, "f", "double"), ("fv", None, "fv", "vector<double>"),
             ("fv", None, "ev", "VectorXd"), ("d3", None, "d3", "Vector3d"))
    for i, r in enumerate(recs):
        ctx.count()
        if any(r[t[0]] == "valid" for t in types):
            ctx.nontriv(("lit", r["s"]))
        if i in crashes:
            ctx.violation("as:crash", "driver aborted on %r: %s" % (r["s"], crashes[i]), r)
            continue
        got = first(results[i][0], "lit")
        if got is None:
            ctx.violation("as:driver", "no observation for %r: %s" % (r["s"], results[i][0]), r)
            continue
        for cls, valf, drv, name in types:
            c, g = r[cls], got[drv]
            if c == "valid" and not g["ok"]:
                ctx.violation("as<%s>:rejects-documented-literal" % name, "as<%s>(%r) throws: %s" % (name, r["s"], g.get("msg")), r)
            elif c == "invalid" and g["ok"]:
                ctx.violation("as<%s>:accepts-undocumented-literal" % name, "as<%s>(%r) = %r" % (name, r["s"], g["val"]), r)
            elif c == "valid" and valf and g["val"] != r[valf]:
                ctx.violation("as<%s>:wrong-value" % name, "as<%s>(%r) = %r, expected %r" % (name, r["s"], g["val"], r[valf]), r)
        if r["f"] == "valid" and r["fr"][1] != 0 and got["f"]["ok"]:
            # exact rational from the spec's table against the double the code produced
            want = Fraction(r["fr"][0], r["fr"][1])
            if not vlib.close(float(got["f"]["val"]), float(want), 1e-15, 0):
                ctx.violation("as<double>:wrong-value", "as<double>(%r) = %s, expected %s" % (r["s"], got["f"]["val"], want), r)
        if r["v3"] == "valid" and got["v3"]["ok"] and got["v3"]["val"] != r["vv"]:
            ctx.violation("as<Vector3<Index>>:wrong-value", "as(%r) = %r, expected %r" % (r["s"], got["v3"]["val"], r["vv"]), r)
        # as<vector<string>>: never an error, the words in order
        if not got["sv"]["ok"]:
            ctx.violation("as<vector<string>>:rejects-documented-literal", "as<vector<string>>(%r) throws" % r["s"], r)
        elif r["svc"] and got["sv"]["val"] != list(r["sv"]):
            ctx.violation("as<vector<string>>:wrong-value", "as<vector<string>>(%r) = %r, expected %r" % (r["s"], got["sv"]["val"], r["sv"]), r)
        # Vector3d of integer words: exact values
        if r["v3"] == "valid" and got["d3"]["ok"] and [float(x) for x in got["d3"]["val"]] != [float(x) for x in r["vv"]]:
            ctx.violation("as<Vector3d>:wrong-value", "as<Vector3d>(%r) = %r, expected %r" % (r["s"], got["d3"]["val"], r["vv"]), r)
    guard(ctx, "literals: a valid Vector3d and a 3-word string vector occur",
          any(r["d3"] == "valid" for r in recs) and any(len(r["sv"]) == 3 for r in recs))
    for r in recs:
        if r["v"] == "valid" and len(r["vv"]) == 2:
            ctx.sample({"literal": r})
            break


def guard(ctx, what, cond):
    """vacuity guard: the quick tier must really contain the cases a layer was written for"""
    ctx.extra.setdefault("vacuity_guards", []).append(what)
    if not cond:
        raise vlib.InfraError("vacuity guard failed: " + what)


# ------------------------------------------------------------------------------------------
# part 6: one OptionsHandler used repeatedly, setAdditionalChoices (mode H)
# ------------------------------------------------------------------------------------------

def part_session(ctx, exe, work):
    mod = "MCSessQuick" if ctx.quick else "MCSessThorough"
    res = vlib.tlc("options", mod, cfg=mod + ".cfg", timeout=3000)
    vlib.tlc_must_hold(res, "OptSession: additional choices only remove choice errors")
    ctx.add_tlc(mod, res)
    hists = res.records
    if not hists:
        raise vlib.InfraError("no histories from " + mod)
    ddir = os.path.join(work, "sess")
    os.makedirs(os.path.join(ddir, "subpackages"), exist_ok=True)
    with open(os.path.join(ddir, "t.xml"), "w") as f:
        f.write(flat_to_xml(hists[0]["desc"]))
    items = []
    for i, r in enumerate(hists):
        cmds = ["hs " + json.dumps({"op": "new", "dir": ddir + "/"})]
        for e in r["h"]:
            if e["op"] == "extra":
                cmds.append("hs " + json.dumps({"op": "extra", "list": sorted(e["list"])}))
            elif e["op"] == "process":
                cmds.append("hs " + json.dumps({"op": "process", "calc": "t", "user": e["user"]}))
            else:
                cmds.append("hs " + json.dumps({"op": "calcopts", "calc": "t"}))
        items.append((i, cmds))
    results, crashes = vlib.run_items(exe, items, args=(work,))
    bypassed = after_fail = after_calc = 0
    for i, r in enumerate(hists):
        ctx.traces += 1
        ctx.nontriv(("sess", json.dumps([(e["op"], e.get("user"), sorted(e.get("list", []))) for e in r["h"]])))
        if i in crashes:
            ctx.violation("OptionsHandler:session:crash", "driver aborted: " + crashes[i], r)
            continue
        prev = None
        for j, e in enumerate(r["h"]):
            out = results[i][j + 1]
            v = None
            if e["op"] == "process":
                v = judge_process(e["exp"], out)
                ok = not e["exp"]["errs"]
                bypassed += 1 if e["bypassed"] else 0
                after_fail += 1 if (prev == "failed" and ok) else 0
                after_calc += 1 if prev == "calcopts" else 0
                prev = "ok" if ok else "failed"
                if v:
                    tag = "with-additional-choices" if e["extra"] else ("after-" + str(r["h"][j - 1]["op"]) if j else "first")
                    v = (v[0].replace("ProcessUserInput:", "OptionsHandler:session:%s:" % tag), v[1])
            elif e["op"] == "calcopts":
                v = judge_calcopts(e["copt"], out)
                prev = "calcopts"
            if v:
                ctx.violation(v[0], "step %d of %s: %s" % (j, [(x["op"], x.get("user"), x.get("list")) for x in r["h"]], v[1]), r)
                break
    guard(ctx, "session: additional choices turn a rejected input into an accepted one (%d), a call follows a failed "
               "call (%d) and a CalculatorOptions call (%d) on the same handler" % (bypassed, after_fail, after_calc),
          bypassed > 0 and after_fail > 0 and after_calc > 0)
    ctx.sample({"handler_session": [(e["op"], e.get("user"), e.get("list")) for e in hists[len(hists) // 2]["h"]]})


# ------------------------------------------------------------------------------------------
# part 7: LoadFromXML on hand-written documents (comments, CDATA, entities, line structure)
# ------------------------------------------------------------------------------------------

def part_load(ctx, exe, work):
    mod = "MCLoadQuick" if ctx.quick else "MCLoadThorough"
    res = vlib.tlc("proptree", mod, cfg=mod + ".cfg", timeout=3000)
    vlib.tlc_must_hold(res, "XmlLoad")
    ctx.add_tlc(mod, res)
    recs = res.records
    items = [(i, ["load " + json.dumps({"xml": r["xml"], "crlf": r["crlf"]})]) for i, r in enumerate(recs)]
    results, crashes = vlib.run_items(exe, items, args=(work,))
    seen = set()
    for i, r in enumerate(recs):
        ctx.count()
        # one category per document: the most specific construct it contains
        kinds = next((k for k in ("cdata", "entity", "comment", "element", "text") if k in r["kinds"]), "empty")
        seen.update(r["kinds"])
        seen.add("crlf" if r["crlf"] else "lf")
        seen.add("no-final-newline" if not r["xml"].endswith("\n") else "final-newline")
        ctx.nontriv(("load", r["xml"], r["crlf"]))
        if i in crashes:
            ctx.violation("Property:LoadFromXML:crash", "driver aborted: " + crashes[i], r)
            continue
        out = results[i][0]
        tree = first(out, "tree")
        if tree is None:
            ctx.violation("Property:LoadFromXML:%s:rejected" % kinds, "well-formed document %r rejected: %s" % (r["xml"], first(out, "exc")), r)
            continue
        d = tree_cmp(r["exp"], tree)
        if d:
            ctx.violation("Property:LoadFromXML:%s:%s" % (kinds, d[0]), "%s (document %r%s)" % (d[1], r["xml"], ", CRLF" if r["crlf"] else ""), r)
            continue
        pf = path_fault(out, "Property:LoadFromXML")
        if pf:
            ctx.violation(pf[0], pf[1], r)
    guard(ctx, "load: cdata, comment, entity, element pieces, CRLF and missing final newline all occur (%s)" % sorted(seen),
          {"cdata", "comment", "entity", "element", "text", "crlf", "no-final-newline"} <= seen)
    ctx.sample({"load": recs[len(recs) // 2]})


# ------------------------------------------------------------------------------------------
# part 8: edge of the domain - 10^5 children under one node
# ------------------------------------------------------------------------------------------

def part_bulk(ctx, exe, work):
    res = vlib.tlc("proptree", "MCBulk", cfg="MCBulk.cfg", timeout=600, workers=2)
    vlib.tlc_must_hold(res, "Bulk: closed forms partition the children")
    ctx.add_tlc("MCBulk", res)
    recs = [r for r in res.records if ctx.quick is False or r["n"] <= 100000]
    items = [(i, ["bulk " + json.dumps({"n": r["n"], "k": r["k"]})]) for i, r in enumerate(recs)]
    results, crashes = vlib.run_items(exe, items, args=(work,))
    for i, r in enumerate(recs):
        ctx.count()
        ctx.nontriv(("bulk", r["n"], r["k"]))
        size = "large" if r["n"] >= 1000 else "small"
        if i in crashes:
            ctx.violation("Property:bulk:%s:crash" % size, "driver aborted: " + crashes[i], r)
            continue
        got = first(results[i][0], "bulk")
        if got is None:
            ctx.violation("Property:bulk:%s:failed" % size, "no observation: %s" % results[i][0], r)
            continue
        want_last = [None if x < 0 else str(x) for x in r["last"]]
        want_last2 = [None if x < 0 else str(x) for x in r["last_after_del"]]
        checks = (("size", got["size"] == r["size"] and got["star"] == r["size"]),
                  ("Select-count", got["count"] == list(r["count"])),
                  ("get-last", got["last"] == want_last),
                  ("xml-roundtrip", got["rt_size"] == r["size"] and got["rt_same"]),
                  ("deleteChildren", got["after_del"] == r["after_del"] and got["c0_gone"] and got["last_after_del"] == want_last2))
        for name, ok in checks:
            if not ok:
                ctx.violation("Property:bulk:%s:%s" % (size, name), "n=%d k=%d: observed %s, expected %s" % (r["n"], r["k"], got, r), r)
                break
    guard(ctx, "bulk: a node with >= 10^5 children occurs", any(r["n"] >= 100000 for r in recs))


# ------------------------------------------------------------------------------------------
# part 9: csg_property executable on csg_defaults.xml (how csg reads its options)
# ------------------------------------------------------------------------------------------

def part_csg(ctx, exe, work):
    src = os.path.join(vlib.REPO, "csg", "share", "xml", "csg_defaults.xml.in")
    flat = xml_to_flat(src)
    dfile = os.path.join(work, "csgdef.ndjson")
    vlib.write_ndjson(dfile, [{"t": [{"d": n["d"], "n": n["n"], "v": n["v"]} for n in flat]}])
    mod = "MCCsgQuick" if ctx.quick else "MCCsgThorough"
    res = vlib.tlc("proptree", mod, cfg=mod + ".cfg", timeout=3000, env={"C11_CSGDEF": dfile})
    vlib.tlc_must_hold(res, "CsgProp")
    ctx.add_tlc(mod, res)
    bindir = vlib.ensure_build(["csg_property"])
    synth = [r for r in res.records if "synth" in r]
    recs = [r for r in res.records if "q" in r]
    if not synth or not recs:
        raise vlib.InfraError("no csg_property vectors")
    sfile = os.path.join(work, "synth.xml")
    with open(sfile, "w") as f:
        f.write(flat_to_xml([[n[0], n[1], n[2], {"hd": 0, "hc": 0, "hl": 0, "ls": 0, "un": 0}] for n in synth[0]["synth"]]))
    stats = {"filter": 0, "with-path": 0, "fail": 0, "multi": 0, "defaults": 0}
    for r in recs:
        ctx.traces += 1
        q = r["q"]
        args = ["--file", src if r["src"] == "defaults" else sfile, "--path", q["path"], "--print", q["print"]]
        if q["filter"]:
            args += ["--filter", q["filter"]]
        if q["mode"] == "short":
            args.append("--short")
        if q["mode"] == "with-path":
            args.append("--with-path")
        rc, out, err = vlib.run_driver(os.path.join(bindir, "csg_property"), args=args, timeout=60)
        ctx.nontriv(("csgp", r["src"], json.dumps(q, sort_keys=True)))
        what = "filter" if q["filter"] else ("wildcard" if "*" in q["path"] else "plain")
        stats["filter"] += 1 if q["filter"] and r["exp"]["out"] else 0
        stats["with-path"] += 1 if q["mode"] == "with-path" and r["exp"]["out"] else 0
        stats["fail"] += 1 if r["exp"]["fail"] else 0
        stats["multi"] += 1 if r["hits"] > 1 else 0
        stats["defaults"] += 1 if r["src"] == "defaults" and r["exp"]["out"] else 0
        if r["exp"]["fail"]:
            if rc == 0:
                ctx.violation("csg_property:%s:missing-field-ignored" % what, "%s: exit 0 although the filter field does not exist; output %r" % (q, out), r)
            continue
        if rc != 0:
            ctx.violation("csg_property:%s:failed" % what, "%s: rc=%s %s" % (q, rc, err[-300:]), r)
        elif out != r["exp"]["out"] and out != r["exp"]["alt"]:
            ctx.violation("csg_property:%s:%s" % (what, q["mode"]), "%s on %s: printed %r, expected %r" % (q, r["src"], out[:400], r["exp"]["out"][:400]), r)
    guard(ctx, "csg_property: filters that select, --with-path output, a missing filter field, multi-node selections and "
               "queries on csg_defaults.xml all occur %s" % stats, all(v > 0 for v in stats.values()))
    ctx.sample({"csg_property": recs[len(recs) // 3]})


# ------------------------------------------------------------------------------------------
# part 10: values with internal structure - every word of a multi-word value is checked
# ------------------------------------------------------------------------------------------

def part_words(ctx, exe, work):
    mod = "MCWordsQuick" if ctx.quick else "MCWordsThorough"
    res = vlib.tlc("options", mod, cfg=mod + ".cfg", timeout=3000)
    vlib.tlc_must_hold(res, "OptWords: bracketed choice valid iff every word is declared")
    ctx.add_tlc(mod, res)
    head = [r for r in res.records if "desc" in r]
    recs = [r for r in res.records if "words" in r]
    if not head or not recs:
        raise vlib.InfraError("no vectors from " + mod)
    ddir = os.path.join(work, "words")
    os.makedirs(os.path.join(ddir, "subpackages"), exist_ok=True)
    with open(os.path.join(ddir, "t.xml"), "w") as f:
        f.write(flat_to_xml(head[0]["desc"]))
    items = [(i, ["process " + json.dumps({"dir": ddir + "/", "calc": "t", "user": r["user"], "via": "xml" if i % 2 else "api"})])
             for i, r in enumerate(recs)]
    results, crashes = vlib.run_items(exe, items, args=(work,))
    seen = {"bad-first-valid-last": 0, "bad-middle": 0, "bad-last": 0, "all-valid-duplicate": 0, "empty": 0, "repeated-separator": 0}
    for i, r in enumerate(recs):
        ctx.count()
        ctx.nontriv(("words", r["leaf"], json.dumps(r["words"]), r["style"]))
        n, bad = len(r["words"]), list(r["badpos"])
        kind = "bracketed" if r["leaf"] in ("m", "p") else "one-of"
        pos = "none" if not bad else ("alone" if n == 1 else "first" if bad == [1] else "last" if bad == [n] else
                                      "middle" if all(1 < b < n for b in bad) else "several")
        if kind == "bracketed":
            seen["bad-first-valid-last"] += 1 if (n >= 2 and 1 in bad and n not in bad and r["exp"]["errs"]) else 0
            seen["bad-middle"] += 1 if pos == "middle" else 0
            seen["bad-last"] += 1 if pos == "last" else 0
            seen["all-valid-duplicate"] += 1 if (not bad and len(set(r["words"])) < n and not r["exp"]["errs"]) else 0
            seen["empty"] += 1 if n == 0 else 0
            seen["repeated-separator"] += 1 if (r["style"] == "commas" and n >= 2) else 0
        rep = dict(r)
        rep["kind"] = "tiny-words"
        rep["desc"] = head[0]["desc"]
        rep["pkgs"] = []
        rep["p"] = {"leaf": r["leaf"]}
        if i in crashes:
            ctx.violation("ProcessUserInput:crash", "driver aborted: " + crashes[i], rep)
            continue
        v = judge_process(r["exp"], results[i][0])
        if v:
            what = v[0].split(":", 1)[1]
            ctx.violation("ProcessUserInput:choice-words:%s:bad-%s:%s" % (kind, pos, what),
                          "%s value %r (words %s, undeclared at %s): %s" % (kind, r["user"][2][2], r["words"], bad, v[1]), rep)
    guard(ctx, "words: bracketed values with the undeclared word first and a declared word last, in the middle, last, "
               "all-declared with a duplicate, empty, and repeated separators all occur %s" % seen,
          all(x > 0 for x in seen.values()))
    for r in recs:
        if r["leaf"] == "m" and list(r["badpos"]) == [1] and len(r["words"]) == 2:
            ctx.sample({"choice_words": {"value": r["user"][2][2], "expected_errs": r["exp"]["errs"]}})
            break


def replay_one(ctx, exe, work, obj):
    """--replay FILE: re-run exactly one recorded vector / history against the current tree"""
    r = obj["replay"]
    kind = r.get("kind", "")
    if "h" in r and r["h"] and "op" in r["h"][0]:          # handler session
        ddir = os.path.join(work, "sess")
        os.makedirs(os.path.join(ddir, "subpackages"), exist_ok=True)
        with open(os.path.join(ddir, "t.xml"), "w") as f:
            f.write(flat_to_xml(r["desc"]))
        cmds = ["hs " + json.dumps({"op": "new", "dir": ddir + "/"})]
        for e in r["h"]:
            cmds.append("hs " + json.dumps({"op": "extra", "list": sorted(e["list"])} if e["op"] == "extra" else
                                           {"op": "process", "calc": "t", "user": e["user"]} if e["op"] == "process" else
                                           {"op": "calcopts", "calc": "t"}))
        results, crashes = vlib.run_items(exe, [(0, cmds)], args=(work,))
        v = ("OptionsHandler:session:crash", crashes[0]) if 0 in crashes else None
        for j, e in enumerate(r["h"]):
            if v:
                break
            out = results[0][j + 1]
            print("step", j, e["op"], out)
            v = judge_process(e["exp"], out) if e["op"] == "process" else (judge_calcopts(e["copt"], out) if e["op"] == "calcopts" else None)
    elif "xml" in r and "crlf" in r:                        # LoadFromXML document
        results, crashes = vlib.run_items(exe, [(0, ["load " + json.dumps({"xml": r["xml"], "crlf": r["crlf"]})])], args=(work,))
        out = results.get(0, [[]])[0]
        print("observed:", out)
        tree = first(out, "tree")
        d = ("rejected", str(first(out, "exc"))) if tree is None else tree_cmp(r["exp"], tree)
        v = ("Property:LoadFromXML:" + d[0], d[1]) if d else path_fault(out, "Property:LoadFromXML")
    elif "after_del" in r:                                  # bulk
        results, crashes = vlib.run_items(exe, [(0, ["bulk " + json.dumps({"n": r["n"], "k": r["k"]})])], args=(work,))
        print("observed:", results.get(0), crashes.get(0), "expected:", r)
        v = ("Property:bulk:crash", crashes[0]) if 0 in crashes else None
    elif "q" in r and "src" in r:                           # csg_property query
        print("re-run by hand: csg_property --file <csg_defaults.xml.in | synthetic> ", r["q"], "expected", r["exp"])
        v = None
    elif "h" in r:
        cmds = ["pt " + json.dumps({"op": "new"})]
        for e in r["h"]:
            c = dict(e["call"])
            c["keys"] = sorted(e["obs"]["get"].keys())
            c["filters"] = sorted(e["obs"]["sel"].keys())
            cmds.append("pt " + json.dumps(c))
        results, crashes = vlib.run_items(exe, [(0, cmds)], args=(work,))
        v = ("Property:history-crash", crashes[0]) if 0 in crashes else judge_history(r["h"], results[0])
    elif "s" in r and "b" in r:
        results, crashes = vlib.run_items(exe, [(0, ["lit " + json.dumps({"s": r["s"]})])], args=(work,))
        print(results.get(0), crashes.get(0))
        v = None
    elif "t" in r and "exp" in r:
        tree = [[n[0], n[1], n[2], dict((k, x) for k, x in n[3])] for n in r["t"]]
        results, crashes = vlib.run_items(exe, [(0, ["roundtrip " + json.dumps({"tree": tree, "level": 1})])], args=(work,))
        out = results.get(0, [[]])[0]
        tree = first(out, "tree")
        print("printed:", first(out, "xml"))
        d = ("unreadable", str(first(out, "exc"))) if tree is None else tree_cmp(r["exp"], tree, trim=True)
        v = ("Property:xml-roundtrip:" + d[0], d[1]) if d else None
    else:
        if kind.startswith("tiny"):
            ddir = os.path.join(work, "replay")
            os.makedirs(os.path.join(ddir, "subpackages"), exist_ok=True)
            with open(os.path.join(ddir, "t.xml"), "w") as f:
                f.write(flat_to_xml(r["desc"]))
            for pk in r["pkgs"]:
                with open(os.path.join(ddir, "subpackages", pk["file"]), "w") as f:
                    f.write(flat_to_xml(pk["t"]))
            ddir, calc = ddir + "/", "t"
        else:
            ddir, calc = XTP_XML + "/", r["calc"][:-4]
        if "copt" in r:
            results, crashes = vlib.run_items(exe, [(0, ["calcopts " + json.dumps({"dir": ddir, "calc": calc})])], args=(work,))
            v = ("CalculatorOptions:crash", crashes[0]) if 0 in crashes else judge_calcopts(r["copt"], results[0][0])
        else:
            results, crashes = vlib.run_items(exe, [(0, ["process " + json.dumps({"dir": ddir, "calc": calc, "user": r["user"]})])], args=(work,))
            print("observed:", results.get(0))
            v = ("ProcessUserInput:crash", crashes[0]) if 0 in crashes else judge_process(r["exp"], results[0][0])
    ctx.count()
    if v:
        ctx.violation(obj.get("key", v[0]) if v[0].split(":")[0] == obj.get("key", "").split(":")[0] else v[0], v[1], r)


def run(ctx):
    bindir = vlib.ensure_build(["drv_options"])
    exe = bindir + "/drv_options"
    work = vlib.scratch_file("c11")
    shutil.rmtree(work, ignore_errors=True)
    os.makedirs(work)
    ctx.rule = ("mode L: every (tiny description, user tree) pair of the OptTiny family and every TLC-chosen scenario on "
                "each shipped calculator file is one vector (non-trivial = user leaf, copied key or expected error); "
                "XML-law trees and literals likewise (non-trivial = metacharacter/outer blank, resp. accepted literal); "
                "mode H: every Property call history up to Depth (BFS) plus simulated ones, observed after every call")
    ctx.assumptions += [
        "shipped descriptions are read by python's ElementTree (independent of Property::LoadFromXML); the spec "
        "ASSUMEs on them: links resolvable, list sections carry OPTIONAL/REQUIRED with distinct tags, unchecked nodes childless",
        "an error 'names' an option when the tag name is the last path component / the quoted name in the exception text",
        "literal forms the documentation does not settle are admitted either way (see MANIFEST note)",
        "driver compiles optionshandler.cc/property.cc/tokenizer.cc with assertions, ASan and UBSan"]
    try:
        if getattr(ctx, "replay", None):
            replay_one(ctx, exe, work, json.load(open(ctx.replay)))
            return
        import time
        for part in (part_tiny, part_shipped, part_proptree, part_xml, part_literals, part_session, part_load,
                     part_bulk, part_csg, part_words):
            t0 = time.time()
            part(ctx, exe, work)
            vlib.log("%s: %.1fs, %d vectors + %d histories so far, %d violation key(s)"
                     % (part.__name__, time.time() - t0, ctx.evaluations, ctx.traces, len(ctx.violations)))
        ctx.exhaustive = False
    finally:
        shutil.rmtree(work, ignore_errors=True)
