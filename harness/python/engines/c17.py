"""C17 - checkpoint files return exactly what was stored.
spec/checkpoint: Checkpoint.tla (mode H history spec of CheckpointFile/Writer/Reader over abstract
paths, names and value ids), MC*.tla/.cfg (exhaustive bounded histories + simulation),
TraceCheckpoint.tla (validation of logged random runs of the real code).
Driver: harness/drivers/checkpoint.cc (owns the catalogue of concrete values, compares bit by bit)."""
import json
import os
import random
import time
import urllib.parse
from concurrent.futures import ThreadPoolExecutor

import vlib

MANIFEST = dict(
    engine="checkpoint", design_ref="DESIGN.md 5/C17",
    technique="TLA+ history spec of the checkpoint file (open levels, write, overwrite, reopen, fresh-handle read) "
              "model-checked with TLC; every TLC history is instantiated with concrete values of every supported "
              "kind/shape and replayed into CheckpointFile/CheckpointWriter/CheckpointReader/CptTable on real HDF5 "
              "files (ASan+assert driver, bit-identical comparison); random runs of the real code validated by TLC",
    text="TLC enumerates all call histories (Open READ|MODIFY|CREATE incl. reopen, Close, Write) up to the configured "
         "depth over abstract paths x names x value ids and checks on them that a fresh reader sees the last value "
         "stored under (path,name) since the last truncation, nothing for never-written names, no change through a "
         "READ handle and no disturbance of sibling slots; each history is replayed into the real classes with the "
         "abstract ids bound to concrete integers/doubles/bools/strings/vectors/Eigen matrices of all shapes/"
         "Vector3d lists/EigenSystem/table rows (all ordered overwrite pairs per kind), reading every slot from a "
         "fresh READ handle after every call and comparing shape and bytes exactly.",
    note="Trusted: TLC, HDF5 itself, the driver's canonical byte form of a value. Not covered: strings with embedded "
         "NUL, std::map writer (no reader exists), concurrent handles from several processes, file corruption/"
         "partial writes, reading a name with another kind than it was written with (unspecified by the statement).")

NCHUNK = 8
BATCH = 250
PATHMAPS = [
    {"p1": "/a", "p2": "/a/b", "p3": "/c"},            # parent / child / sibling
    {"p1": "/", "p2": "/g", "p3": "/g/h/i"},           # root, child of root, deep descendant
    {"p1": "/top/mid/leaf", "p2": "/top", "p3": "/top/mid"},
    {"p1": "/frame_0", "p2": "/frame_1", "p3": "/"},
]
NAMEMAPS = [
    {"n1": "x", "n2": "y", "n3": "z"},
    {"n1": "Data set.2", "n2": "x", "n3": "énergie"},
]


# how a kind is stored in the HDF5 file (used for the kind-change bindings and their vacuity guard)
STORAGE = {"attr": ("int", "long", "uns", "dbl", "flt", "bool", "str"),
           "dset": ("vint", "vlong", "vuns", "vdbl", "vstr", "matd", "vecd", "rowd", "matf", "matl", "v3", "m3", "blk"),
           "group": ("l3", "esys"),
           "table": ("tab", "tabc", "tabr")}
CLASS_OF = {k: c for c, ks in STORAGE.items() for k in ks}
BIG_BYTES = 65536     # HDF5's limit for compact datasets


def enc(name):
    return urllib.parse.quote(name, safe="")


# ------------------------------------------------------------------------------------------
# catalogue of concrete values (owned by the driver) and the binding of abstract ids to it
# ------------------------------------------------------------------------------------------

class Catalogue:
    def __init__(self, exe):
        rc, out, err = drive(exe, "catalog\n")
        if rc != 0:
            raise vlib.InfraError("drv_checkpoint catalog failed: " + err[-2000:])
        self.kinds = {}
        self.shape = {}
        self.nbytes = {}
        for ln in out.splitlines():
            if ln.startswith("val "):
                p = ln.split()
                self.kinds.setdefault(p[1], []).append(int(p[2]))
                self.shape[(p[1], int(p[2]))] = p[3]
                self.nbytes[(p[1], int(p[2]))] = int(p[4])
        if len(self.kinds) < 10:
            raise vlib.InfraError("catalogue too small: %s" % sorted(self.kinds))

    def shapeclass(self, kind, idx):
        """coarse shape class used in violation keys"""
        s = self.shape[(kind, idx)]
        if s == "scalar":
            return "scalar"
        d = [int(t) for t in s.split("x")]
        if kind in ("matd", "matf", "matl", "blk", "vecd", "rowd", "m3", "v3"):
            r, c = d[0], d[1]
            return ("0" if r == 0 else "N") + "x" + ("0" if c == 0 else "M")
        if kind == "str":
            return "empty" if d[0] == 0 else "nonempty"
        if kind == "esys":
            return "empty" if d[0] == 0 else "nonempty"
        return "empty" if d[0] == 0 else "nonempty"

    def bindings(self):
        """All bindings of the abstract value ids to concrete values.  Role A (ids a1,a2,a3,..) needs a
        kind with >= 3 values; every ordered pair (a1,a2) of every such kind occurs; roles B and C cycle
        through the other kinds so that the three roles always have three different kinds."""
        A = []
        for k in sorted(self.kinds):
            ix = self.kinds[k]
            if len(ix) < 3:
                continue
            for i in ix:
                for j in ix:
                    if i != j:
                        rest = [t for t in ix if t not in (i, j)]
                        # rotate the remaining ones so that a3/a4 vary too
                        r = (i * 31 + j) % len(rest)
                        A.append((k, [i, j] + rest[r:] + rest[:r]))
        B = []
        for k in sorted(self.kinds):
            ix = self.kinds[k]
            for i in ix:
                for j in ix:
                    if i != j:
                        B.append((k, [i, j] + [t for t in ix if t not in (i, j)]))
        C = [(k, [i] + [t for t in self.kinds[k] if t != i]) for k in sorted(self.kinds) for i in self.kinds[k]]
        return A, B, C


class Binding:
    """abstract value id ('a2') -> (kind, index)"""

    def __init__(self, cat, n, A, B, C, roles=None):
        self.cat = cat
        if roles is not None:           # explicit: {"a": (kind, [indices]), ...}
            self.role = roles
            return
        a = A[n % len(A)]
        jb = (n * 7 + 3) % len(B)
        while B[jb][0] == a[0]:
            jb = (jb + 1) % len(B)
        b = B[jb]
        jc = (n * 13 + 5) % len(C)
        while C[jc][0] in (a[0], b[0]):
            jc = (jc + 1) % len(C)
        c = C[jc]
        self.role = {"a": a, "b": b, "c": c}
        self.cat = cat

    def val(self, vid):
        k, ix = self.role[vid[0]]
        return k, ix[(int(vid[1:]) - 1) % len(ix)]

    def describe(self):
        return {r: "%s%s" % (k, ix[:3]) for r, (k, ix) in self.role.items()}


# ------------------------------------------------------------------------------------------
# replay of TLC histories
# ------------------------------------------------------------------------------------------

def slot_list(npaths, nnames):
    return [(i, j) for i in range(npaths) for j in range(nnames)]


class Plan:
    """the command list of one history plus what each command's result is compared with"""

    def __init__(self, hid, hist, bind, pm, nm, via, every_step, fname, probe=False):
        self.hid = hid
        self.hist = hist
        self.bind = bind
        self.pm = pm
        self.nm = nm
        self.via = via
        self.every = every_step
        self.cmds = ["file " + fname, "rm"]
        self.checks = [None, None]   # parallel to cmds
        steps = hist["h"]
        np_, nn_ = len(steps[0]["obs"]), len(steps[0]["obs"][0])
        prev = [["none"] * nn_ for _ in range(np_)]
        # HDF5 1.10 refuses H5Awrite on a read-only file only AFTER changing its cached copy of the attribute,
        # and every reader of this process shares that cache while the READ handle stays open.  The statement
        # is about the file: after a refused back-door attempt only the file bytes are compared until that
        # handle is gone; a history that ends in this state gets a final close + observation.
        cache_tainted = False
        for si, st in enumerate(steps):
            last = si == len(steps) - 1
            if st["a"] in ("open", "close"):
                cache_tainted = False
            elif st["a"] == "backdoor":
                cache_tainted = True
            if st["a"] == "open":
                self.add("open %s %s" % (st["s"], st["l"]), ("open", si))
                if probe and st.get("xr"):
                    # held for READ only: a second process must be able to open it for READ as well
                    self.add("xprobe", ("xprobe", si))
            elif st["a"] == "close":
                self.add("close " + st["s"], ("close", si))
            elif st["a"] == "backdoor":
                k, ix = bind.val(st["v"])
                self.add("fhash", ("hash0", si))
                self.add("backdoor %s %s %s %s %s %s %d" % (st["s"], st["door"], via, pm[st["p"]], enc(nm[st["n"]]), k, ix),
                         ("backdoor", si))
                self.add("fhash", ("hash1", si))
            else:
                k, ix = bind.val(st["v"])
                if st["ro"]:
                    self.add("fhash", ("hash0", si))
                self.add("write %s %s %s %s %s %d" % (st["s"], via, pm[st["p"]], enc(nm[st["n"]]), k, ix), ("write", si))
                if st["ro"]:
                    self.add("fhash", ("hash1", si))
            if cache_tainted and last:
                self.add("close " + st["s"], None)
                cache_tainted = False
            if (every_step or last) and not cache_tainted:
                if hid % 8 != 0:
                    # the reads of this observation share one fresh READ handle (1 history in 8: one handle per read)
                    self.add("fresh", None)
                for (i, j) in slot_list(np_, nn_):
                    e = st["obs"][i][j]
                    p = pm["p%d" % (i + 1)]
                    n = enc(nm["n%d" % (j + 1)])
                    changed = e != prev[i][j]
                    if e == "unknown":
                        continue
                    if e == "none":
                        # never written: reading must be an error whatever kind is asked for
                        k, _ = bind.val("abc"[(hid + i + j) % 3] + "1")
                        self.add("read %s %s %s %s - %d" % (via, p, n, k, (hid + j) % 2), ("absent", si, i, j, changed))
                    else:
                        k, ix = bind.val(e)
                        # unchanged slots are read into a default-constructed target, changed ones both ways
                        pre = (hid + si + i + j) % 2 if changed else 0
                        self.add("read %s %s %s %s %d %d" % (via, p, n, k, ix, pre), ("value", si, i, j, changed, pre))
                        if changed:
                            self.add("read %s %s %s %s %d %d" % (via, p, n, k, ix, 1 - pre),
                                     ("value", si, i, j, changed, 1 - pre))
            prev = st["obs"]

    def add(self, cmd, chk):
        self.cmds.append(cmd)
        self.checks.append(chk)


def first_line(res):
    return res[0] if res else ""


def is_exc(res):
    return first_line(res).startswith("exc")


def judge(ctx, cat, plan, out, crash):
    """Compare the driver's observations with TLC's expectation; report the first divergence only
    (afterwards the real file is off the spec's state).  Returns 'ok' | 'viol' | 'branch'."""
    steps = plan.hist["h"]
    bind = plan.bind
    rep = {"history": steps, "binding": bind.describe(), "paths": plan.pm, "names": plan.nm, "via": plan.via,
           "commands": plan.cmds}

    def written_slot(si):
        st = steps[si]
        return int(st["p"][1:]) - 1, int(st["n"][1:]) - 1

    def wclass(si):
        """class of a write step: kind, new/overwrite and shape classes - from TLC's expectations"""
        st = steps[si]
        i, j = written_slot(si)
        k, ix = bind.val(st["v"])
        before = steps[si - 1]["obs"][i][j] if si > 0 else "none"
        sc = cat.shapeclass(k, ix)
        if before == "none":
            return k, "new:%s" % sc
        ko, io = bind.val(before)
        if ko != k:
            return k, "kind-change:%s" % ko
        if cat.shape[(ko, io)] == cat.shape[(k, ix)]:
            return k, "overwrite:same-shape"
        if kind_is_sized(k):
            so, sn = cat.shape[(ko, io)], cat.shape[(k, ix)]
            return k, "overwrite:%s" % size_relation(k, so, sn)
        return k, "overwrite:other-shape"

    crash_ci = crash[0] if crash is not None else None

    for ci, chk in enumerate(plan.checks):
        if ci == crash_ci:
            # the driver died (sanitizer report, segfault) while executing this command
            if chk is not None and chk[0] == "write":
                k, cl = wclass(chk[1])
                key = "write:%s:%s:memory-error" % (k, cl)
            elif chk is not None and chk[0] in ("value", "absent"):
                kk = bind.val(steps[chk[1]]["obs"][chk[2]][chk[3]])[0] if chk[0] == "value" else "absent"
                key = "read:%s:memory-error" % kk
            else:
                key = "crash:%s" % plan.cmds[ci].split()[0]
            ctx.violation(key, "driver aborted (sanitizer/crash): " + crash[1][:700], rep)
            return "viol"
        if chk is None:
            continue
        res = out[ci]
        r0 = first_line(res)
        what = chk[0]
        si = chk[1]
        st = steps[si]
        if what == "open":
            want_ok = st["res"] == "ok"
            got_ok = r0 == "ok"
            if want_ok != got_ok and st.get("adm"):
                return "branch"         # HDF5's own rule decided (open next to another handle): both admitted
            if want_ok != got_ok:
                had = "missing" if (si == 0 or not any(s["a"] == "open" and s["l"] != "READ" for s in steps[:si])) else "existing"
                ctx.violation("open:%s:%s-file:%s" % (st["l"], had, "refused" if want_ok else "accepted"),
                              "Open(%s) on %s file: expected %s, driver said '%s'" % (st["l"], had, st["res"], r0), rep)
                return "viol"
        elif what == "close":
            if r0 != "ok":
                ctx.violation("close:error", "Close failed: " + r0, rep)
                return "viol"
        elif what == "backdoor":
            if not is_exc(res):
                ctx.violation("readonly:backdoor-%s:accepted" % st["door"],
                              "a file opened with READ was modified through %s: '%s'" % (
                                  {"loc": "CheckpointWriter(reader.getLoc())", "handle": "CheckpointWriter(getHandle().openGroup())",
                                   "raw": "raw HDF5 calls on getHandle()"}[st["door"]], r0), rep)
                return "viol"
        elif what == "xprobe":
            if not r0.startswith("ok"):
                ctx.violation("readonly:second-process-READ-open-refused",
                              "while this process holds the file with READ only, another process cannot open it with READ: '%s'" % r0, rep)
                return "viol"
        elif what == "hash0":
            plan._h0 = r0
        elif what == "hash1":
            if r0 != plan._h0:
                ctx.violation("readonly:file-changed", "file bytes changed by a write attempt through a READ handle: %s -> %s"
                              % (plan._h0, r0), rep)
                return "viol"
        elif what == "write":
            k, cl = wclass(si)
            got_ok = r0 == "ok"
            if st["ro"]:
                if got_ok or not is_exc(res):
                    oth = sorted(v for sl, v in st["hs"].items() if sl != st["s"] and v != "closed")
                    ctx.violation("readonly:getWriter-accepted:%s" % ("other-handle-" + "+".join(oth) if oth else "only-handle"),
                                  "write through a CheckpointFile opened with READ was not refused (other open handles on "
                                  "the file: %s): '%s'" % (oth or "none", r0), rep)
                    return "viol"
            elif not got_ok:
                ctx.violation("write:%s:%s:error" % (k, cl), "Write(%s,%s,%s=%s[%d] shape %s) failed: %s"
                              % (plan.pm[st["p"]], plan.nm[st["n"]], st["v"], k, bind.val(st["v"])[1],
                                 cat.shape[bind.val(st["v"])], r0), rep)
                return "viol"
        elif what == "absent":
            _, _, i, j, changed = chk
            if not is_exc(res):
                if st["a"] == "open" and changed:
                    key = "open:%s:not-truncated" % st["l"]
                else:
                    key = "read:never-written:no-error"
                ctx.violation(key, "slot (%s,%s) was never written since the last truncation but reading it gave '%s'"
                              % (plan.pm["p%d" % (i + 1)], plan.nm["n%d" % (j + 1)], r0), rep)
                return "viol"
        elif what == "value":
            _, _, i, j, changed, pre = chk
            if r0 == "match":
                continue
            e = st["obs"][i][j]
            k, ix = bind.val(e)
            if st["a"] == "write" and not st["ro"] and (i, j) == written_slot(si):
                k, cl = wclass(si)
                # does the other target variant of the same read match?
                other = None
                for cj, ch2 in enumerate(plan.checks):
                    if ch2 is not None and ch2[0] == "value" and ch2[1:5] == chk[1:5] and ch2[5] != pre:
                        other = first_line(out[cj])
                if pre == 1 and other == "match":
                    key = "read:%s:prefilled-target" % k
                elif is_exc(res):
                    key = "roundtrip:%s:%s:unreadable" % (k, cl)
                else:
                    key = "roundtrip:%s:%s:%s" % (k, cl, "stale" if cl.startswith("overwrite") else "mismatch")
            elif st["a"] == "write":
                key = "sibling:%s:disturbed-by:%s" % (k, bind.val(st["v"])[0]) if not st["ro"] else "readonly:content-changed"
            elif st["a"] == "backdoor":
                key = "readonly:content-changed"
            elif st["a"] == "open":
                key = "reopen:%s:%s:lost" % (st["l"], k)
            elif st["a"] == "close":
                key = "close:%s:lost" % k
            else:
                key = "read:%s:mismatch" % k
            if not plan.every:
                # observed only at the end of the history: the step that broke it is not known
                key = "history-end:%s:mismatch" % k
            ctx.violation(key, "after step %d (%s) slot (%s,%s) should hold %s=%s[%d] shape %s; fresh reader: %s"
                          % (si + 1, st["a"], plan.pm["p%d" % (i + 1)], plan.nm["n%d" % (j + 1)], e, k, ix,
                             cat.shape[(k, ix)], r0[:300]), rep)
            return "viol"
    return "ok"


def kind_is_sized(k):
    return k in ("vint", "vlong", "vuns", "vdbl", "vstr", "l3", "tab", "tabc", "tabr", "vecd", "str")


def size_relation(k, so, sn):
    a = int(so.split("x")[0])
    b = int(sn.split("x")[0])
    if b == 0:
        return "to-empty"
    if a == 0:
        return "from-empty"
    return "longer" if b > a else ("shorter" if b < a else "other-shape")


def drive(exe, text, timeout=3000):
    """vlib.run_driver, but patient while a concurrent build (another check holds the build lock) is
    relinking the shared votca libraries the driver loads ('file too short' / rc 127)."""
    import time
    for attempt in range(120):
        rc, out, err = vlib.run_driver(exe, text, timeout=timeout)
        if rc == 127 and "error while loading shared libraries" in err and not out:
            time.sleep(5)
            continue
        return rc, out, err
    return rc, out, err


def run_plans(exe, plans):
    """Feed the command lists of `plans` to driver processes (bounded batches).  Returns
    {hid: (outputs per executed command, None | (index of the command during which the driver died, text))};
    the driver is restarted after a crash and continues with the next history."""
    got = {}
    pos = 0
    while pos < len(plans):
        sub = plans[pos:pos + BATCH]
        lines, owner = [], []
        for k, pl in enumerate(sub):
            for ci, c in enumerate(pl.cmds):
                lines.append(c)
                owner.append((k, ci))
        rc, out, err = drive(exe, "\n".join(lines) + "\n", timeout=3000)
        if rc == -999:
            raise vlib.InfraError("driver timed out in a batch starting with: %s" % sub[0].cmds)
        per, cur = [], None
        for ln in out.splitlines():
            if ln.startswith("cmd "):
                cur = []
                per.append(cur)
            elif cur is not None:
                cur.append(ln)
        complete = rc == 0 and len(per) == len(lines)
        if not complete and not per:
            raise vlib.InfraError("driver died before the first command (rc=%s): %s" % (rc, err[-2000:]))
        bad_k, bad_ci = (len(sub), -1) if complete else owner[len(per) - 1]
        for idx in range(len(per)):
            k, ci = owner[idx]
            if k <= bad_k:
                got.setdefault(sub[k].hid, ([], None))[0].append(per[idx])
        if complete:
            pos += len(sub)
        else:
            got[sub[bad_k].hid] = (got[sub[bad_k].hid][0], (bad_ci, "rc=%s during '%s': %s" % (rc, sub[bad_k].cmds[bad_ci], err[-1500:])))
            pos += bad_k + 1
    return got


SLICE = 40000


class Repeat:
    """the list `base` repeated `times` times, without copying"""

    def __init__(self, base, times):
        self.base, self.times = base, times

    def __len__(self):
        return len(self.base) * self.times

    def __getitem__(self, n):
        return self.base[n % len(self.base)]


def replay(ctx, cat, exe, hists, tag, bind_of, every_step_of=None, probe_of=None):
    """hists: list of TLC records {h: [...]}.  bind_of(n) -> Binding.  Works through the list in slices
    (the command lists of several 100k histories do not fit in memory at once) and releases the records."""
    base = os.path.join(vlib.SCRATCH, "c17-%d-%s" % (os.getpid(), tag))
    stats = {"ok": 0, "viol": 0, "branch": 0}
    nv0 = len(ctx.violations)
    total = 0
    t0 = time.time()
    for lo in range(0, len(hists), SLICE):
        plans = []
        for n in range(lo, min(lo + SLICE, len(hists))):
            hist = hists[n]
            if not hist["h"]:
                continue
            pm = PATHMAPS[(n // 2) % len(PATHMAPS)]
            nm = NAMEMAPS[(n // 5) % len(NAMEMAPS)]
            via = "g" if (n // 3) % 2 == 0 else "r"
            every = True if every_step_of is None else every_step_of(n)
            plans.append(Plan(n, hist, bind_of(n), pm, nm, via, every, "%s-%d.h5" % (base, n % NCHUNK),
                              probe=bool(probe_of and probe_of(n))))
        chunks = [[] for _ in range(NCHUNK)]
        for pl in plans:
            chunks[pl.hid % NCHUNK].append(pl)
        with ThreadPoolExecutor(NCHUNK) as ex:
            outs = list(ex.map(lambda ch: run_plans(exe, ch), chunks))
        for chunk, got in zip(chunks, outs):
            for pl in chunk:
                ctx.traces += 1
                out, crash = got[pl.hid]
                if crash is None and len(out) != len(pl.cmds):
                    raise vlib.InfraError("driver output incomplete for history %d (%s)" % (pl.hid, tag))
                v = judge(ctx, cat, pl, out, crash)
                stats[v] += 1
                ctx.count(len(pl.cmds))
                for st in pl.hist["h"]:
                    if st["a"] == "write":
                        k, ix = pl.bind.val(st["v"])
                        ctx.nontriv((k, ix, st["res"]))
        total += len(plans)
        del plans, chunks, outs
        if isinstance(hists, list):
            for n in range(lo, min(lo + SLICE, len(hists))):
                hists[n] = None
    for i in range(NCHUNK):
        try:
            os.remove("%s-%d.h5" % (base, i))
        except OSError:
            pass
    vlib.log("%s: %d histories replayed in %.0fs (%s)" % (tag, total, time.time() - t0, stats))
    for v in ctx.violations[nv0:]:
        vlib.log("   violation key %s" % v[0])
    return stats


# ------------------------------------------------------------------------------------------
# opposite direction: random runs of the real code, validated by TLC (TraceCheckpoint.tla)
# ------------------------------------------------------------------------------------------

def random_runs(ctx, cat, exe, nexec, nops, rng):
    """Returns (header, [execution]) where an execution is a list of log records.  Inputs only are chosen
    here; every expectation is TLC's."""
    kindlist = sorted(cat.kinds)
    items, metas = [], []
    fname = os.path.join(vlib.SCRATCH, "c17-%d-trace" % os.getpid())
    for e in range(nexec):
        pm = PATHMAPS[rng.randrange(len(PATHMAPS))]
        nm = NAMEMAPS[rng.randrange(len(NAMEMAPS))]
        via = rng.choice("gr")
        slotkind = {(p, n): rng.choice(kindlist) for p in ("p1", "p2", "p3") for n in ("n1", "n2", "n3")}
        cmds = ["file %s-%d.h5" % (fname, e % NCHUNK), "rm"]
        ops = [None, None]
        for _ in range(nops):
            x = rng.random()
            p = rng.choice(("p1", "p2", "p3"))
            n = rng.choice(("n1", "n2", "n3"))
            k = slotkind[(p, n)]
            sl = rng.choice(("s1", "s1", "s2"))
            if x < 0.12:
                l = rng.choice(("READ", "READ", "MODIFY", "MODIFY", "CREATE"))
                cmds.append("open %s %s" % (sl, l))
                ops.append({"a": "open", "s": sl, "l": l})
            elif x < 0.17:
                cmds.append("close " + sl)
                ops.append({"a": "close", "s": sl})
            elif x < 0.60:
                ix = rng.choice(cat.kinds[k])
                cmds.append("write %s %s %s %s %s %d" % (sl, via, pm[p], enc(nm[n]), k, ix))
                ops.append({"a": "write", "s": sl, "p": p, "n": n, "v": "%s:%d" % (k, ix)})
            else:
                cmds.append("read %s %s %s %s ? %d" % (via, pm[p], enc(nm[n]), k, rng.randrange(2)))
                ops.append({"a": "read", "p": p, "n": n, "k": k})
        items.append((e, cmds))
        metas.append(ops)
    class Item:
        def __init__(self, hid, cmds):
            self.hid, self.cmds = hid, cmds

    chunks = [[Item(e, c) for e, c in items[k::NCHUNK]] for k in range(NCHUNK)]
    with ThreadPoolExecutor(NCHUNK) as ex:
        outs = list(ex.map(lambda ch: run_plans(exe, ch), chunks))
    results, crashes = {}, {}
    for got in outs:
        for e, (out, crash) in got.items():
            if crash is not None:
                crashes[e] = crash[1]
            else:
                results[e] = out
    for c in range(NCHUNK):
        try:
            os.remove("%s-%d.h5" % (fname, c))
        except OSError:
            pass
    execs = []
    for e, ops in enumerate(metas):
        if e in crashes:
            ctx.violation("trace:memory-error", "driver aborted during a random run: " + crashes[e][:600],
                          {"commands": items[e][1]})
            continue
        out = results[e]
        recs = [{"a": "reset"}]
        for op, res in zip(ops, out):
            if op is None:
                continue
            r0 = first_line(res)
            rec = dict(op)
            if op["a"] == "open":
                rec["res"] = "ok" if r0 == "ok" else "err"
            elif op["a"] == "write":
                if r0.startswith("exc driver: no session"):
                    continue                     # not a call of the API
                rec["res"] = "ok" if r0 == "ok" else "err"
                rec["detail"] = r0[:200]
            elif op["a"] == "read":
                if r0.startswith("is "):
                    rec["got"] = "%s:%s" % (op["k"], r0.split()[1])
                elif r0.startswith("exc"):
                    rec["got"] = "error"
                else:
                    rec["got"] = "other"
                rec["detail"] = r0[:200]
            recs.append(rec)
        execs.append(recs)
    header = {"a": "header", "kinds": {"%s:%d" % (k, i): k for k in cat.kinds for i in cat.kinds[k]}}
    return header, execs


def validate_runs(ctx, header, execs):
    """TLC accepts or rejects; a rejected execution is re-validated alone before it is reported."""
    import re
    remaining = list(execs)
    first = True
    while remaining:
        path = vlib.scratch_file("c17-trace.ndjson")
        flat = [header] + [r for ex in remaining for r in ex]
        vlib.write_ndjson(path, flat)
        res = vlib.tlc("checkpoint", "TraceCheckpoint", cfg="TraceCheckpoint.cfg", workers=1, timeout=1800,
                       env={"TRACE": path})
        if first:
            ctx.add_tlc("TraceCheckpoint(%d executions, %d records)" % (len(remaining), len(flat)), res)
            first = False
        os.remove(path)
        if res.ok:
            ctx.traces += len(remaining)
            return
        if not (res.violation or "").startswith("Deadlock"):
            raise vlib.ModelViolation("TraceCheckpoint: spec invariant violated while validating a trace", res)
        idx = [int(m) for m in re.findall(r"^/\\ i = (\d+)", res.out, re.M)]
        if not idx:
            raise vlib.InfraError("cannot locate the rejected record:\n" + res.out[-2000:])
        pos = idx[-1] - 1               # 0-based index into flat
        # which execution is that?
        acc = 1
        bad = None
        for ei, ex in enumerate(remaining):
            if acc <= pos < acc + len(ex):
                bad = ei
                break
            acc += len(ex)
        if bad is None:
            raise vlib.InfraError("rejected record %d outside the trace" % pos)
        rec = flat[pos]
        # re-run this execution alone (soundness rule: rejections are re-run once)
        path2 = vlib.scratch_file("c17-trace-one.ndjson")
        vlib.write_ndjson(path2, [header] + remaining[bad])
        res2 = vlib.tlc("checkpoint", "TraceCheckpoint", cfg="TraceCheckpoint.cfg", workers=1, timeout=600,
                        env={"TRACE": path2})
        os.remove(path2)
        if not res2.ok:
            if rec["a"] == "read":
                got = rec["got"] if rec["got"] in ("error", "other") else "wrong-value"
                key = "trace:read:%s:%s" % (rec["k"], got)
            elif rec["a"] == "write":
                key = "trace:write:%s:%s" % (rec["v"].split(":")[0], rec["res"])
            elif rec["a"] == "open":
                key = "trace:open:%s:%s" % (rec["l"], rec["res"])
            else:
                key = "trace:" + rec["a"]
            ctx.violation(key, "TLC rejects the logged run of the real code at record %s" % rec,
                          {"rejected_record": rec, "execution": remaining[bad]})
        ctx.traces += 1
        del remaining[bad]


def run(ctx):
    bindir = vlib.ensure_build(["drv_checkpoint"])
    exe = bindir + "/drv_checkpoint"
    quick = ctx.quick
    cat = Catalogue(exe)
    A, B, C = cat.bindings()
    ctx.rule = ("every call history of the TLC model up to Depth (BFS) plus simulated deeper ones is one trace; each is "
                "bound to concrete values (all ordered pairs old->new of every kind are used) and replayed step by "
                "step, every slot read from a fresh READ handle after every call; non-trivial = distinct "
                "(kind, value, outcome) written")
    ctx.assumptions += [
        "value ids are bound to the driver's catalogue: %d kinds, %d values (%s)" % (
            len(cat.kinds), sum(len(v) for v in cat.kinds.values()), " ".join(sorted(cat.kinds))),
        "comparison is done in the driver: shape vector and bytes of a canonical column-major copy must be identical "
        "(NaN payloads, -0.0, denormals compared bitwise)",
        "the fresh reader is a second CheckpointFile(READ) in the same process, possibly while the session handle is "
        "still open (HDF5 shares the file); reading a name with another kind than written is not asserted",
        "a history stops being compared after its first divergence"]
    ctx.extra["bindings"] = {"A": len(A), "B": len(B), "C": len(C)}
    rng = random.Random(ctx.seed)
    off = rng.randrange(len(A))

    def tlc(mod, what, **kw):
        res = vlib.tlc("checkpoint", mod, cfg=mod + ".cfg", timeout=2400, **kw)
        vlib.tlc_must_hold(res, what)
        ctx.add_tlc(mod + ("(simulate)" if kw.get("simulate") else ""), res)
        # TLC's workers print in a run-dependent order; the binding of a history depends on its index
        res.records.sort(key=lambda r: json.dumps(r, sort_keys=True))
        return res

    # ---- 1. every ordered pair (old,new) of every kind through every short history on one slot -----
    mod = "MCPairsQuick" if quick else "MCPairs"
    res = tlc(mod, "Checkpoint: one slot, two values of a kind")
    hs = res.records
    if len(hs) == 0:
        raise vlib.InfraError("no histories exported by " + mod)
    # the binding only matters for histories that store something; the others are replayed once
    nostore = [h for h in hs if not any(st["a"] == "write" and st["res"] == "ok" for st in h["h"])]
    hs = [h for h in hs if any(st["a"] == "write" and st["res"] == "ok" for st in h["h"])]
    replay(ctx, cat, exe, nostore, "pairs0", lambda n: Binding(cat, n + off, A, B, C))
    big = Repeat(hs, len(A))
    replay(ctx, cat, exe, big, "pairs", lambda n: Binding(cat, n // len(hs), A, B, C),
           every_step_of=lambda n: True)
    ctx.sample({"pairs_history": hs[len(hs) // 2], "bound_to_each_of": "%d ordered value pairs" % len(A)})

    # ---- 2. all histories over 2 paths x 2 names x 6 ids x 3 levels ------------------------------
    for mod, what in ([("MC2Quick", "two handles at once, depth 4"), ("MCQuickS", "depth 4, 5 ids")] if quick else
                      [("MC2Thorough", "two handles at once, depth 5"), ("MCQuickA", "depth 4"),
                       ("MCThoroughA", "depth 5"), ("MCQuickB", "depth 5, fewer ids")]):
        res = tlc(mod, "Checkpoint histories " + what)
        if res.records:
            ctx.sample({"history": res.records[len(res.records) // 3]})
        # depth 5 over the full constants (618k histories): every 4-call prefix is an MCQuickA history that is
        # observed after every call; here a quarter is observed after every call, the rest after the last one
        replay(ctx, cat, exe, res.records, mod, lambda n: Binding(cat, n + off, A, B, C),
               every_step_of=(lambda n: n % 4 == 0) if mod == "MCThoroughA" else None)

    # ---- 2b. a file opened for READ is never modified: every door of a READ handle, one handle only ----
    mod = "MCDoorsQuick" if quick else "MCDoors"
    res = tlc(mod, "Checkpoint: back doors of a READ handle")
    if not any(st["a"] == "backdoor" for r in res.records for st in r["h"]):
        raise vlib.InfraError(mod + ": no back-door attempt in the histories")
    doors = Repeat(res.records, 4 if quick else 3)
    replay(ctx, cat, exe, doors, "doors", lambda n: Binding(cat, n * 29 + off, A, B, C),
           probe_of=lambda n: n % 3 == 0)
    ctx.sample({"doors_history": res.records[len(res.records) // 2]})

    # ---- 3. rewriting a name with another kind: must replace (strict, see Checkpoint.tla) -------
    # roles a,b,c are bound to kinds of chosen storage classes so that every ordered pair of
    # classes (attribute, dataset, group, table - also within one class) occurs; plus bindings
    # "compact table, then values of >= 64 KiB" (openTable's compact option must not leak)
    mod = "MCCrossQuick" if quick else "MCCross"
    res = tlc(mod, "Checkpoint histories with kind changes")
    triples = [("attr", "dset", "group"), ("attr", "dset", "table"), ("attr", "group", "table"),
               ("dset", "group", "table"), ("attr", "attr", "dset"), ("dset", "dset", "group"),
               ("group", "group", "attr"), ("table", "table", "dset")]
    big = {k: [i for i in ix if cat.nbytes[(k, i)] >= BIG_BYTES] for k, ix in cat.kinds.items()}
    bigkinds = sorted(k for k in big if big[k])
    if len(bigkinds) < 3 or "tabc" not in cat.kinds:
        raise vlib.InfraError("catalogue lacks large values / compact tables: %s" % bigkinds)
    rounds = 1 if quick else 2
    rolesets = []
    for r in range(rounds):
        for t in triples:
            used, roles = set(), {}
            for role, cl in zip("abc", t):
                ks = [k for k in STORAGE[cl] if k in cat.kinds and k not in used]
                k = ks[(r * 5 + off + len(used) * 3) % len(ks)]
                used.add(k)
                ix = cat.kinds[k]
                rot = (r * 3 + off) % len(ix)
                roles[role] = (k, ix[rot:] + ix[:rot])
            rolesets.append(roles)
        # compact table first, large values afterwards (in the same driver process)
        for j in range(min(len(bigkinds), 2 if quick else 9)):
            kb, kc = bigkinds[(j + r) % len(bigkinds)], bigkinds[(j + r + 1) % len(bigkinds)]
            tix = cat.kinds["tabc"]
            rolesets.append({"a": ("tabc", tix[(j + r) % len(tix):] + tix[:(j + r) % len(tix)]),
                             "b": (kb, big[kb] + [i for i in cat.kinds[kb] if i not in big[kb]]),
                             "c": (kc, big[kc] + [i for i in cat.kinds[kc] if i not in big[kc]])})
        # a table and a matrix/vector with the SAME number of rows under one name (neither may be mistaken
        # for the other when the name is rewritten)
        def lead(k, i):
            return int(cat.shape[(k, i)].split("x")[0])
        for tk in ("tab", "tabc"):
            ds = [k for k in ("matd", "vdbl", "vecd", "vlong", "matl", "vstr", "blk") if k in cat.kinds]
            kb, kc = ds[(r * 2) % len(ds)], ds[(r * 2 + 1) % len(ds)]
            for ti in cat.kinds[tk]:
                nb = [i for i in cat.kinds[kb] if lead(kb, i) == lead(tk, ti) > 0]
                nc = [i for i in cat.kinds[kc] if lead(kc, i) == lead(tk, ti) > 0]
                if nb and nc:
                    rolesets.append({"a": (tk, [ti]), "b": (kb, nb), "c": (kc, nc)})
                    break
            else:
                raise vlib.InfraError("no table/dataset values with equal row count (%s,%s,%s)" % (tk, kb, kc))
    nrec = max(1, len(res.records))
    seen_pairs = set()
    for roles in rolesets:
        for x in "abc":
            for y in "abc":
                if x != y:
                    seen_pairs.add((CLASS_OF[roles[x][0]], CLASS_OF[roles[y][0]]))
    ctx.extra["kind_change_bindings"] = len(rolesets)
    replay(ctx, cat, exe, Repeat(res.records, len(rolesets)), "cross",
           lambda n: Binding(cat, n, A, B, C, roles=rolesets[n // nrec]))
    # vacuity: TLC's histories contain every order of a, b, c on one name (checked here on the records),
    # so every ordered pair of the roles' storage classes was rewritten
    orders = set()
    for rec in res.records:
        last = {}
        for st in rec["h"]:
            if st["a"] == "write" and st["res"] == "ok":
                key = (st["p"], st["n"])
                if st["kc"]:
                    orders.add((last[key][0], st["v"][0]))
                last[key] = st["v"]
    missing_orders = {(x, y) for x in "abc" for y in "abc" if x != y} - orders
    want_pairs = {(x, y) for x in STORAGE for y in STORAGE}
    if missing_orders or want_pairs - seen_pairs:
        raise vlib.InfraError("kind-change coverage is vacuous: role orders missing %s, storage class pairs missing %s"
                              % (sorted(missing_orders), sorted(want_pairs - seen_pairs)))
    ctx.extra["storage_class_pairs_rewritten"] = len(seen_pairs)

    # ---- 4. deeper random histories ------------------------------------------------------------
    nsim = 15 if quick else 120
    res = tlc("MCSim", "Checkpoint simulation", simulate=nsim, depth=12, workers=4, seed=ctx.seed)
    # (half of them observed only at the end: intermediate fresh readers must not be what keeps the file right)
    if res.records:
        ctx.sample({"simulated_history": res.records[-1]})
    replay(ctx, cat, exe, res.records, "sim", lambda n: Binding(cat, n * 11 + off, A, B, C),
           every_step_of=lambda n: n % 2 == 0)

    # ---- 5. random runs of the real code validated by TLC ---------------------------------------
    header, execs = random_runs(ctx, cat, exe, 120 if quick else 1500, 40, rng)
    if execs:
        ctx.sample({"validated_run_prefix": execs[0][:8]})
    validate_runs(ctx, header, execs)
    ctx.exhaustive = False
