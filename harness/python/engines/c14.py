"""C14 - KMC event selection is rate-proportional; Marcus rates obey detailed balance.
spec/huffman: Huffman.tla (state machine transcribing huffmanTree::makeTree with every heap tie
order, exact measure of the selection sets), TraceHuffman.tla (trace validation of large lists).
spec/marcus: Marcus.tla (log-lattice, detailed balance / positivity / linearity in J^2),
Wait.tla (waiting-time law on the dyadic lattice).
Binding: harness/drivers/huffman.cc compiles gnode.cc, rate_engine.cc, qmpair.cc, segment.cc,
atom.cc and kmccalculator.cc into the driver."""
import math
import random
import vlib

MANIFEST = dict(
    engine="huffman", design_ref="DESIGN.md 5/C14, 7.4",
    technique="TLA+ transcription of huffmanTree::makeTree/findHoppingDestination (every heap tie order) "
              "model-checked with TLC against the exact measure rate_i/sum; TLC-exported vectors replayed into "
              "GNode::AddEvent/InitEscapeRate/MakeHuffTree/findHoppingDestination at every threshold +-eps and "
              "cell midpoint; random 100-event lists trace-validated by TLC; log-lattice Marcus spec replayed into "
              "Rate_Engine::Rate on Segment/QMPair objects; KMCCalculator::Promotetime with a scripted uniform",
    text="TLC explores the tree construction for every rate vector of the configured lattice and every order in "
         "which a heap may return equal keys, and checks that the selection sets have measure rate_i/sum exactly "
         "(evaluation at all thresholds and all cell midpoints, no sampling), that every p in [0,1] selects an "
         "event and that the escape rate is the sum. Every vector is replayed into the real GNode/huffmanTree and "
         "the measure per event compared with the integer TLC expects; the real tree's thresholds must sit on "
         "model thresholds. Marcus: TLC proves detailed balance, positivity and J^2-linearity of the transcribed "
         "rate expression on the integer log-lattice and each lattice point is evaluated by the real Rate_Engine.",
    note="Histories: every call sequence up to the configured depth on one GNode with hop and decay events (BFS) plus "
         "simulated longer ones; the property is checked after every MakeHuffTree. Trusted: TLC, the driver's -fno-access-control read of huffmanTree::htree (used to show that the real "
         "thresholds are the model's, so that probing is exact), exchange symmetry of equal-rate events in the "
         "thorough model (checked against the unreduced model in the quick configuration). Detailed balance is "
         "asserted in the anchor/physics sense ln(k12/k21) = (E1-E2+qF.R)/kT (DESIGN 7.4). Not covered: "
         "AddEventfromQmPair/LoadGraph wiring of rates into nodes, decay events, non-Marcus rate types.")

LN2 = math.log(2.0)


def _line(lines, tag):
    for ln in lines:
        if ln.startswith(tag + " ") or ln == tag:
            return ln.split()[1:]
    return None


def _exc(cmd_results):
    for res in cmd_results:
        for ln in res:
            if ln.startswith("exc") or ln.startswith("err"):
                return ln
    return None


def _findexc(cmd_results):
    for res in cmd_results:
        for ln in res:
            if ln.startswith("findexc"):
                return " [findHoppingDestination threw: %s]" % ln[8:]
    return ""


def _limbs(x):
    return [x // 10 ** 9, x % 10 ** 9]


def _shape(rates):
    n = len(rates)
    if n == 1:
        return "single-event"
    ties = len(set(rates)) < n
    return "%s:%s" % ("odd" if n % 2 else "even", "ties" if ties else "distinct")


# ------------------------------------------------------------------------------------------
def _huffman_lattice(ctx, exe):
    quick = ctx.quick
    # design level: every tie order (quick lattice, unreduced) ...
    full = vlib.tlc("huffman", "MCHuffQuick", cfg="MCHuffQuick.cfg", workers=4, timeout=1200)
    vlib.tlc_must_hold(full, "Huffman: measure = rate/sum, totality, escape = sum (all tie orders, len<=4)")
    ctx.add_tlc("MCHuffQuick(all tie orders)", full)
    # ... and the symmetry-reduced exploration must produce exactly the same results
    sym = vlib.tlc("huffman", "MCHuffQuick", cfg="MCHuffQuickSym.cfg", workers=4, timeout=1200)
    vlib.tlc_must_hold(sym, "Huffman (event-symmetry reduced, len<=4)")
    ctx.add_tlc("MCHuffQuickSym(event symmetry)", sym)
    key = lambda r: (tuple(r["rates"]), tuple(r["thr"]))
    if sorted(map(key, full.records)) != sorted(map(key, sym.records)):
        raise vlib.InfraError("symmetry-reduced Huffman model differs from the full tie exploration")
    recs = full.records
    if not quick:
        res = vlib.tlc("huffman", "MCHuffThorough", cfg="MCHuffThorough.cfg", workers=6, timeout=3000)
        vlib.tlc_must_hold(res, "Huffman: measure = rate/sum, totality, escape = sum (len<=6)")
        ctx.add_tlc("MCHuffThorough", res)
        recs = res.records
    if not recs:
        raise vlib.InfraError("no Huffman vectors exported")

    _replay_lattice(ctx, exe, recs, "Huffman", "huffman_vectors")
    # events of rate 0 (pairs without electronic coupling get Marcus rate 0): length rate/sum = 0
    zero = vlib.tlc("huffman", "MCHuffZero", cfg="MCHuffZero.cfg", workers=4, timeout=1200)
    vlib.tlc_must_hold(zero, "Huffman with zero-rate events")
    ctx.add_tlc("MCHuffZero", zero)
    if not any(0 in r["rates"] for r in zero.records):
        raise vlib.InfraError("vacuous: no zero-rate vector exported")
    _replay_lattice(ctx, exe, zero.records, "Huffman:zero-rate", "huffman_zero_rate_vectors")


def _replay_lattice(ctx, exe, recs, K, count_key):
    # group the admissible trees (tie orders) of each rate vector
    by_rates = {}
    for r in recs:
        g = by_rates.setdefault(tuple(r["rates"]), {"exp": r["exp"], "sum": r["sum"], "esc": r["esc"], "thr": []})
        g["thr"].append(r["thr"])
    vecs = sorted(by_rates.items())
    items, meta = [], []
    for i, (rates, g) in enumerate(vecs):
        n, S = len(rates), g["sum"]
        eps = 1e-12 * n
        pts = sorted({t for thr in g["thr"] for t in thr if 0 <= t <= S} | {0, S})
        probes, plan = [], []       # plan: ("pt", a, [idx...]) / ("cell", a, b, idx_lo, idx_mid, idx_hi)
        for a in pts:
            idx = [len(probes)]
            probes.append(a / S)
            if a > 0:
                idx.append(len(probes)); probes.append(a / S - eps)
            if a < S:
                idx.append(len(probes)); probes.append(a / S + eps)
            plan.append(("pt", a, idx))
        for a, b in zip(pts, pts[1:]):
            k = len(probes)
            probes += [a / S + eps, (a + b) / (2.0 * S), b / S - eps]
            plan.append(("cell", a, b, k, k + 1, k + 2))
        cmds = ["huff %d %s" % (n, " ".join(repr(float(x)) for x in rates)),
                "probe %d %s" % (len(probes), " ".join(repr(p) for p in probes)),
                "cells"]
        items.append((i, cmds))
        meta.append((plan, pts, eps))
    results, crashes = vlib.run_items(exe, items)
    drift = 0
    for i, (rates, g) in enumerate(vecs):
        ctx.traces += 1
        n, S = len(rates), g["sum"]
        shape = _shape(rates)
        if len(set(rates)) < n or n % 2 or max(rates) > 1000 * min(rates):
            ctx.nontriv(("huff", rates))
        rep = {"rates": list(rates), "sum": S, "expected_measure": g["exp"], "model_thresholds": g["thr"]}
        if i in crashes:
            ctx.violation(K + ":crash:" + shape, "driver died on rates %s: %s" % (list(rates), crashes[i]), rep)
            continue
        out = results[i]
        ex = _exc(out)
        if ex:
            ctx.violation(K + ":exception:" + shape, "%s for rates %s" % (ex, list(rates)), rep)
            continue
        plan, pts, eps = meta[i]
        esc = float(_line(out[0], "esc")[0])
        if esc != float(g["esc"]):
            ctx.violation(K + ":escape-rate", "escape rate %r, sum of rates %d, rates %s" % (esc, g["esc"], list(rates)), rep)
        thr = [float(t) for t in _line(out[0], "thr")]
        sel = [int(t) for t in _line(out[1], "sel")]
        rep["real_thresholds"] = thr
        if any(not (0 <= s < n) for s in sel):
            ctx.violation(K + ":total:" + shape, "a probe in [0,1] selected no event of the list: %s, rates %s%s"
                          % (sel, list(rates), _findexc(out)), rep)
            continue
        # the real thresholds must be model thresholds (then probing at +-eps/midpoints is exact)
        off = [t for t in thr if min(abs(t - a / S) for a in pts) > eps]
        if off:
            ctx.violation(K + ":threshold-off-lattice:" + shape,
                          "tree thresholds %s are not among the thresholds of any admissible tree %s/%d (rates %s)"
                          % (off, pts, S, list(rates)), rep)
        meas = [0] * n
        bad_cell = None
        for p in plan:
            if p[0] == "cell":
                _, a, b, k0, k1, k2 = p
                if not (sel[k0] == sel[k1] == sel[k2]):
                    bad_cell = (a, b, sel[k0], sel[k1], sel[k2])
                meas[sel[k1]] += b - a
        if bad_cell:
            ctx.violation(K + ":cell-not-constant:" + shape,
                          "selection changes inside the cell (%d/%d, %d/%d): events %s; rates %s"
                          % (bad_cell[0], S, bad_cell[1], S, bad_cell[2:], list(rates)), rep)
        elif meas != g["exp"]:
            ctx.violation(K + ":measure:" + shape,
                          "selection measure numerators %s over %d, expected %s (rates %s)" % (meas, S, g["exp"], list(rates)), rep)
        # the partition by the tree's own thresholds must give the same measure
        cl = _line(out[2], "cells")
        ncell, total, inrange = int(cl[0]), int(cl[2]), int(cl[4])
        own = [0] * n
        ok = total == 1
        for k in range(ncell):
            ev, a, b = int(cl[5 + 3 * k]), int(cl[6 + 3 * k]), int(cl[7 + 3 * k])
            if not (0 <= ev < n):
                ok = False
            else:
                own[ev] += b - a
        if not ok:
            ctx.violation(K + ":total:" + shape, "partition by the tree's thresholds has a cell without event: %s%s" % (cl, _findexc(out)), rep)
        elif own != g["exp"]:
            ctx.violation(K + ":measure:" + shape,
                          "measure by the tree's own thresholds %s over %d, expected %s (rates %s)" % (own, S, g["exp"], list(rates)), rep)
        if not inrange:
            ctx.violation(K + ":threshold-outside-unit-interval:" + shape, "thresholds %s, rates %s" % (thr, list(rates)), rep)
        # transcription drift (DESIGN 7.8): warning only
        real_num = sorted(int(round(t * S)) for t in thr)
        if real_num not in [sorted(t) for t in g["thr"]]:
            drift += 1
            ctx.extra.setdefault("warnings", [])
            if len(ctx.extra["warnings"]) < 5:
                ctx.extra["warnings"].append("threshold multiset %s of the real tree for rates %s is not one of the "
                                             "model's trees %s: update the AlgoTree transcription" % (real_num, list(rates), g["thr"]))
    ctx.extra[count_key] = len(vecs)
    ctx.extra["huffman_transcription_drift"] = ctx.extra.get("huffman_transcription_drift", 0) + drift
    ctx.sample({"huffman_vector": {"rates": list(vecs[len(vecs) // 2][0]), "trees": vecs[len(vecs) // 2][1]["thr"]}})


# ------------------------------------------------------------------------------------------
def _huffman_history(ctx, exe):
    """Mode H: call histories AddEvent / AddDecayEvent / InitEscapeRate / MakeHuffTree on ONE GNode."""
    import json
    cfg = "MCHuffHistQuick.cfg" if ctx.quick else "MCHuffHistThorough.cfg"
    res = vlib.tlc("huffman", "MCHuffHist", cfg=cfg, workers=4, timeout=1500)
    vlib.tlc_must_hold(res, "HuffHist: measure = rate/sum after every MakeHuffTree of every history")
    ctx.add_tlc(cfg[:-4], res)
    hists = [r["h"] for r in res.records]
    if not ctx.quick:
        sim = vlib.tlc("huffman", "MCHuffHist", cfg="MCHuffHistSim.cfg", workers=4, timeout=1500,
                       simulate=1500, depth=14, seed=ctx.seed)
        vlib.tlc_must_hold(sim, "HuffHist simulation")
        ctx.add_tlc("MCHuffHistSim(simulate)", sim)
        seen = set()
        for r in sim.records:
            k = json.dumps(r["h"], sort_keys=True)
            if k not in seen:
                seen.add(k)
                hists.append(r["h"])
    if not hists:
        raise vlib.InfraError("no Huffman histories exported")
    items, plans = [], []
    for i, h in enumerate(hists):
        cmds, plan = ["new"], []
        for st in h:
            if st["a"] in ("hop", "decay"):
                cmds.append("%s %r" % (st["a"], float(st["r"])))
            elif st["a"] == "sit":
                cmds.append("sit")
            elif st["a"] == "init":
                plan.append(("init", len(cmds), st))
                cmds.append("init")
            else:
                S, n = st["sum"], len(st["rates"])
                eps = 1e-12 * n
                probes = []
                for k in range(S + 1):
                    probes.append(k / S)
                    if k > 0:
                        probes.append(k / S - eps)
                    if k < S:
                        probes.append(k / S + eps)
                cell0 = len(probes)
                for k in range(S):
                    probes += [k / S + eps, (2 * k + 1) / (2.0 * S), (k + 1) / S - eps]
                plan.append(("make", len(cmds), st, cell0, eps))
                cmds.append("make")
                cmds.append("probe %d %s" % (len(probes), " ".join(repr(p) for p in probes)))
        items.append((i, cmds))
        plans.append(plan)
    results, crashes = vlib.run_items(exe, items)
    n_sat = [0]
    for i, h in enumerate(hists):
        ctx.traces += 1
        rep = {"history": h}
        if i in crashes:
            ctx.violation("Huffman:history:crash", "driver died: " + crashes[i], rep)
            continue
        out = results[i]
        ex = _exc(out)
        if ex:
            ctx.violation("Huffman:history:exception", "%s in history %s" % (ex, [(s["a"], s.get("r")) for s in h]), rep)
            continue
        for p in plans[i]:
            st = p[2]
            if p[0] == "init":
                kinds = [s["a"] for s in h[:h.index(st)] if s["a"] in ("hop", "decay")]
                kc = "decay" if "decay" in kinds else "hops"
                el = _line(out[p[1]], "esc")
                esc = float(el[0])
                if st.get("car", -1) >= 0:
                    n_sat[0] += 1
                    if float(el[2]) != float(st["car"]):
                        ctx.violation("Huffman:history:carrier-escape-rate:stale",
                                      "a carrier sitting on the node reports escape rate %s after InitEscapeRate gave %r "
                                      "(events %s)" % (el[2], esc, kinds), rep)
                if esc != float(st["esc"]):
                    ctx.violation("Huffman:history:escape-rate:" + kc,
                                  "InitEscapeRate gave %r, sum of all event rates is %d (events %s)" % (esc, st["esc"], kinds), rep)
                continue
            _, ci, st, cell0, eps = p
            S, n = st["sum"], len(st["rates"])
            kc = "decay" if "decay" in st["kinds"] else "hops"
            bc = "first-build" if st["nb"] == 1 else "rebuild"
            if st["nb"] > 1 or kc == "decay":
                ctx.nontriv(("hist", tuple(st["rates"]), tuple(st["kinds"]), st["nb"]))
            tag = "%s:%s" % (bc, kc)
            thr = [float(t) for t in _line(out[ci], "thr")]
            sel = [int(t) for t in _line(out[ci + 1], "sel")]
            what = "build %d of rates %s kinds %s" % (st["nb"], st["rates"], st["kinds"])
            if any(not (0 <= x < n) for x in sel):
                ctx.violation("Huffman:history:total:" + tag, "a probe in [0,1] selected no current event (%s)%s" % (what, _findexc(out)), rep)
                continue
            off = [t for t in thr if abs(t * S - round(t * S)) > eps * S or not (-eps <= t <= 1 + eps)]
            if off:
                ctx.violation("Huffman:history:threshold-off-lattice:" + tag,
                              "tree thresholds %s are not multiples of 1/%d (%s)" % (off, S, what), rep)
            sv = _line(out[ci], "sov")
            esc_now = float(sv[2])
            if esc_now != float(st["esc"]):
                ctx.violation("Huffman:history:length-vs-escape-rate:" + tag,
                              "the tree selects event i on a length rate_i/%d but the node's escape rate is %r (%s)"
                              % (S, esc_now, what), rep)
            meas, bad = [0] * n, None
            for k in range(S):
                a, b, c = sel[cell0 + 3 * k: cell0 + 3 * k + 3]
                if not (a == b == c):
                    bad = (k, a, b, c)
                meas[b] += 1
            if bad:
                ctx.violation("Huffman:history:cell-not-constant:" + tag,
                              "selection changes inside the cell (%d/%d,%d/%d): %s (%s)" % (bad[0], S, bad[0] + 1, S, bad[1:], what), rep)
            elif meas != st["exp"]:
                ctx.violation("Huffman:history:measure:" + tag,
                              "selection measure numerators %s over %d, expected %s (%s)" % (meas, S, st["exp"], what), rep)
    ctx.extra["huffman_histories"] = len(hists)
    ctx.extra["huffman_histories_with_carrier_on_modified_node"] = n_sat[0]
    if n_sat[0] == 0:
        raise vlib.InfraError("vacuous: no history re-initialises a node that carries a carrier")
    ctx.sample({"huffman_history": hists[len(hists) // 2]})


# ------------------------------------------------------------------------------------------
def _huffman_wide(ctx, exe):
    rnd = random.Random(ctx.seed * 7919 + 14)
    nvec = 300 if ctx.quick else 4000
    vecs = []
    for k in range(nvec):
        style = k % 5
        n = rnd.randint(1, 100) if k % 7 else rnd.choice([1, 2, 3, 99, 100])
        if style == 0:      # log-uniform over 12 orders of magnitude
            rates = [rnd.randint(1, 9999) * 10 ** rnd.randint(0, 9) for _ in range(n)]
        elif style == 1:    # extremes guaranteed
            rates = [rnd.choice([1, 10 ** 12, rnd.randint(1, 999) * 10 ** rnd.randint(0, 10)]) for _ in range(n)]
            rates[rnd.randrange(n)] = 1
            rates[rnd.randrange(n)] = 10 ** 12
        elif style == 2:    # many ties
            pool = [rnd.randint(1, 9999) * 10 ** rnd.randint(0, 9) for _ in range(rnd.randint(1, 4))]
            rates = [rnd.choice(pool) for _ in range(n)]
        elif style == 3:    # geometric
            base = rnd.choice([2, 3, 10])
            rates = [base ** (j % {10: 13, 3: 25, 2: 36}[base]) for j in range(n)]
            rnd.shuffle(rates)
        else:               # one dominant event
            rates = [rnd.randint(1, 1000) for _ in range(n)]
            rates[rnd.randrange(n)] = 10 ** 13
        assert sum(rates) < 2 ** 53 and min(rates) >= 1
        vecs.append(rates)
    items = [(i, ["huff %d %s" % (len(r), " ".join(repr(float(x)) for x in r)), "cells", "probe 2 0.0 1.0"])
             for i, r in enumerate(vecs)]
    results, crashes = vlib.run_items(exe, items)
    trace, ids = [], []
    for i, rates in enumerate(vecs):
        ctx.traces += 1
        ctx.nontriv(("wide", i))
        shape = _shape(rates)
        rep = {"rates": rates}
        if i in crashes:
            ctx.violation("Huffman:wide:crash:" + shape, "driver died: " + crashes[i], rep)
            continue
        out = results[i]
        ex = _exc(out)
        if ex:
            ctx.violation("Huffman:wide:exception:" + shape, "%s for %d rates" % (ex, len(rates)), rep)
            continue
        esc = float(_line(out[0], "esc")[0])
        sel01 = [int(t) for t in _line(out[2], "sel")]
        cl = _line(out[1], "cells")
        ncell, total, inrange = int(cl[0]), int(cl[2]), int(cl[4])
        if esc != int(esc) or esc < 0 or esc >= 2 ** 62:
            ctx.violation("Huffman:wide:escape-rate", "escape rate %r is not the integer sum of integer rates" % esc, rep)
            continue
        if any(not (0 <= s < len(rates)) for s in sel01):
            total = 0
        cells = []
        for k in range(ncell):
            ev, a, b = int(cl[5 + 3 * k]), int(cl[6 + 3 * k]), int(cl[7 + 3 * k])
            if a < 0 or b < 0:
                total = 0
                a, b = max(a, 0), max(b, 0)
            cells.append([ev + 1, _limbs(a), _limbs(b)])
        trace.append({"id": i, "rates": [_limbs(x) for x in rates], "esc": _limbs(int(esc)), "cells": cells,
                      "total": total, "inrange": inrange})
        ids.append(i)
    path = vlib.scratch_file("c14-wide.ndjson")
    verdicts = {}
    chunk = 500
    for lo in range(0, len(trace), chunk):
        vlib.write_ndjson(path, trace[lo:lo + chunk])
        res = vlib.tlc("huffman", "TraceHuffman", cfg="TraceHuffman.cfg", workers=1, timeout=1500, env={"TRACE": path})
        vlib.tlc_must_hold(res, "TraceHuffman evaluation")
        ctx.add_tlc("TraceHuffman[%d..%d]" % (lo, lo + len(trace[lo:lo + chunk])), res)
        for v in res.records:
            verdicts[v["id"]] = v
    for t in trace:
        i = t["id"]
        rates = vecs[i]
        shape = _shape(rates)
        v = verdicts.get(i)
        rep = {"rates": rates, "trace_record": t, "verdict": v}
        if v is None:
            raise vlib.InfraError("TLC returned no verdict for trace record %d" % i)
        if not v["esc"]:
            ctx.violation("Huffman:wide:escape-rate", "escape rate differs from the sum of the rates (n=%d)" % len(rates), rep)
        if not v["total"]:
            ctx.violation("Huffman:wide:total:" + shape, "some p in [0,1] selects no event (n=%d)%s" % (len(rates), _findexc(results[i])), rep)
        if not v["tile"]:
            ctx.violation("Huffman:wide:tiling:" + shape, "cells do not tile [0,1] (n=%d)" % len(rates), rep)
        if not v["inrange"]:
            ctx.violation("Huffman:wide:threshold-outside-unit-interval:" + shape, "n=%d" % len(rates), rep)
        if v["bad"]:
            ctx.violation("Huffman:wide:measure:" + shape,
                          "events %s (1-based) of a %d-event list are selected with a measure different from rate/sum "
                          "by more than 1e-14*n" % (v["bad"][:8], len(rates)), rep)
    ctx.extra["huffman_random_lists"] = len(vecs)
    if trace:
        t = trace[0]
        ctx.sample({"wide_trace_record": {"n": len(t["rates"]), "cells": len(t["cells"]), "verdict": verdicts[t["id"]]}})


# ------------------------------------------------------------------------------------------
J0 = 2.0 ** -20                                # Hartree^2


# ------------------------------------------------------------------------------------------
GKT = 2.0 ** -10


def _graph_cmd(r, E, c, F, inj, ign):
    parts = ["graph", c, repr(GKT), " ".join(repr(f * GKT) for f in F), inj, ign, repr(GKT), repr(J0), str(r["n"])]
    for t, e in zip(r["types"], E):
        parts += [t, repr(e * GKT)]
    parts.append(str(len(r["pairs"])))
    for p in r["pairs"]:
        parts += [str(p["a"]), str(p["b"])] + [repr(float(x)) for x in p["R"]] + [repr(float(p["jm"]))]
    return " ".join(parts)


def _parse_nodes(lines):
    nodes, pairs, failed = {}, {}, None
    for ln in lines:
        t = ln.split()
        if t[0] == "pair":
            pairs[int(t[1])] = (float(t[2]), float(t[3]))
        elif t[0] == "node":
            nev = int(t[9])
            ev = [(int(t[10 + 5 * k]), float(t[11 + 5 * k]), [float(x) for x in t[12 + 5 * k:15 + 5 * k]]) for k in range(nev)]
            nodes[int(t[1])] = {"inj": t[3] == "1", "esc": float(t[5]), "tree": t[7] == "1", "ev": ev}
        elif t[0] == "loadfailed":
            failed = ln
    return nodes, pairs, failed


def _graph(ctx, exe):
    """LoadGraph: which rate / displacement / destination ends up in which node."""
    res = vlib.tlc("huffman", "MCKmcGraph", cfg="MCKmcGraph.cfg", workers=4, timeout=1200)
    vlib.tlc_must_hold(res, "KmcGraph: every pair is one forward and one backward event")
    ctx.add_tlc("MCKmcGraph", res)
    vecs = res.records
    seen = {"rev": 0, "zeroJ": 0, "ign": 0, "iso": 0, "field": 0}
    items = [(i, [_graph_cmd(r, r["E"], r["c"], r["F"], r["inj"], r["ign"])]) for i, r in enumerate(vecs)]
    results, crashes = vlib.run_items(exe, items)
    for i, r in enumerate(vecs):
        ctx.count()
        if i in crashes:
            ctx.violation("Graph:crash", "driver died in LoadGraph: %s" % crashes[i], r)
            continue
        nodes, direct, failed = _parse_nodes(results[i][0])
        if r["iso"]:
            seen["iso"] += 1
            ctx.extra.setdefault("observations", {})["LoadGraph with a segment that has no pair"] = failed or "completes"
            continue       # the statement is silent about sites without events
        ctx.nontriv(("graph", i))
        if failed or _exc(results[i]) or len(nodes) != r["n"]:
            ctx.violation("Graph:load-failed", "LoadGraph failed on a connected graph: %s" % (failed or results[i][0][-2:]), r)
            continue
        seen["rev"] += any(p["a"] > p["b"] for p in r["pairs"])
        seen["zeroJ"] += any(p["jm"] == 0 for p in r["pairs"])
        seen["field"] += r["q"] != 0 and any(r["F"])
        for ni, exp in enumerate(r["nodes"]):
            got = nodes[ni]
            if got["inj"] != exp["inj"]:
                ctx.violation("Graph:injectable", "node %d type %s pattern %s: injectable=%s" % (ni, r["types"][ni], r["inj"], got["inj"]), r)
            if len(got["ev"]) != len(exp["ev"]):
                ctx.violation("Graph:event-count", "node %d has %d events, expected %d" % (ni, len(got["ev"]), len(exp["ev"])), r)
                continue
            for (dest, rate, dr), e in zip(got["ev"], exp["ev"]):
                k12, k21 = direct[e["p"]]
                if dest != e["dest"]:
                    ctx.violation("Graph:destination", "node %d pair %d: destination %d, expected %d" % (ni, e["p"], dest, e["dest"]), r)
                if dr != [float(x) for x in e["dr"]]:
                    ctx.violation("Graph:displacement:dir%d" % e["dir"], "node %d pair %d: dr %s, expected %s" % (ni, e["p"], dr, e["dr"]), r)
                want = k12 if e["dir"] == 12 else k21
                if rate != want:
                    ctx.violation("Graph:rate:dir%d" % e["dir"], "node %d pair %d: event rate %r, Rate_Engine gives k12=%r k21=%r, "
                                  "this node needs the %s one" % (ni, e["p"], rate, k12, k21, "forward" if e["dir"] == 12 else "backward"), r)
                if r["pairs"][e["p"]]["jm"] == 0 and rate != 0.0:
                    ctx.violation("Graph:zero-coupling", "pair without coupling gives rate %r" % rate, r)
            if exp["tree"]:
                tot = 0.0
                for (_, rate, _) in got["ev"]:
                    tot += rate
                if not got["tree"] or not vlib.close(got["esc"], tot, 1e-14, 0):
                    ctx.violation("Graph:escape-rate", "node %d: tree=%s escape rate %r, sum of its event rates %r" % (ni, got["tree"], got["esc"], tot), r)
            else:
                seen["ign"] += 1
                ctx.extra.setdefault("observations", {})["node of a type listed in ignoresegments"] = \
                    "tree built: %s, escape rate %r" % (got["tree"], got["esc"])
        # detailed balance ACROSS the wiring: rate on node a towards b over rate on node b towards a
        for k, p in enumerate(r["pairs"]):
            if p["jm"] == 0:
                continue
            fa = [ev[1] for ev, e in zip(nodes[p["a"]]["ev"], r["nodes"][p["a"]]["ev"]) if e["p"] == k]
            fb = [ev[1] for ev, e in zip(nodes[p["b"]]["ev"], r["nodes"][p["b"]]["ev"]) if e["p"] == k]
            if len(fa) == 1 and len(fb) == 1 and fa[0] > 0 and fb[0] > 0:
                got = math.log(fa[0] / fb[0])
                if not vlib.close(got, r["lnratio"][k], 1e-9, 1e-9):
                    ctx.violation("Graph:detailed-balance:%s" % r["c"],
                                  "pair %d: ln(rate on node %d / rate on node %d) = %r, expected (E_a-E_b+qF.R)/kT = %d"
                                  % (k, p["a"], p["b"], got, r["lnratio"][k]), r)
    ctx.extra["graph_vectors"] = len(vecs)
    ctx.extra["graph_case_counts"] = seen
    if min(seen.values()) == 0:
        raise vlib.InfraError("vacuous: graph lattice lacks a case class: %s" % seen)
    ctx.sample({"graph_vector": vecs[len(vecs) // 2]})


def _walk(ctx, exe):
    """Chargecarrier / GNode bookkeeping over several KMC steps."""
    cfg = "MCKmcWalkQuick.cfg" if ctx.quick else "MCKmcWalkThorough.cfg"
    res = vlib.tlc("huffman", "MCKmcWalk", cfg=cfg, workers=4, timeout=1500)
    vlib.tlc_must_hold(res, "KmcWalk bookkeeping")
    ctx.add_tlc(cfg[:-4], res)
    hists = res.records
    DT = 2.0 ** -7
    n_reinj = n_jump2 = n_reset = 0
    items = []
    for i, r in enumerate(hists):
        cmds = [_graph_cmd(r, [0] * r["n"], "h", [0, 0, 0], "*", "-")]
        for st in r["h"]:
            cmds.append("place %d" % st["i"] if st["a"] == "place" else
                        "tick %r" % (st["dt"] * DT) if st["a"] == "tick" else
                        "reset" if st["a"] == "reset" else "jump %d" % st["k"])
        items.append((i, cmds))
    results, crashes = vlib.run_items(exe, items)
    for i, r in enumerate(hists):
        ctx.traces += 1
        acts = [st["a"] for st in r["h"]]
        n_reinj += acts.count("place") > 1
        n_jump2 += acts.count("jump") >= 2
        n_reset += "reset" in acts
        ctx.nontriv(("walk", i))
        if i in crashes or _exc(results[i]):
            ctx.violation("Walk:crash", "carrier walk failed: %s" % (crashes.get(i) or _exc(results[i])), r)
            continue
        for j, st in enumerate(r["h"]):
            t = _line(results[i][1 + j], "carrier")
            o = st["o"]
            got = {"cur": int(t[0]), "life": float(t[1]), "steps": int(t[2]), "trav": [float(x) for x in t[3:6]],
                   "occ": [t[6 + 2 * k] == "1" for k in range(r["n"])], "occt": [float(t[7 + 2 * k]) for k in range(r["n"])]}
            exp = {"cur": o["cur"], "life": o["life"] * DT, "steps": o["steps"], "trav": [float(x) for x in o["trav"]],
                   "occ": o["occ"], "occt": [x * DT for x in o["occt"]]}
            for f in ("cur", "life", "steps", "trav", "occ", "occt"):
                if got[f] != exp[f]:
                    ctx.violation("Walk:%s:after-%s" % (f, st["a"]), "step %d (%s): %s = %s, expected %s; calls %s"
                                  % (j, st["a"], f, got[f], exp[f], [(s["a"], s.get("i", s.get("k", s.get("dt")))) for s in r["h"][:j + 1]]), r)
                    break
    ctx.extra["walk_histories"] = len(hists)
    if n_reinj == 0 or n_jump2 == 0 or n_reset == 0:
        raise vlib.InfraError("vacuous: no walk with re-injection / two jumps")


def _observations(ctx, exe):
    """Edge inputs outside the statement's quantifier: recorded, never asserted."""
    results, crashes = vlib.run_items(exe, [(0, ["huff 0"]), (1, ["huff 2 0.0 0.0", "probe 3 0.0 0.5 1.0"])])
    obs = ctx.extra.setdefault("observations", {})
    obs["MakeHuffTree on an empty event list"] = crashes.get(0) or " / ".join(sum(results.get(0, [[]]), []))
    obs["all rates zero"] = crashes.get(1) or " / ".join(sum(results.get(1, [[]]), []))


# ------------------------------------------------------------------------------------------
BOHR2NM = 0.052917721092      # tools::conv::bohr2nm, the unit of the trajectory file
LIFE_E = [0, 2, -1]           # site energies / kT: three different escape rates
LIFE_T = [1e-14, 2e-14, 5e-13]


def _lifetime(ctx, exe):
    """The real KMCLifetime::RunVSSM (LoadGraph + ReadLifetimeFile before it) with scripted random numbers."""
    import json
    recs = []
    for cfg in (("MCKmcLifeQuick.cfg", "MCKmcLife2Quick.cfg") if ctx.quick else ("MCKmcLifeThorough.cfg", "MCKmcLife2Thorough.cfg")):
        res = vlib.tlc("huffman", "MCKmcLife", cfg=cfg, workers=4, timeout=1500)
        vlib.tlc_must_hold(res, "KmcLife")
        ctx.add_tlc(cfg[:-4], res)
        recs += res.records
    if not recs:
        raise vlib.InfraError("no kmclifetime histories")
    gkey = lambda r: json.dumps([r["n"], r["types"], r["pairs"]])
    gdesc = lambda r: _graph_cmd(r, LIFE_E[:r["n"]], "s", [0, 0, 0], "*", "-")[len("graph "):] + " " + \
        " ".join(repr(x) for x in LIFE_T[:r["n"]])
    graphs = {}
    for r in recs:
        graphs.setdefault(gkey(r), r)
    # phase 1: escape rates and selection intervals of the loaded graph
    res1, cr1 = vlib.run_items(exe, [(k, ["lifeload " + gdesc(r)]) for k, r in sorted(graphs.items())])
    info = {}
    for k, r in sorted(graphs.items()):
        if k in cr1:
            ctx.violation("KMCLifetime:load:crash", "LoadGraph/ReadLifetimeFile died: " + cr1[k], r)
            continue
        lines = res1[k][0]
        nodes, _, _ = _parse_nodes([l for l in lines if l.split()[0] in ("node", "pair")])
        fail = [l for l in lines if l.startswith("runfailed") or l.startswith("findexc") or l.startswith("exc")]
        if fail or len(nodes) != r["n"]:
            ctx.violation("KMCLifetime:load:failed", "LoadGraph/ReadLifetimeFile failed: %s" % fail, r)
            continue
        part = {}
        for l in lines:
            t = l.split()
            if t[0] == "part":
                part[int(t[1])] = [(int(t[3 + 3 * j]), float(t[4 + 3 * j]), float(t[5 + 3 * j])) for j in range(int(t[2]))]
        maxint = int(_line(lines, "maxint")[0])
        info[k] = (nodes, part)
        # injection draws a site index from [0, maxint]: must be the sites 0..n-1
        if maxint != r["n"] - 1:
            ctx.violation("KMC:injection:site-index-range",
                          "LoadGraph configures site draws from [0,%d] for %d sites (indices 0..%d): index %d is past the "
                          "end of nodes_" % (maxint, r["n"], r["n"] - 1, maxint), r)
    items, used = [], []
    n_two = n_hop_after = 0
    for i, r in enumerate(recs):
        if gkey(r) not in info:
            continue
        nodes, part = info[gkey(r)]
        script = []
        ok = True
        for d in r["h"]:
            if d["k"] == "site":
                script.append("i %d" % d["v"])
            elif d["k"] == "time":
                script.append("u %r" % (1.0 - 2.0 ** -d["j"]))
            elif d["k"] == "carrier":
                esc = [nodes[x]["esc"] for x in d["at"]]
                K = sum(esc)
                u = sum(esc[:d["c"] - 1]) / K + 0.5 * esc[d["c"] - 1] / K
                script.append("u %r" % (1.0 - u))
            else:
                cells = [c for c in part[d["node"]] if c[0] == d["e"]]
                if not cells:
                    ok = False
                    break
                w = max(cells, key=lambda c: c[2] - c[1])
                script.append("u %r" % (1.0 - 0.5 * (w[1] + w[2])))
        if not ok:
            ctx.violation("KMCLifetime:event-without-interval", "an event of the loaded graph has no selection interval", r)
            continue
        items.append((i, ["liferun %s %d %d %d %s" % (gdesc(r), r["ncar"], r["insertions"], len(script), " ".join(script))]))
        used.append(i)
    results, crashes = vlib.run_items(exe, items)
    for i in used:
        r = recs[i]
        ctx.traces += 1
        ctx.nontriv(("life", i))
        nodes, _ = info[gkey(r)]
        n_two += r["ncar"] == 2
        n_hop_after += len(r["traj"]) == 2 and r["traj"][1]["steps"] >= 2
        tag = "%dcarrier" % r["ncar"]
        if i in crashes:
            ctx.violation("KMCLifetime:crash:" + tag, "RunVSSM died: " + crashes[i], r)
            continue
        lines = results[i][0]
        fail = [l for l in lines if l.startswith("runfailed") or l.startswith("exc")]
        if fail:
            what = "draw-order" if "verif-script" in fail[0] else "exception"
            ctx.violation("KMCLifetime:%s:%s" % (what, tag),
                          "RunVSSM did not follow the scripted run: %s; draws %s" % (fail[0], [(d["k"], d.get("v", d.get("j", d.get("c", d.get("e"))))) for d in r["h"]]), r)
            continue
        left = int(_line(lines, "script")[3])
        if left != 0:
            ctx.violation("KMCLifetime:draw-order:" + tag, "%d scripted random numbers were not consumed" % left, r)
            continue
        # symbolic clock -> seconds with the escape rates of the loaded graph
        dts = [st["j"] * LN2 / sum(nodes[x]["esc"] for x in st["at"]) for st in r["clock"]]
        traj = [l.split()[1:] for l in lines if l.startswith("traj ")]
        if len(traj) != len(r["traj"]):
            ctx.violation("KMCLifetime:trajectory:lines:" + tag, "%d trajectory lines, expected %d" % (len(traj), len(r["traj"])), r)
            continue
        for k, (got, exp) in enumerate(zip(traj, r["traj"])):
            sim = sum(dts[:exp["sim"]])
            life = sum(dts[exp["born"]:exp["sim"]])
            which = "first" if k == 0 else "after-reinjection"
            if [int(got[1]), int(got[2]), int(got[4]), int(got[5])] != [exp["ins"], exp["id"], exp["steps"], exp["last"] + 1]:
                ctx.violation("KMCLifetime:trajectory:bookkeeping:%s:%s" % (which, tag),
                              "line %d: insertion/id/steps/site %s, expected %s" % (k, [got[1], got[2], got[4], got[5]],
                                                                                   [exp["ins"], exp["id"], exp["steps"], exp["last"] + 1]), r)
            if not vlib.close(float(got[0]), sim, 2e-5, 0):
                ctx.violation("KMCLifetime:trajectory:simtime:%s:%s" % (which, tag),
                              "line %d: simulated time %s, expected %r = sum of -ln(u)/K over %d steps" % (k, got[0], sim, exp["sim"]), r)
            if not vlib.close(float(got[3]), life, 2e-5, 0):
                ctx.violation("KMCLifetime:trajectory:lifetime:%s:%s" % (which, tag),
                              "line %d: carrier lifetime %s, expected %r (waiting times with the escape rates of the sites "
                              "occupied at each step)" % (k, got[3], life), r)
            if any(not vlib.close(float(a), b * BOHR2NM, 2e-5, 1e-12) for a, b in zip(got[6:9], exp["trav"])):
                ctx.violation("KMCLifetime:trajectory:travelled:%s:%s" % (which, tag), "line %d: %s nm, expected %s bohr" % (k, got[6:9], exp["trav"]), r)
        occ = [float(x) for x in _line(lines, "occt")]
        want = [0.0] * r["n"]
        for dt, st in zip(dts, r["clock"]):
            for x in st["at"]:
                want[x] += dt
        if any(not vlib.close(a, b, 1e-12, 0) for a, b in zip(occ, want)):
            ctx.violation("KMCLifetime:occupation-time:" + tag,
                          "occupation times %s, expected %s (every step adds -ln(u)/K_current to the occupied sites)" % (occ, want), r)
        cs = _line(lines, "carriers")
        for c, f in enumerate(r["final"]):
            g_id, g_node, g_life, g_steps = int(cs[4 * c]), int(cs[4 * c + 1]), float(cs[4 * c + 2]), int(cs[4 * c + 3])
            if [g_id, g_node, g_steps] != [f["id"], f["node"], f["steps"]] or not vlib.close(g_life, sum(dts[f["born"]:]), 1e-12, 1e-30):
                ctx.violation("KMCLifetime:final-carrier:" + tag, "carrier %d ends as id/site/steps/lifetime %s, expected %s"
                              % (c, [g_id, g_node, g_steps, g_life], [f["id"], f["node"], f["steps"], sum(dts[f["born"]:])]), r)
    ctx.extra["kmclifetime_runs"] = len(used)
    if n_two == 0 or n_hop_after == 0:
        raise vlib.InfraError("vacuous: no two-carrier run / no run with steps after a re-injection")
    ctx.sample({"kmclifetime_run": recs[used[len(used) // 2]]})


KT = {1: 2.0 ** -10, 2: 3.0 * 2.0 ** -11, 3: 2.0 ** -14}     # Hartree (308 K, 462 K, 19 K)


def _marcus_deep(ctx, exe):
    """barriers up to 650 kT (low temperature / large offsets): same law, no clamping anywhere"""
    _marcus(ctx, exe, "MCMarcusDeep")


def _marcus(ctx, exe, deep=None):
    mod = deep or ("MCMarcusQuick" if ctx.quick else "MCMarcusThorough")
    res = vlib.tlc("marcus", mod, cfg=mod + ".cfg", workers=6, timeout=3000, heap="6g")
    vlib.tlc_must_hold(res, "Marcus: detailed balance, positivity, linearity on the log-lattice")
    ctx.add_tlc(mod, res)
    vecs = res.records
    if len(vecs) != res.distinct:
        raise vlib.InfraError("Marcus vector export incomplete: %d of %d" % (len(vecs), res.distinct))
    items = []
    for i, r in enumerate(vecs):
        kT = KT[r["tk"]]
        base = "marcus %s %r %s %s %s %s %r" % (
            r["c"], kT, " ".join(repr(f * kT) for f in r["F"]), " ".join(repr(float(x)) for x in r["R"]),
            " ".join(repr(r[k] * kT) for k in ("em1", "ux1", "n1", "x1")),
            " ".join(repr(r[k] * kT) for k in ("em2", "ux2", "n2", "x2")), r["lo"] * kT)
        items.append((i, [base + " %r" % J0, base + " %r" % (r["lin"] * J0)]))
    # reference rates k0 at vanishing exponent, one per (carrier, temperature, reorganisation) class:
    # no field, E1-E2 = +l12 (forward) / -l21 (backward)
    refkey = lambda r: (r["c"], r["tk"], r["n1"], r["x1"], r["n2"], r["x2"], r["lo"])
    refs = {}
    for r in vecs:
        refs.setdefault(refkey(r), r)
    ref_items = []
    for k, r in sorted(refs.items()):
        kT = KT[r["tk"]]
        tail = "%s %s %r %r" % (" ".join(repr(r[x] * kT) for x in ("n1", "x1")),
                                "0.0 0.0 " + " ".join(repr(r[x] * kT) for x in ("n2", "x2")), r["lo"] * kT, J0)
        head = "marcus %s %r 0.0 0.0 0.0 %s" % (r["c"], kT, " ".join(repr(float(x)) for x in r["R"]))
        ref_items.append((k, [head + " %r 0.0 %s" % (r["l12"] * kT, tail), head + " %r 0.0 %s" % (-r["l21"] * kT, tail)]))
    ref_res, ref_crash = vlib.run_items(exe, ref_items)
    k0 = {}
    pref = None
    for k, r in sorted(refs.items()):
        if k in ref_crash or _exc(ref_res[k]):
            ctx.violation("Marcus:reference", "reference rate failed for %s: %s" % (r, ref_crash.get(k) or _exc(ref_res[k])), r)
            continue
        f = float(_line(ref_res[k][0], "rates")[0])
        b = float(_line(ref_res[k][1], "rates")[1])
        k0[k] = (f, b)
        # prefactor 2pi/hbar J2/sqrt(4 pi lam kT): (k0 kT)^2 * (lam/kT) is the same number for every class
        for val, lam in ((f, r["l12"]), (b, r["l21"])):
            c2 = (val * KT[r["tk"]]) ** 2 * lam
            if pref is None:
                pref = c2
            elif not vlib.close(c2, pref, 1e-12, 0):
                ctx.violation("Marcus:prefactor", "k0^2 kT lam = %r differs from %r of the first class: the prefactor is not "
                              "proportional to 1/sqrt(lam kT) (%s)" % (c2, pref, r), r)
    ctx.extra["marcus_reference_classes"] = len(refs)
    n_uneq = n_deep = 0
    results, crashes = vlib.run_items(exe, items)
    for i, r in enumerate(vecs):
        ctx.count()
        cls = ("field:" if r["fr"] != 0 else "zero-field:") + r["c"]
        if r["lo"] != 0:
            cls = "outer-reorg:" + cls
        if r["eq"] and (r["lo"] != 0 or r["fr"] != 0):
            ctx.nontriv(("marcus", r["c"], r["lnratio"], r["lo"], r["fr"], r["n1"], r["x1"], r["n2"], r["x2"]))
        if i in crashes:
            ctx.violation("Marcus:crash", "driver died on %s: %s" % (r, crashes[i]), r)
            continue
        out = results[i]
        ex = _exc(out)
        if ex:
            ctx.violation("Marcus:exception:" + cls, "Rate_Engine::Rate threw (%s) for positive reorganisation energies: %s" % (ex, r), r)
            continue
        a = [float(t) for t in _line(out[0], "rates")]
        b = [float(t) for t in _line(out[1], "rates")]
        if not r.get("rep", True):
            continue        # a rate below the double range: outside the representability guard of the spec
        barrier = max(-r["x12n"] / float(r["x12d"]), -r["x21n"] / float(r["x21d"]))
        if barrier > 230:
            n_deep += 1
        if barrier > 100:
            cls = "deep-barrier:" + cls
        if not all(x > 0.0 and math.isfinite(x) for x in a + b):
            ctx.violation("Marcus:positive:" + cls, "rates %s / %s are not positive finite numbers for %s" % (a, b, r), r)
            continue
        if not (vlib.close(b[0] / a[0], r["lin"], 1e-12, 0) and vlib.close(b[1] / a[1], r["lin"], 1e-12, 0)):
            ctx.violation("Marcus:linear-J2", "k(%d J2)/k(J2) = %r, %r for %s" % (r["lin"], b[0] / a[0], b[1] / a[1], r), r)
        # each direction separately (also for unequal reorganisation energies): ln(k/k0) = -(lam-G)^2/(4 lam)
        if refkey(r) in k0:
            if not r["eq"]:
                n_uneq += 1
            for d, kk, ref, xn, xd in (("12", a[0], k0[refkey(r)][0], r["x12n"], r["x12d"]),
                                       ("21", a[1], k0[refkey(r)][1], r["x21n"], r["x21d"])):
                got = math.log(kk / ref)
                if not vlib.close(got, xn / float(xd), 1e-9, 1e-9):
                    ctx.violation("Marcus:expression:%s:%s%s" % (d, "" if r["eq"] else "unequal-reorg:", cls),
                                  "ln(k%s/k0) = %r, Marcus exponent is %d/%d for %s" % (d, got, xn, xd, r), r)
        if r["eq"]:
            got = math.log(a[0] / a[1])
            if not vlib.close(got, r["lnratio"], 1e-9, 1e-9):
                ctx.violation("Marcus:detailed-balance:" + cls,
                              "ln(k12/k21) = %r, detailed balance demands (E1-E2+qF.R)/kT = %d for %s" % (got, r["lnratio"], r), r)
    if vecs:
        ctx.sample({"marcus_vector": vecs[len(vecs) // 3]})
    if deep:
        ctx.extra["marcus_deep_vectors"] = len(vecs)
        ctx.extra["marcus_vectors_barrier_above_230kT"] = n_deep
        if n_deep < 100:
            raise vlib.InfraError("vacuous: only %d representable points with a barrier above 230 kT" % n_deep)
        return
    ctx.extra["marcus_vectors"] = len(vecs)
    ctx.extra["marcus_unequal_reorg_vectors"] = n_uneq
    if n_uneq == 0 or not any(r["lnratio"] > r["l12"] or -r["lnratio"] > r["l21"] for r in vecs) \
            or not any(r["lnratio"] < 0 for r in vecs) or not any(r["lnratio"] > 0 for r in vecs):
        raise vlib.InfraError("vacuous: Marcus lattice lacks unequal-reorganisation, inverted-region or uphill points")


def _marcus_field(ctx, exe):
    """Detailed balance w.r.t. the field for field strengths from 1e-13 to 1e-1 atomic units."""
    res = vlib.tlc("marcus", "MCMarcusField", cfg="MCMarcusField.cfg", workers=4, timeout=1200)
    vlib.tlc_must_hold(res, "MarcusField: detailed balance coefficient-wise in the field strength")
    ctx.add_tlc("MCMarcusField", res)
    vecs = res.records
    items, decades = [], set()
    for i, r in enumerate(vecs):
        kT = KT[r["tk"]]
        sc = 2.0 ** r["e"]
        F = [x * kT * sc for x in r["d"]]
        R = [x * 2.0 ** -r["rs"] for x in r["r"]]
        h = r["lam"] * kT / 2.0
        if r["q"] != 0 and r["m"] != 0:
            decades.add(int(math.floor(math.log10(math.sqrt(sum(f * f for f in F))))))
        items.append((i, ["marcus %s %r %s %s %r 0.0 %r %r 0.0 0.0 %r %r 0.0 %r"
                          % (r["c"], kT, " ".join(repr(f) for f in F), " ".join(repr(x) for x in R),
                             r["a"] * kT, h, h, h, h, J0)]))
    if not set(range(-12, -1)) <= decades:
        raise vlib.InfraError("vacuous: field-strength decades covered %s" % sorted(decades))
    results, crashes = vlib.run_items(exe, items)
    for i, r in enumerate(vecs):
        ctx.count()
        kT = KT[r["tk"]]
        fabs = math.sqrt(sum(x * x for x in r["d"])) * kT * 2.0 ** r["e"]
        cls = "%s:%s" % ("weak-field" if fabs < 1e-6 else "medium-field" if fabs < 1e-3 else "strong-field", r["c"])
        if r["q"] != 0 and r["m"] != 0:
            ctx.nontriv(("field", r["c"], r["e"], r["rs"], r["m"], r["a"], r["lam"]))
        if i in crashes or _exc(results[i]):
            ctx.violation("Marcus:exception:" + cls, "Rate_Engine::Rate failed on %s: %s" % (r, crashes.get(i) or _exc(results[i])), r)
            continue
        k12, k21 = [float(t) for t in _line(results[i][0], "rates")]
        if not (k12 > 0 and k21 > 0 and math.isfinite(k12) and math.isfinite(k21)):
            ctx.violation("Marcus:positive:" + cls, "rates %r %r for %s" % (k12, k21, r), r)
            continue
        term = r["m"] * 2.0 ** (r["e"] - r["rs"])          # q F.R / kT, exact dyadic
        exp = r["a"] + term
        tol = 1e-11 + 1e-13 * (r["lam"] + abs(exp)) ** 2 / (4.0 * r["lam"])
        got = math.log(k12 / k21)
        if abs(got - exp) > tol:
            ctx.violation("Marcus:detailed-balance:" + cls,
                          "|F| = %.3g a.u.: ln(k12/k21) = %r, detailed balance demands (E1-E2)/kT + qF.R/kT = %d + %r for %s"
                          % (fabs, got, r["a"], term, r), r)
    ctx.extra["marcus_field_vectors"] = len(vecs)
    ctx.extra["marcus_field_decades"] = sorted(decades)


def _wait(ctx, exe):
    res = vlib.tlc("marcus", "MCWait", cfg="MCWait.cfg", workers=2, timeout=600)
    vlib.tlc_must_hold(res, "Wait: survival function of the inverse-transform waiting time is exponential")
    ctx.add_tlc("MCWait", res)
    items = []
    for i, r in enumerate(res.records):
        raw = r["raw"] / float(2 ** r["K"])
        items.append((i, ["promote %r %r" % (raw, float(r["m"])), "huff 5 1.0 2.0 3.0 5.0 5.0", "choose %r" % raw]))
    results, crashes = vlib.run_items(exe, items)
    for i, r in enumerate(res.records):
        ctx.count()
        ctx.nontriv(("wait", r["j"], r["m"]))
        if i in crashes or _exc(results[i]):
            ctx.violation("KMC:waiting-time:crash", "Promotetime failed on %s: %s" % (r, crashes.get(i) or _exc(results[i])), r)
            continue
        dt = float(_line(results[i][0], "dt")[0])
        # inverse transform with u = 1-r (the code's choice; expectation from TLC) or with u = r (equally
        # exponential for r in (0,1), but ln 0 at r = 0): both admitted, the result must be finite
        raw = r["raw"] / float(2 ** r["K"])
        alt = -math.log2(raw) if raw > 0 else float("inf")
        ok = dt >= 0.0 and math.isfinite(dt) and (vlib.close(dt * r["m"] / LN2, r["ln2units"], 1e-12, 1e-12)
                                                  or vlib.close(dt * r["m"] / LN2, alt, 1e-12, 1e-12))
        if not ok:
            ctx.violation("KMC:waiting-time", "dt*k_tot = %r, expected %d*ln2 for uniform variate 1-2^-%d, k_tot=%d"
                          % (dt * r["m"], r["ln2units"], r["j"], r["m"]), r)
        ch = _line(results[i][2], "sel")
        if ch[0] != ch[2] or int(ch[0]) < 0:
            ctx.violation("KMC:choose-destination", "ChooseHoppingDest selected event %s, findHoppingDestination(1-r) %s for r=%s"
                          % (ch[0], ch[2], r["raw"]), r)


def run(ctx):
    bindir = vlib.ensure_build(["drv_huffman"])
    exe = bindir + "/drv_huffman"
    ctx.rule = ("Huffman: one replayed behaviour per rate vector of the TLC lattice (build tree, probe every model "
                "threshold +-eps, every threshold itself and every cell midpoint), non-trivial = ties, odd count or "
                "ratio > 1000; one replayed call history (AddEvent/AddDecayEvent/InitEscapeRate/MakeHuffTree on one GNode, probed "
                "after every MakeHuffTree) per TLC history, non-trivial = rebuild or decay event; one validated trace per random list (n<=100, 12 orders of magnitude); Marcus/wait: one "
                "evaluation per lattice point, non-trivial = equal-reorganisation point with field or outer-sphere term")
    ctx.assumptions += [
        "rates are integers, sum < 2^53: sums are exact in double; thresholds of the real tree are compared with "
        "model thresholds k/S within eps = 1e-12*n, cells are >= 1/S >= 5e-9 wide",
        "the real selection function is constant between consecutive stored thresholds (it only compares p with "
        "them); the driver reads the stored thresholds with -fno-access-control and the check demands that each lies "
        "on a model threshold",
        "equal rates: any tree a heap may build is admitted; only measures are compared, never tree shapes",
        "large lists: measure tolerance 1e-14*n of the unit interval (about 10x the rounding bound 10 n u)",
        "Marcus lattice: energies integer multiples of kT, kT in {2^-10, 3*2^-11} Hartree, J2 = 2^-20; "
        "ln(k12/k21) compared with the integer (E1-E2+qF.R)/kT to 1e-9; detailed balance only asserted where the "
        "total forward and backward reorganisation energies are equal",
        "Promotetime's uniform variate is scripted by replacing the distribution of KMCCalculator::RandomVariable_ "
        "with the degenerate uniform_real_distribution(r,r)"]
    for name, layer in (("Huffman", _huffman_lattice), ("Huffman:history", _huffman_history), ("Huffman:wide", _huffman_wide),
                        ("Graph", _graph), ("Walk", _walk), ("KMCLifetime", _lifetime), ("Marcus", _marcus), ("Marcus:deep", _marcus_deep),
                        ("Marcus:field", _marcus_field), ("KMC", _wait), ("Observations", _observations)):
        try:
            layer(ctx, exe)
        except (ValueError, IndexError, TypeError, KeyError, AttributeError) as e:
            # the driver ran the real code to the end but its answer does not have the agreed form: the code did
            # something the protocol has no word for -> a verdict about the code (the unchanged tree parses)
            import traceback
            ctx.violation(name + ":unparsable-result", "result of the real code could not be interpreted (%s: %s) at %s"
                          % (type(e).__name__, e, traceback.format_exc().strip().splitlines()[-3].strip()), {"layer": name})
    ctx.exhaustive = False
