"""Process coordinator for the C10 (shared job file) engine - DESIGN.md Appendix A.2.

Starts NP copies of `drv_jobfile worker` (real ProgObserver/Job code), each thread of which
reports every hook event over its own unix-socket connection and blocks until the reply.
The coordinator therefore sees a total order of all hook events, decides which thread may
run to its next hook (`step`), can kill a process at any hook (`crash`, also at the
per-record events inside WRITE_JOBS), and after every step records the projected global
state: the hook at which every thread is parked, the in-memory job list of every process
(read by the driver from the observer), and digests of job file and backup obtained with
the real LOAD_JOBS (`drv_jobfile loadserver`) while every process is parked.

The coordinator owns a model of the file lock / thread mutex / join conditions only to
decide which steps may be granted (like the thread scheduler of C05).  Whether a process
granted a lock request really blocks is read from /proc/<pid>/task/<tid>/syscall
(fcntl F_SETLKW), never inferred from timing.  stdlib only."""
import json
import os
import select
import shutil
import socket
import subprocess
import tempfile
import time


class CoordError(Exception):
    """infrastructure trouble (timeouts, protocol errors): never a verdict about the code"""


KIND = {201: "lockreq", 202: "locked", 203: "loaded", 204: "bwritten", 205: "assigned", 206: "fwritten",
        207: "released", 219: "start", 220: "req", 221: "took", 222: "evaled", 223: "join"}
K_WOPEN, K_WREC, K_ENDED, K_DONE, K_ABORT, K_SPAWN = 210, 211, 224, 225, 226, 227
K_MLOCK, K_MUNLOCK = 1, 2        # tools::Mutex lock request / unlock (verif_hook.h)
SECTION = {"lockreq", "locked", "loaded", "bopen", "bwritten", "assigned", "fopen", "fwritten", "released"}
STOPPED = {"done", "crashed", "aborted"}
OLDHOST = "old"


def job_xml(i, r):
    s = "\t<job>\n\t\t<id>%d</id>\n\t\t<tag>t%d</tag>\n\t\t<input>x%d</input>\n\t\t<status>%s</status>\n" % (i, i, i, r["st"])
    if r["host"]:
        s += "\t\t<host>%s:%d</host>\n\t\t<time>00:00:00</time>\n" % (OLDHOST, r["host"])
    if r["out"]:
        s += "\t\t<output>r%d</output>\n" % r["out"]
    return s + "\t</job>\n"


def restart_pattern(cfg):
    parts = []
    if cfg["rhost"]:
        parts.append("host(%s)" % ",".join("%s:%d" % (OLDHOST, h) for h in cfg["rhost"]))
    if cfg["rstat"]:
        parts.append("stat(%s)" % ",".join(cfg["rstat"]))
    return " ".join(parts)


class Loader:
    """persistent `drv_jobfile loadserver`: the real LOAD_JOBS as a file digest"""

    def __init__(self, exe):
        self.p = subprocess.Popen([exe, "loadserver"], stdin=subprocess.PIPE, stdout=subprocess.PIPE, text=True, bufsize=1)

    def digest(self, path, timeout=20):
        self.p.stdin.write(path + "\n")
        self.p.stdin.flush()
        r, _, _ = select.select([self.p.stdout], [], [], timeout)
        if not r:
            raise CoordError("loadserver timed out on " + path)
        line = self.p.stdout.readline()
        if not line:
            raise CoordError("loadserver died")
        return json.loads(line)

    def close(self):
        try:
            self.p.stdin.close()
            self.p.wait(timeout=5)
        except Exception:
            self.p.kill()


class Actor:
    def __init__(self, p, t):
        self.p, self.t = p, t
        self.conn = None
        self.buf = b""
        self.pending = None     # the event the thread is parked at
        self.pc = "start" if t == 0 else "unborn"
        self.blocked = False    # granted a lock request and sleeping in fcntl(F_SETLKW)
        self.tid = None
        self.crash_rec = None   # crash at this record index of the file being written
        self.deferred = None    # event received while the thread counts as blocked
        self.running = False    # told to go (or announced by its parent) and not yet heard of again
        self.mwait = None       # waits for this thread mutex (its lock request has not been answered yet)


class Coordinator:
    def __init__(self, exe, loader, cfg, np_, nt, lockmode="exclusive", step_timeout=30.0, keep=False, base=None):
        self.exe, self.loader, self.cfg, self.np, self.nt = exe, loader, cfg, np_, nt
        self.lockmode = lockmode
        self.step_timeout = step_timeout
        self.dir = tempfile.mkdtemp(prefix="c10-", dir=base)
        self.keep = keep
        self.jobfile = os.path.join(self.dir, "jobs.xml")
        self.lockfile = os.path.join(self.dir, "state.lock")
        self.sockpath = os.path.join(self.dir, "s")
        self.nj = len(cfg["init"])
        with open(self.jobfile, "w") as f:
            f.write("<jobs>\n" + "".join(job_xml(i + 1, r) for i, r in enumerate(cfg["init"])) + "</jobs>\n")
        open(self.lockfile, "w").close()
        self.srv = socket.socket(socket.AF_UNIX, socket.SOCK_STREAM)
        self.srv.bind(self.sockpath)
        self.srv.listen(64)
        self.srv.setblocking(False)
        self.actors = {(p, t): Actor(p, t) for p in range(1, np_ + 1) for t in range(0, nt + 1)}
        self.conns = {}           # socket -> receive buffer
        self.procs = {}
        self.pid2alias = {}
        self.exited = {}          # p -> return code
        self.phase = {p: "init" for p in range(1, np_ + 1)}
        self.lock = set()         # processes between their 'locked' and 'released' events (nothing else moves it)
        self.mutex = {}           # (p, mutex address) -> holder thread, from the real lock-request/unlock events
        self.mqueue = {}          # (p, mutex address) -> threads whose lock request waits for the holder's unlock
        self.max_lock = 0         # most processes ever inside the lock section at once
        self.obs = {p: None for p in range(1, np_ + 1)}   # last observer digest of p
        self.cur = {(p, t): 0 for p in range(1, np_ + 1) for t in range(0, nt + 1)}
        self.execlog = []
        self.crashes = 0
        self.trace = []
        self.issues = []          # (key, text) observed directly on the real code
        self.nsteps = 0
        self.nblocked = 0         # lock requests observed asleep in fcntl(F_SETLKW)
        for p in range(1, np_ + 1):
            env = dict(os.environ, VERIF_SOCK=self.sockpath)
            args = [exe, "worker", "--alias", str(p), "--jobfile", self.jobfile, "--file", self.lockfile,
                    "--cache", str(cfg["cache"]), "--maxjobs", str(cfg["maxjobs"]), "--threads", str(nt),
                    "--restart", restart_pattern(cfg), "--fail", ",".join(str(x) for x in cfg["fail"])]
            pr = subprocess.Popen(args, env=env, stdout=subprocess.DEVNULL, stderr=subprocess.PIPE, cwd=self.dir)
            self.procs[p] = pr
            self.pid2alias[pr.pid] = p
        self._pump(lambda: all(self.actors[(p, 0)].pending or p in self.exited for p in self.procs), "start-up")
        for p in self.procs:
            if p in self.exited:
                raise CoordError("worker %d died at start-up: rc=%s %s" % (p, self.exited[p], self._stderr(p)))
        # pure observations accumulated along the execution (spec/jobfile/ObsJobFile.tla)
        self.h = {"asg": [[] for _ in range(self.nj)], "lastFile": [dict(r) for r in cfg["init"]],
                  "prevFile": [dict(r) for r in cfg["init"]]}
        s0 = self.state()
        self.trace.append({"e": "begin", "c": cfg, "np": np_, "nt": nt, "s": s0, "h": self._observe(s0)})

    # ------------------------------------------------------------------ plumbing
    def _stderr(self, p):
        try:
            return self.procs[p].stderr.read().decode(errors="replace")[-500:]
        except Exception:
            return ""

    def _reply(self, a, text):
        try:
            if a.conn is not None:
                a.conn.sendall((text + "\n").encode())
        except OSError:
            pass

    def _handle(self, sock, m):
        key = (m["p"], m["t"])
        a = self.actors.get(key)
        if a is None:
            raise CoordError("event from unknown thread %s" % (key,))
        a.conn = sock
        a.tid = m.get("tid", m["pid"])
        if a.blocked and not self.settling:
            # a waiter woke up because the holder let go: its 'locked' event belongs after the holder's step
            a.deferred = m
            return
        self.pid2alias.setdefault(m["pid"], m["p"])
        k = m["k"]
        if "s" in m and m["s"] is not None:
            self.obs[m["p"]] = m["s"]
        a.running = False
        if k == K_MLOCK:
            mk = (m["p"], m["m"])
            if self.mutex.get(mk) is None:
                self.mutex[mk] = m["t"]
                a.running = True
                self._reply(a, "go")
            else:                       # answered when the holder unlocks
                a.mwait = mk
                self.mqueue.setdefault(mk, []).append(a)
            return
        if k == K_MUNLOCK:
            mk = (m["p"], m["m"])
            self.mutex[mk] = None
            a.running = True
            self._reply(a, "go")
            q = self.mqueue.get(mk)
            if q:
                nxt = q.pop(0)
                self.mutex[mk] = nxt.t
                nxt.mwait = None
                nxt.running = True
                self._reply(nxt, "go")
            return
        if k == K_SPAWN:
            child = self.actors.get((m["p"], m["a"]))
            if child is None:
                raise CoordError("spawn of unknown thread %s" % m["a"])
            child.running = True        # will report by itself
            a.running = True
            self._reply(a, "go")
            return
        if k == K_WREC:
            a.running = True
            if a.crash_rec is not None and m["a"] >= a.crash_rec:
                a.crash_rec = None
                self._reply(a, "crash")
            else:
                self._reply(a, "go")
            return
        if k == K_ENDED:
            a.pc, a.pending = "ended", None
            self.cur[key] = 0
            self._reply(a, "go")
            return
        if k == K_DONE:
            a.pc, a.pending = "done", None
            a.running = True            # until the process has exited
            self._reply(a, "go")
            return
        if k == K_ABORT:
            a.pending = None
            a.running = True
            self.aborting = m["p"]
            self._reply(a, "go")
            return
        if k == K_WOPEN:
            a.pc = "bopen" if m["bak"] else "fopen"
        else:
            if k not in KIND:
                raise CoordError("unknown event kind %s" % k)
            a.pc = KIND[k]
        if k == 202:
            a.blocked = False
            if self.lockmode == "exclusive" and self.lock - {m["p"]}:
                self.issues.append(("MutexInSync", "process %d obtained the file lock while %s hold(s) it" % (
                    m["p"], sorted(self.lock))))
            self.lock.add(m["p"])
            self.max_lock = max(self.max_lock, len(self.lock))
        if k == 207:
            self.lock.discard(m["p"])
        if k == 221:
            self.cur[key] = m["a"]
        if k == 220:
            self.cur[key] = 0
        if k == 223 and self.phase[m["p"]] == "init":
            self.phase[m["p"]] = "run"      # the workers have been started
        a.pending = m

    def _io(self, timeout):
        """one round of socket I/O: accept connections, read and dispatch complete event lines"""
        r, _, _ = select.select([self.srv] + list(self.conns), [], [], timeout)
        for s in r:
            if s is self.srv:
                try:
                    c, _ = self.srv.accept()
                    self.conns[c] = b""
                except BlockingIOError:
                    pass
                continue
            try:
                data = s.recv(65536)
            except OSError:
                data = b""
            if not data:
                s.close()
                del self.conns[s]
                for a in self.actors.values():
                    if a.conn is s:
                        a.conn = None
                continue
            buf = self.conns[s] + data
            while b"\n" in buf:
                line, buf = buf.split(b"\n", 1)
                self._handle(s, json.loads(line))
            self.conns[s] = buf
        for p, pr in self.procs.items():
            if p not in self.exited and pr.poll() is not None:
                self.exited[p] = pr.returncode

    def _pump(self, until, what, extra_poll=None):
        """read events until `until()`; extra_poll() is evaluated on every round and ends the wait (result False)"""
        deadline = time.time() + self.step_timeout
        while True:
            if until():
                return True
            if extra_poll is not None and extra_poll():
                return False
            if time.time() > deadline:
                raise CoordError("timeout (%ss) waiting for %s; pcs=%s; %s" % (self.step_timeout, what, self.pcs(), self.diag()))
            self._io(0.001 if extra_poll else 0.05)

    def diag(self):
        """where every thread of every worker process is (for infrastructure error messages)"""
        out = []
        for p, pr in sorted(self.procs.items()):
            if pr.poll() is not None:
                out.append("p%d: exited rc=%s" % (p, pr.returncode))
                continue
            try:
                for tid in sorted(os.listdir("/proc/%d/task" % pr.pid)):
                    base = "/proc/%d/task/%s/" % (pr.pid, tid)
                    st = open(base + "stat").read().rsplit(")", 1)[1].split()[0]
                    sc = " ".join(open(base + "syscall").read().split()[:3])
                    out.append("p%d/%s: %s syscall %s" % (p, tid, st, sc))
            except OSError as e:
                out.append("p%d: %s" % (p, e))
        acts = ["(%d,%d) pc=%s pending=%s blocked=%s deferred=%s conn=%s" % (a.p, a.t, a.pc, a.pending is not None, a.blocked,
                                                                          a.deferred is not None, a.conn is not None)
                for a in self.actors.values()]
        return "threads: " + "; ".join(out) + " | actors: " + "; ".join(acts) + " | lock model %s" % sorted(self.lock)

    aborting = None
    settling = False

    def _in_fcntl_wait(self, a):
        """thread is asleep (state S) inside fcntl(fd, F_SETLKW | F_OFD_SETLKW, ..): waiting for the file lock"""
        pid = self.procs[a.p].pid
        base = "/proc/%d/task/%d/" % (pid, a.tid or pid)
        try:
            f = open(base + "syscall").read().split()
            st = open(base + "stat").read().rsplit(")", 1)[1].split()[0]
        except (OSError, IndexError):
            return False
        return st == "S" and len(f) >= 3 and f[0] == "72" and f[2] in ("0x7", "0x26")

    # ------------------------------------------------------------------ projected state
    def pcs(self):
        return [[self.actors[(p, t)].pc for t in range(0, self.nt + 1)] for p in range(1, self.np + 1)]

    def _host(self, h):
        if not h:
            return 0
        name, _, num = h.rpartition(":")
        num = int(num)
        if name == OLDHOST:
            return num
        if num in self.pid2alias:
            return self.pid2alias[num]
        return 1000 + num % 1000    # a host nobody knows: cannot match anything in the spec

    @staticmethod
    def _out(o):
        if not o:
            return 0
        return int(o[1:]) if o[0] == "r" and o[1:].isdigit() else 999

    def _jobs(self, lst):
        ids_ok = [j["id"] for j in lst] == list(range(1, len(lst) + 1))
        return ids_ok, [{"st": j["st"], "host": self._host(j["host"]), "out": self._out(j["out"])} for j in lst]

    def _file(self, path):
        d = self.loader.digest(path)
        if not d["ok"]:
            return {"ok": False, "jobs": []}
        ids_ok, jobs = self._jobs(d["jobs"])
        if not ids_ok:
            self.issues.append(("JobListComplete", "%s lists job ids %s" % (os.path.basename(path), [j["id"] for j in d["jobs"]])))
        return {"ok": True, "jobs": jobs}

    def alive(self, p):
        return self.actors[(p, 0)].pc not in STOPPED

    def state(self):
        mem, meta, toproc, nxt, more, started = [], [], [], [], [], []
        for p in range(1, self.np + 1):
            o = self.obs[p]
            if o is None:
                mem.append([]); meta.append(1); toproc.append([]); nxt.append(1); more.append(False); started.append(0)
            else:
                mem.append(self._jobs(o["mem"])[1]); meta.append(o["meta"]); toproc.append(o["toProc"])
                nxt.append(o["next"]); more.append(o["more"]); started.append(o["started"])
        return {"pc": self.pcs(), "phase": [self.phase[p] for p in range(1, self.np + 1)], "lock": sorted(self.lock),
                "file": self._file(self.jobfile), "backup": self._file(self.jobfile + "~"),
                "mem": mem, "meta": meta, "toProc": toproc, "next": nxt, "more": more, "started": started,
                "cur": [[self.cur[(p, t)] for t in range(0, self.nt + 1)] for p in range(1, self.np + 1)],
                "execLog": [list(x) for x in self.execlog], "crashes": self.crashes}

    # ------------------------------------------------------------------ what may be scheduled
    def mutex_free(self, p):
        """no thread of p is between a lock request and the unlock of a tools::Mutex (real events, not positions)"""
        return all(h is None for (q, _), h in self.mutex.items() if q == p)

    def quiet(self):
        """every live thread is parked at a hook, asleep in fcntl (counted as blocked), queued for a thread mutex, or gone"""
        for a in self.actors.values():
            if a.running and a.p not in self.exited:
                return False
        return True

    def enabled(self, p, t):
        a = self.actors[(p, t)]
        if not self.alive(p) or a.pending is None or a.blocked:
            return False
        if a.pc == "lockreq":
            return self.lockmode == "sharable" or not self.lock
        if a.pc in ("req", "evaled"):
            return self.mutex_free(p)
        if a.pc == "join":     # pthread_join would block: every worker that was started must have ended
            return all(self.actors[(p, u)].pc in ("ended", "unborn") and not self.actors[(p, u)].running for u in range(1, self.nt + 1))
        return True

    def step_options(self):
        return [(p, t) for (p, t) in sorted(self.actors) if self.enabled(p, t)]

    def probe_options(self):
        """lock requests the model says must block: granting them tests that the real lock excludes"""
        return [(p, t) for (p, t), a in sorted(self.actors.items())
                if self.alive(p) and a.pending is not None and not a.blocked and a.pc == "lockreq" and not self.enabled(p, t)]

    def all_stopped(self):
        return all(not self.alive(p) for p in self.procs)

    # ------------------------------------------------------------------ steps
    def _proc_dead(self, p, what):
        for t in range(0, self.nt + 1):
            a = self.actors[(p, t)]
            a.pc, a.pending, a.blocked, a.deferred = what, None, False, None
            self.cur[(p, t)] = 0
        self.lock.discard(p)
        for mk in list(self.mutex):
            if mk[0] == p:
                del self.mutex[mk]
                self.mqueue.pop(mk, None)
        for t in range(0, self.nt + 1):
            self.actors[(p, t)].running, self.actors[(p, t)].mwait = False, None
        self.phase[p] = "init"
        self.obs[p] = None

    def _wait_exit(self, p, what):
        self._pump(lambda: p in self.exited, "exit of process %d (%s)" % (p, what))
        return self.exited[p]

    def _observe(self, s):
        """update and return the observation record h: which live process was seen as assignee of which job in the
        job file, the last two complete contents of the job file"""
        if s["file"]["ok"]:
            jobs = s["file"]["jobs"]
            self.h["prevFile"] = self.h["lastFile"]
            self.h["lastFile"] = jobs
            for j, r in enumerate(jobs[:self.nj]):
                if r["st"] == "ASSIGNED" and 1 <= r["host"] <= self.np and r["host"] not in self.h["asg"][j]:
                    self.h["asg"][j] = self.h["asg"][j] + [r["host"]]
        return {"asg": [list(x) for x in self.h["asg"]], "lastFile": self.h["lastFile"], "prevFile": self.h["prevFile"]}

    def _record(self, p, t, k):
        self.nsteps += 1
        s = self.state()
        self.trace.append({"e": "step", "p": p, "t": t, "k": k, "s": s, "h": self._observe(s)})

    def _settle_waiters(self):
        """processes sleeping in fcntl(F_SETLKW) that have woken up (whatever the lock model says): the wake-up is their
        lockreq step, recorded right here.  Purely observational: a waiter that is still asleep is left alone."""
        while True:
            waiters = [a for a in self.actors.values() if a.blocked and self.alive(a.p) and a.p not in self.exited]
            woke = None
            for a in waiters:
                if a.deferred is None and not self._in_fcntl_wait(a):
                    # left the fcntl sleep: its next event is on the way
                    self._pump(lambda: a.deferred is not None or a.p in self.exited, "the event of a woken lock waiter")
                if a.deferred is not None:
                    woke = a
                    break
            if woke is None:
                return
            self.settling = True
            try:
                m, woke.deferred = woke.deferred, None
                self._handle(woke.conn, m)
            finally:
                self.settling = False
            woke.blocked = False
            self._pump(self.quiet, "quiescence after a lock waiter woke up")
            self._reap()
            self._record(woke.p, woke.t, 0)

    def _reap(self):
        """book-keeping for processes that have exited since the last look"""
        res = {}
        for p in list(self.exited):
            a = self.actors[(p, 0)]
            if a.pc in ("crashed", "aborted") or (a.pc == "done" and not a.running):
                continue
            rc = self.exited[p]
            if a.pc == "done" and rc == 0:
                for t in range(0, self.nt + 1):
                    self.actors[(p, t)].running = False
                self.lock.discard(p)
                res[p] = "done"
            elif rc == 3 and self.aborting == p:
                self._proc_dead(p, "aborted")
                res[p] = "aborted"
            else:
                self.issues.append(("process:died", "process %d died with rc=%s: %s" % (p, rc, self._stderr(p))))
                self._proc_dead(p, "aborted")
                res[p] = "aborted"
        return res

    def step(self, p, t, probe=False):
        """let thread t of process p run until every thread is parked again (normally: t at its next hook).  Purely
        event driven: nothing is assumed about which hook comes next.  Returns "ok" | "blocked" (asleep in
        fcntl(F_SETLKW)) | "aborted" | "done"."""
        a = self.actors[(p, t)]
        if a.pending is None or a.blocked:
            raise CoordError("step(%d,%d): thread is not parked (pc=%s)" % (p, t, a.pc))
        at = a.pc
        a.pending = None
        self.aborting = None
        if at == "took":
            self.execlog.append((p, self.cur[(p, t)]))
        if at == "evaled":
            self.cur[(p, t)] = 0
        if at == "join":
            self.phase[p] = "final"
        a.running = True
        self._reply(a, "go")
        got = self._pump(self.quiet, "quiescence after the step of thread (%d,%d) parked at %s" % (p, t, at),
                         extra_poll=lambda: a.running and a.pending is None and self._in_fcntl_wait(a))
        if not got:
            self._io(0.002)      # an event may have crossed the /proc reading
            if a.running and a.pending is None and p not in self.exited and self._in_fcntl_wait(a):
                a.blocked = True
                a.running = False
                a.pc = at
                self.nblocked += 1
                self._pump(self.quiet, "quiescence of the other threads")
                return "blocked"
            self._pump(self.quiet, "quiescence after the step of thread (%d,%d) parked at %s" % (p, t, at))
        result = self._reap().get(p, "ok")
        self._record(p, t, 0)
        self._settle_waiters()
        return result

    def crash(self, p, rec=None):
        """kill process p where it stands.  rec=k: if it is parked at the open of a file write,
        let it write records 0..k first and kill it at the hook after record k"""
        cands = [self.actors[(p, t)] for t in range(0, self.nt + 1) if self.actors[(p, t)].pending is not None]
        if not cands:
            # its only live thread sleeps in fcntl(F_SETLKW): nobody to answer "crash", so SIGKILL (same effect as _exit)
            if not any(self.actors[(p, t)].blocked for t in range(0, self.nt + 1)):
                raise CoordError("crash(%d): no parked thread" % p)
            self.procs[p].kill()
        writer = [a for a in cands if a.pc in ("bopen", "fopen")]
        if not cands:
            pass
        elif rec is not None and writer:
            a = writer[0]
            a.crash_rec = max(0, min(rec, self.nj - 1))
            a.pending = None
            self._reply(a, "go")
        else:
            a = cands[0]
            a.pending = None
            self._reply(a, "crash")
        rc = self._wait_exit(p, "crash")
        self._pump(self.quiet, "quiescence after a crash")
        if rc not in (137, -9):
            raise CoordError("crash(%d): rc=%s %s" % (p, rc, self._stderr(p)))
        self._proc_dead(p, "crashed")
        self.crashes += 1
        self._record(p, 0, 1)
        s = self.trace[-1]["s"]
        if not s["file"]["ok"] and not s["backup"]["ok"]:
            self.issues.append(("FileOrBackupComplete", "after the crash of process %d neither the job file nor its backup can be "
                                "parsed by LOAD_JOBS" % p))
        self._settle_waiters()

    def schedule(self):
        return [[r["p"], r["t"], r["k"]] for r in self.trace if r["e"] == "step"]

    def close(self):
        for p, pr in self.procs.items():
            if pr.poll() is None:
                pr.kill()
            try:
                pr.wait(timeout=10)
            except Exception:
                pass
            if pr.stderr:
                pr.stderr.close()
        for c in list(self.conns):
            c.close()
        self.srv.close()
        if not self.keep:
            shutil.rmtree(self.dir, ignore_errors=True)


# ---------------------------------------------------------------------- run drivers
def run_script(exe, loader, cfg, np_, nt, sched, lockmode="exclusive", base=None, crash_rec=None):
    """impose a TLC schedule [[p, t, kind]..]; returns dict(trace, issues, outcome)"""
    co = Coordinator(exe, loader, cfg, np_, nt, lockmode, base=base)
    outcome = "ok"
    try:
        for i, (p, t, k) in enumerate(sched):
            if k == 1:
                if not co.alive(p):
                    outcome = "mismatch: crash of dead process %d at schedule position %d" % (p, i)
                    break
                co.crash(p, rec=crash_rec)
                continue
            a = co.actors[(p, t)]
            if a.pending is None or a.blocked:
                outcome = "mismatch: thread (%d,%d) is not parked at schedule position %d (pc=%s)" % (p, t, i, a.pc)
                break
            if not co.enabled(p, t):
                outcome = "mismatch: step of (%d,%d) at %s not enabled at schedule position %d" % (p, t, a.pc, i)
                break
            r = co.step(p, t)
            if r == "blocked":
                outcome = "blocked: process %d sleeps in fcntl(F_SETLKW) at schedule position %d while %s hold(s) the lock" % (
                    p, i, sorted(co.lock))
                break
        co.trace.append({"e": "end"})
        return {"trace": co.trace, "issues": co.issues, "outcome": outcome, "stopped": co.all_stopped(), "final": co.state(),
                "overlap": co.max_lock > 1, "blocked": co.nblocked}
    finally:
        co.close()


def run_random(exe, loader, cfg, np_, nt, rnd, maxcrashes=0, pcrash=0.0, pprobe=0.3, lockmode="exclusive", base=None,
               maxsteps=5000, policy=None):
    """policy "eager": threads that hold a job evaluate/report first; "lazy": they go last (other threads sync while
    the job is still being processed); None: uniform"""
    co = Coordinator(exe, loader, cfg, np_, nt, lockmode, base=base)
    outcome = "ok"
    try:
        while not co.all_stopped():
            if co.nsteps > maxsteps:
                raise CoordError("run does not end after %d steps" % maxsteps)
            if co.crashes < maxcrashes:
                # crashes while a file is open for writing are the interesting ones: prefer them
                writers = [p for p in co.procs if co.alive(p) and any(co.actors[(p, t)].pc in ("bopen", "fopen") and
                                                                      co.actors[(p, t)].pending is not None
                                                                      for t in range(0, co.nt + 1))]
                if writers and rnd.random() < 4 * pcrash:
                    co.crash(rnd.choice(writers), rec=rnd.choice([None, 0, 1, co.nj - 1]))
                    continue
                if rnd.random() < pcrash / 2:
                    co.crash(rnd.choice([p for p in co.procs if co.alive(p)]), rec=None)
                    continue
            probes = co.probe_options()
            if probes and rnd.random() < pprobe:
                p, t = rnd.choice(probes)
                r = co.step(p, t, probe=True)
                if r != "blocked" and lockmode == "exclusive":
                    pass   # recorded as issue lock:not-exclusive by the event handler
                continue
            opts = co.step_options()
            if not opts and probes:
                p, t = rnd.choice(probes)    # nothing else can move: see whether these really block
                co.step(p, t, probe=True)
                continue
            if not opts:
                outcome = "deadlock"
                co.issues.append(("protocol:deadlock", "no thread can be scheduled: pcs=%s lock=%s" % (co.pcs(), sorted(co.lock))))
                break
            if policy:
                holding = [o for o in opts if co.actors[o].pc in ("took", "evaled")]
                pref = holding if policy == "eager" else [o for o in opts if o not in holding]
                opts = pref or opts
            p, t = rnd.choice(opts)
            co.step(p, t)
            if len(set(co.execlog)) != len(co.execlog):
                # the same process evaluates the same job again: no need to see how often (it may never end)
                dup = [e for e in co.execlog if co.execlog.count(e) > 1][0]
                co.issues.append(("AtMostOncePerRun", "process %d is handed job %d a second time in the same run" % dup))
                outcome = "re-execution"
                break
        co.trace.append({"e": "end"})
        return {"trace": co.trace, "issues": co.issues, "outcome": outcome, "stopped": co.all_stopped(), "final": co.state(),
                "overlap": co.max_lock > 1, "blocked": co.nblocked}
    finally:
        co.close()


def canon(s):
    return json.dumps(s, sort_keys=True, separators=(",", ":"))


def explore(exe, loader, cfg, np_, nt, lockmode="exclusive", base=None, maxruns=20000, progress=None):
    """stateless depth-first enumeration of all schedules of the real code (no crashes), pruned by
    the set of visited projected states.  Returns dict(edges={(from,to)}, runs, issues)."""
    visited = set()
    edges = set()
    issues = []
    work = [[]]          # schedule prefixes whose last step is still to be explored
    runs = 0
    while work:
        prefix = work.pop()
        runs += 1
        if runs > maxruns:
            raise CoordError("explore: more than %d runs" % maxruns)
        co = Coordinator(exe, loader, cfg, np_, nt, lockmode, base=base)
        try:
            cur = canon(co.trace[0]["s"])
            fresh = cur not in visited and not prefix
            if fresh:
                visited.add(cur)
            for i, (p, t) in enumerate(prefix):
                co.step(p, t)
                nxt = canon(co.trace[-1]["s"])
                if i == len(prefix) - 1:
                    edges.add((cur, nxt))
                    fresh = nxt not in visited
                    visited.add(nxt)
                cur = nxt
            sched = list(prefix)
            while fresh and not co.all_stopped():
                opts = co.step_options()
                if not opts:
                    issues.append(("protocol:deadlock", "no thread can be scheduled after %s" % sched))
                    break
                for o in opts[1:]:
                    work.append(sched + [o])
                p, t = opts[0]
                co.step(p, t)
                sched.append((p, t))
                nxt = canon(co.trace[-1]["s"])
                edges.add((cur, nxt))
                fresh = nxt not in visited
                visited.add(nxt)
                cur = nxt
            issues += co.issues
        finally:
            co.close()
        if progress and runs % 100 == 0:
            progress(runs, len(visited), len(work))
    return {"edges": edges, "states": visited, "runs": runs, "issues": issues}
