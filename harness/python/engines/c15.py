"""C15 - classical multipole interactions are symmetric and match point-charge physics (PARTIAL claim).
spec/multipole: Multipole.tla (integer lattice of sites: positions, charge, dipole, the five spherical
quadrupole components in lattice units; the action of translations and the 48 signed permutations;
exact Cartesian energy orders on the lattice; relation builders), MCGroup* (group/action theorems),
MultipoleVec.tla + MCQuick/MCThorough (instance families exported as JSON).

TLC generates related instances and says HOW they are related (integer linear relations, exact rational
values where the lattice makes them rational, monotone bounds); every number compared is an output of
the real eeInteractor/StaticSite/PolarSite code (driver drv_multipole).  Python only converts lattice
integers to reals (position p*2^u, Q2m = s_m/sqrt3), evaluates the relations and sets the tolerance."""
import json
import math
import vlib

SQ3 = math.sqrt(3.0)
FAMILIES = ("motion", "exact", "bilinear", "field", "thole", "induced")
WORKERS = 4
REL = 1e-12

MANIFEST = dict(
    engine="multipole", design_ref="DESIGN.md 6 (C15, planned as not claimed) / spec/multipole/README.md",
    technique="TLA+ symmetry-action spec on an integer lattice (sites = position, charge, dipole, spherical "
              "quadrupole components in units of 1/sqrt3; group = integer translations x 48 signed permutations) "
              "model-checked with TLC (group action, invariants, invariance/symmetry/bilinearity of every exact "
              "Cartesian energy order); TLC exports instance families {sites, configurations, integer linear "
              "relations, exact rational values, bounds}; both sides of every relation are outputs of the real "
              "eeInteractor/StaticSite/PolarSite code (driver drv_multipole)",
    text="Partial claim: the clauses of C15 that have an exact relational/lattice meaning. On static and polar sites "
         "of ranks 0..2 (14 moment templates incl. every single quadrupole component) at distinct integer lattice "
         "positions: (1) exchange symmetry E(A,B)=E(B,A) (site level and all four segment-type combinations); "
         "(2) invariance of E under integer translations and all 48 signed permutations (24 proper rotations and "
         "24 improper ones - E is a true scalar) applied to positions, dipoles and the five spherical quadrupole "
         "components (transformation derived from Theta'=R Theta R^T, checked by TLC to be a group action, and "
         "StaticSite::Rotate/Translate of the real site is compared with the spec's image); (3) for separations of "
         "integer length ((0,0,1),(1,2,2),(0,3,4),(2,3,6),...) the exact value: q1q2/R for charges and, for all rank "
         "pairs, the five exact rational orders of the Cartesian multipole expansion (the limit named in the "
         "statement, stated exactly; not the limit process); (4) bilinearity in the moments (sums and integer "
         "multiples, both argument positions); (5) the vector accumulated by ApplyStaticField on a PolarSite equals "
         "E(A,B+e_k)-E(A,B) (E is linear in the dipole; code convention V=+dE/d(dipole)=-field), for both accumulators, "
         "additive over sources, returned energy = pair energy, exact value on integer-length separations; the same "
         "for ApplyInducedField against E_indu_indu and T^T*dipole, and E_indu_stat = induced dipoles x static-field "
         "accumulators; (6) Thole tensor: T_ij=T_ji, T(A,B)=T(B,A), covariance under the 48 lattice motions, the "
         "undamped tensor (damping switched off by the code for a*u^3>=40) traceless and exactly "
         "(L2*delta_ij-3R_iR_j)/R^5, equal to it for a*u^3>=80, off-diagonal elements monotone in the damping "
         "parameter and bounded by the undamped ones; DipoleDipoleInteraction operator blocks symmetric and "
         "consistent with the tensor. Mode H layer (SiteHist.tla): two long-lived site objects (StaticSite/PolarSite "
         "inside their segments) are driven through TLC-generated call histories (setMultipole with every rank "
         "pair old->new, setCharge, setPos, Translate, Rotate with the centre given by value or as the getPos() "
         "REFERENCE of the site itself / of the partner, Reset, ApplyStaticField and ApplyInducedField in both "
         "accumulator modes; all histories of 2 calls, sampled ones of 5); after every call getPos/rank/Q/getDipole "
         "equal the abstract state, the energies among the objects and a probe equal those of FRESH sites built in "
         "the abstract state, and V/V_noE equal the sum of the contributions since the last Reset, each evaluated "
         "on a fresh source/target pair. Many-site operator (DdiFamily.tla, N = 50 and 400 lattice sites): "
         "DipoleDipoleInteraction::multiply with 2, 4, 8 OpenMP threads (10 repetitions) equals the 1-thread result, "
         "equals the dense product of FillTholeInteraction blocks, and y.(op x) = x.(op y) (1e-10 relative).",
    note="NOT covered: convergence of shrinking point-charge CLUSTER energies to the multipole energy (a limit; only "
         "the limit's exact value on integer-length lattice separations is checked; the spec's formula was compared "
         "once with explicit clusters in exact arithmetic by spec/multipole/crosscheck.py, outside the check); "
         "continuous rotations and non-lattice positions/moments (only the 48 lattice symmetries; moment values "
         "from 14 templates and their sums/multiples); exact values on separations of irrational length (there only "
         "relations); 'tends to the undamped tensor at large separation' as a limit (only the exact switch-off region "
         "a*u^3>=80, monotonicity and boundedness); damped tensor values themselves (exp is not a lattice function); "
         "anisotropic polarisabilities beyond their largest eigenvalue; polarisability rotation in "
         "PolarSite::Rotate (not part of the statement; reported as an observation only); induced-dipole solvers; "
         "mps file I/O. Trusted: TLC, the lattice argument (signed permutations and dyadic scalings are exact "
         "in floating point; sqrt3 enters only through the unit of four quadrupole components), tolerance 1e-12 of a "
         "magnitude bound of the observation, the text driver protocol, Python float conversion.")

# ------------------------------------------------------------------------------------------------
# lattice -> real
# ------------------------------------------------------------------------------------------------


def site_real(f, u):
    sc = 2.0 ** u
    return dict(k=f[0], p=[x * sc for x in f[1:4]], r=f[4],
                Q=[float(f[5]), float(f[6]), float(f[7]), float(f[8]), float(f[9]),
                   f[10] / SQ3, f[11] / SQ3, f[12] / SQ3, f[13] / SQ3],
                a=[float(x) for x in f[14:17]], i=[float(x) for x in f[17:20]])


def site_cmd(idx, s):
    a = s["a"] if s["k"] == 1 else [1.0, 1.0, 1.0]
    return "site %d %d %s %d %s %s %s" % (idx, s["k"], " ".join(repr(x) for x in s["p"]), s["r"],
                                         " ".join(repr(x) for x in s["Q"]), " ".join(repr(x) for x in a),
                                         " ".join(repr(x) for x in s["i"]))


def needed_obs(rec):
    need = {}
    for rel in rec["rel"]:
        t = rel[1:]
        for j in range(0, len(t), 3):
            need.setdefault(t[j + 1], {})[t[j + 2]] = None
    for ex in rec["exact"]:
        need.setdefault(ex[1], {})[ex[2]] = None
    for b in rec["bnd"]:
        if b[2]:
            need.setdefault(b[2], {})[b[3]] = None
        need.setdefault(b[4], {})[b[5]] = None
    return need


def commands(rec):
    u = rec["u"]
    sites = [site_real(f, u) for f in rec["sites"]]
    cmds = ["clear"]
    plan = [("ok", None)]
    for n, s in enumerate(sites, start=1):
        cmds.append(site_cmd(n, s))
        plan.append(("ok", None))
    need = needed_obs(rec)
    for ci in sorted(need):
        srcs, tgt, damp = rec["cfg"][ci - 1]
        obs = list(need[ci])
        cmds.append("obs %s %d %d %s %d %s" % (repr(damp / 100.0), tgt, len(srcs), " ".join(map(str, srcs)),
                                               len(obs), " ".join(map(str, obs))))
        plan.append(("obs", ci))
    sc = 2.0 ** u
    for ri, r in enumerate(rec["rot"]):
        cmds.append("rot %d %s %s %s" % (r[0], " ".join(map(str, r[2:11])), " ".join(repr(x * sc) for x in r[11:14]),
                                         " ".join(repr(x * sc) for x in r[14:17])))
        plan.append(("rot", ri))
    return cmds, plan, sites


# magnitude bound of an observation (for the tolerance only; never an expectation)
def _norm(s):
    return sum(abs(x) for x in s["Q"][:1 + (3 if s["r"] >= 1 else 0) + (5 if s["r"] >= 2 else 0)])


def _l1(v):
    return sum(abs(x) for x in v)


def obs_mag(sites, cfg, o):
    srcs, tgt, _ = cfg
    T = sites[tgt - 1]
    tot = 0.0
    first_only = o == 0 or 10 <= o <= 18 or 24 <= o <= 44
    for si in (srcs[:1] if first_only else srcs):
        S = sites[si - 1]
        R = math.sqrt(sum((S["p"][k] - T["p"][k]) ** 2 for k in range(3)))
        ksum = 200.0 * sum(R ** -n for n in range(1, 6))
        if o in (0, 4, 8, 9):
            tot += ksum * _norm(S) * _norm(T)
        elif 1 <= o <= 3 or 5 <= o <= 7:
            tot += ksum * _norm(S)
        elif 10 <= o <= 18 or 24 <= o <= 41:
            tot += 4.0 / R ** 3
        elif 19 <= o <= 21 or 42 <= o <= 44:
            tot += 4.0 / R ** 3 * _l1(S["i"])
        elif o == 22:
            tot += 4.0 / R ** 3 * _l1(S["i"]) * _l1(T["i"])
        elif o == 23:
            tot += ksum * (_l1(S["i"]) * _norm(T) + _l1(T["i"]) * _norm(S))
    return tot


def cfg_key(rec, ci):
    srcs, tgt, _ = rec["cfg"][ci - 1]
    return "r%d-r%d" % (rec["sites"][srcs[0] - 1][4], rec["sites"][tgt - 1][4])


RANKED = ("exchange", "motion:translation", "motion:rotation", "motion:improper", "bilinear", "field", "segment-energy",
          "coulomb", "cartesian-energy")


def mk_key(rec, clause, ci):
    if clause.endswith(":thole") or clause.startswith("thole") or clause.startswith("induced") or clause.startswith("ddi"):
        return clause
    return "%s:%s" % (clause, cfg_key(rec, ci))


def describe(rec, sites, ci):
    srcs, tgt, damp = rec["cfg"][ci - 1]

    def one(n):
        s = sites[n - 1]
        return "%s(pos=%s rank=%d Q=%s%s)" % ("PolarSite" if s["k"] else "StaticSite", s["p"], s["r"],
                                              [round(x, 6) for x in s["Q"]],
                                              (" ind=%s pol=%s" % (s["i"], s["a"])) if s["k"] else "")
    return "%s -> %s%s" % (" + ".join(one(n) for n in srcs), one(tgt), (" damping %g" % (damp / 100.0)) if damp else "")


def check(ctx, rec, out, plan, sites):
    """returns number of relations/values compared"""
    fam = rec["fam"]
    vals = {}
    rots = {}
    for (what, arg), lines in zip(plan, out):
        first = lines[0] if lines else "(no output)"
        if first.startswith("exc"):
            ctx.violation("exception:%s:%s" % (fam, what), "%s: driver command threw: %s" % (fam, first), rec)
            return 0
        if what == "obs":
            p = first.split()
            if p[0] != "val":
                raise vlib.InfraError("unexpected driver output: " + first)
            for j in range(1, len(p), 2):
                vals[(arg, int(p[j]))] = float(p[j + 1])
        elif what == "rot":
            p = first.split()
            if p[0] != "site":
                raise vlib.InfraError("unexpected driver output: " + first)
            rots[arg] = [float(x) for x in p[1:]]
    n = 0
    for v in vals.values():
        if v != v or v in (float("inf"), float("-inf")):
            ctx.violation("non-finite:%s" % fam, "%s: non-finite observation; %s" % (fam, describe(rec, sites, 1)), rec)
            return 0
    # relations
    for rel in rec["rel"]:
        clause = rel[0]
        t = rel[1:]
        res = 0.0
        tol = 0.0
        for j in range(0, len(t), 3):
            cf, ci, o = t[j:j + 3]
            res += cf * vals[(ci, o)]
            tol += abs(cf) * obs_mag(sites, rec["cfg"][ci - 1], o)
        n += 1
        if not abs(res) <= REL * tol:
            terms = [(t[j], "cfg%d" % t[j + 1], "obs%d" % t[j + 2], vals[(t[j + 1], t[j + 2])]) for j in range(0, len(t), 3)]
            ctx.violation(mk_key(rec, clause, t[1]),
                          "%s: relation '%s' fails: sum coef*obs = %.6g (admitted %.3g) over (coef, cfg, obs, value) %s; "
                          "cfg%d = %s; cfg%d = %s" % (fam, clause, res, REL * tol, terms, t[1],
                                                      describe(rec, sites, t[1]), t[-2], describe(rec, sites, t[-2])), rec)
    # exact rational values: sum num * 2^(-u*order) / (c * L^pow)
    for ex in rec["exact"]:
        clause, ci, o, L = ex[0], ex[1], ex[2], ex[3]
        t = ex[4:]
        exp = 0.0
        for j in range(0, len(t), 4):
            num, cden, pw, order = t[j:j + 4]
            exp += num * 2.0 ** (-rec["u"] * order) / (cden * float(L) ** pw)
        got = vals[(ci, o)]
        n += 1
        if not abs(got - exp) <= REL * obs_mag(sites, rec["cfg"][ci - 1], o) + REL * abs(exp):
            ctx.violation(mk_key(rec, clause, ci),
                          "%s: '%s' obs%d = %r, exact lattice value %r (orders num/(c*L^pow): %s, L=%d, unit 2^%d); %s" % (
                              fam, clause, o, got, exp, [tuple(t[j:j + 3]) for j in range(0, len(t), 4)], L, rec["u"],
                              describe(rec, sites, ci)), rec)
    # bounds: sign*lo <= sign*hi
    for b in rec["bnd"]:
        clause, sg, clo, olo, chi, ohi = b
        lo = vals[(clo, olo)] if clo else 0.0
        hi = vals[(chi, ohi)]
        n += 1
        if not sg * lo <= sg * hi + REL * obs_mag(sites, rec["cfg"][chi - 1], ohi):
            ctx.violation(mk_key(rec, clause, chi),
                          "%s: bound '%s' fails: %d*%r <= %d*%r expected (cfg%d obs%d vs cfg%d obs%d); %s / %s" % (
                              fam, clause, sg, lo, sg, hi, clo, olo, chi, ohi,
                              describe(rec, sites, clo or chi), describe(rec, sites, chi)), rec)
    # StaticSite::Rotate + Translate against the spec's image
    for ri, r in enumerate(rec["rot"]):
        got = rots[ri]
        exp = sites[r[1] - 1]
        src = sites[r[0] - 1]
        n += 1
        scale = max(1.0, max(abs(x) for x in exp["Q"]))
        bad = None
        if any(abs(got[k] - exp["p"][k]) > 1e-12 * max(1.0, abs(exp["p"][k])) for k in range(3)):
            bad = "position"
        elif int(got[3]) != exp["r"]:
            bad = "rank"
        elif abs(got[4] - exp["Q"][0]) > REL * scale:
            bad = "charge"
        elif any(abs(got[5 + k] - exp["Q"][1 + k]) > REL * scale for k in range(3)):
            bad = "dipole"
        elif any(abs(got[8 + k] - exp["Q"][4 + k]) > REL * scale for k in range(5)):
            bad = "quadrupole"
        if bad:
            ctx.violation("Rotate:%s:r%d" % (bad, src["r"]),
                          "StaticSite::Rotate(g, c)+Translate(t) of %s with g=%s c=%s t=%s (lattice units) gives pos %s rank %d Q %s; "
                          "the lattice image is pos %s rank %d Q %s" % (
                              describe(rec, sites, 1).split(" -> ")[0] if r[0] == 1 else "site %d" % r[0], r[2:11], r[11:14], r[14:17],
                              got[0:3], int(got[3]), got[4:13], exp["p"], exp["r"], exp["Q"]), rec)
        elif src["k"] == 1:
            # observation only (not part of the statement): does the polarisability tensor follow the rotation?
            ctx.extra["polarisability_rotations_seen"] = ctx.extra.get("polarisability_rotations_seen", 0) + 1
            offd = max(abs(x) for x in got[16:19])
            if offd > 1e-9 or any(abs(got[13 + k] - exp["a"][k]) > 1e-9 * max(1.0, exp["a"][k]) for k in range(3)):
                ctx.extra["polarisability_rotation_differs"] = ctx.extra.get("polarisability_rotation_differs", 0) + 1
                if "polarisability_rotation_example" not in ctx.extra:
                    ctx.extra["polarisability_rotation_example"] = (
                        "PolarSite::Rotate with g=%s: diagonal polarisability %s becomes %s, g P g^T is %s "
                        "(observation outside the property statement, see spec/multipole/README.md)" % (
                            r[2:11], src["a"], got[13:16], exp["a"]))
    return n


def replay(ctx, exe, recs):
    items = []
    plans = []
    for i, rec in enumerate(recs):
        cmds, plan, sites = commands(rec)
        items.append((i, cmds))
        plans.append((plan, sites))
    # DipoleDipoleInteraction::multiply is an OpenMP loop: one thread, or 16 spinning threads per call on a loaded machine
    results, crashes = vlib.run_items(exe, items, env={"OMP_NUM_THREADS": "1"})
    ncmp = 0
    for i, rec in enumerate(recs):
        ctx.traces += 1
        ctx.nontriv((rec["fam"], json.dumps(rec["sites"][:6]), rec["u"], len(rec["cfg"]), json.dumps(rec["cfg"][0])))
        if i in crashes:
            ctx.violation("driver:crash:%s" % rec["fam"], "driver died: %s" % crashes[i], rec)
            continue
        k = check(ctx, rec, results[i], plans[i][0], plans[i][1])
        ctx.count(k)
        ncmp += k
        ctx.extra["configurations_evaluated"] = ctx.extra.get("configurations_evaluated", 0) + len(rec["cfg"])
    ctx.extra["relations_compared"] = ctx.extra.get("relations_compared", 0) + ncmp


# ------------------------------------------------------------------------------------------------
# mode H: site object histories (spec/multipole/SiteHist.tla)
# ------------------------------------------------------------------------------------------------
P_IDX, S1_IDX, S2_IDX = 100, 101, 102


def _hcall_cmd(c):
    x, op = c["x"], c["op"]
    if op == "setMultipole":
        m = c["m"]
        Q = [float(m[0]), float(m[1]), float(m[2]), float(m[3]), float(m[4])] + [v / SQ3 for v in m[5:9]]
        return "hcall %d setMultipole %d %s" % (x, c["r"], " ".join(repr(v) for v in Q))
    if op == "setCharge":
        return "hcall %d setCharge %r" % (x, float(c["q"]))
    if op == "setPos":
        return "hcall %d setPos %s" % (x, " ".join(repr(float(v)) for v in c["p"]))
    if op == "translate":
        return "hcall %d translate %s" % (x, " ".join(repr(float(v)) for v in c["p"]))
    if op == "rotate":
        g = " ".join(map(str, c["g"]))
        if c["cm"] in ("own", "partner"):
            return "hcall %d rotate %s %s" % (x, g, c["cm"])
        return "hcall %d rotate %s value %s" % (x, g, " ".join(repr(float(v)) for v in c["c"]))
    if op == "reset":
        return "hcall %d reset" % x
    src = {"S1": "site %d" % S1_IDX, "S2": "site %d" % S2_IDX, "partner": "obj %d" % (3 - x)}[c["src"]]
    return "hcall %d %s %s %s" % (x, "sfield" if op == "staticField" else "ifield", "V" if c["m"] == "V" else "N", src)


def call_name(c):
    op = c["op"]
    if op == "rotate":
        return "Rotate(centre=%s)" % {"origin": "value", "point": "value", "own": "own-getPos-reference",
                                      "partner": "partner-getPos-reference"}[c["cm"]]
    if op in ("staticField", "inducedField"):
        return "%s<%s>" % ("ApplyStaticField" if op == "staticField" else "ApplyInducedField", "V" if c["m"] == "V" else "noE_V")
    return op


def hist_commands(rec):
    """-> commands, plan.  Persistent objects 1,2; after every call: hobs, then FRESH sites 11,12 in the
    abstract state the spec gives, their energies, and one fresh source/target pair per accumulator contribution."""
    cmds = ["clear", site_cmd(P_IDX, site_real(rec["probe"], 0)), site_cmd(S1_IDX, site_real(rec["S1"], 0)),
            site_cmd(S2_IDX, site_real(rec["S2"], 0))]
    plan = [("ok", None)] * 4
    for n, st in enumerate(rec["steps"]):
        c = st["call"]
        if c["op"] == "construct":
            for x, key in ((1, "s1"), (2, "s2")):
                s = site_real(st[key]["site"], 0)
                cmds.append(site_cmd(x, s).replace("site ", "hnew ", 1))
                plan.append(("ok", None))
        else:
            cmds.append(_hcall_cmd(c))
            plan.append(("call", n))
        cmds.append("hobs %d" % P_IDX)
        plan.append(("hobs", n))
        f1, f2 = site_real(st["s1"]["site"], 0), site_real(st["s2"]["site"], 0)
        cmds += [site_cmd(11, f1), site_cmd(12, f2)]
        plan += [("ok", None)] * 2
        for (a, b) in ((11, 12), (12, 11), (11, P_IDX), (P_IDX, 11), (12, P_IDX), (P_IDX, 12)):
            cmds.append("obs 0.0 %d 1 %d 1 0" % (b, a))
            plan.append(("fresh_e", n))
        for x, key in ((1, "s1"), (2, "s2")):
            for acc in ("V", "Vn"):
                for con in st[key][acc]:
                    kind, src, tgt = con[0], con[1:21], con[21:41]
                    cmds += [site_cmd(21, site_real(src, 0)), site_cmd(22, site_real(tgt, 0))]
                    plan += [("ok", None)] * 2
                    cmds.append("obs 0.0 22 1 21 3 %s" % ("1 2 3" if kind == 0 else "19 20 21"))
                    plan.append(("fresh_v", (n, x, acc)))
    return cmds, plan


def hist_check(ctx, rec, out, plan):
    steps = rec["steps"]
    hobs = {}
    fresh_e = {}
    fresh_v = {}
    for (what, arg), lines in zip(plan, out):
        first = lines[0] if lines else "(no output)"
        if first.startswith("exc"):
            nm = call_name(steps[arg]["call"]) if what == "call" else what
            ctx.violation("history:exception:%s" % nm, "history %s: driver command threw: %s" % (
                [call_name(s["call"]) for s in steps], first), rec)
            return 0
        if what == "hobs":
            o = {}
            for ln in lines:
                p = ln.split()
                if p[0] == "o":
                    o[int(p[1])] = [float(v) for v in p[2:]]
                elif p[0] == "e":
                    o["e"] = [float(v) for v in p[1:]]
            hobs[arg] = o
        elif what == "fresh_e":
            fresh_e.setdefault(arg, []).append(float(first.split()[2]))
        elif what == "fresh_v":
            p = first.split()
            fresh_v.setdefault(arg, []).append([float(p[2]), float(p[4]), float(p[6])])
    ncmp = 0
    probe = site_real(rec["probe"], 0)
    failed = []

    def report(key, text):
        failed.append(key)
        ctx.violation(key, text, rec)

    for n, st in enumerate(steps):
        if failed:
            break       # a corrupted object stays corrupted: only the FIRST failing call of a history names the key
        c = st["call"]
        name = call_name(c)
        hist = " ; ".join("X%d.%s" % (s["call"]["x"], call_name(s["call"])) for s in steps[:n + 1])
        ab = {1: site_real(st["s1"]["site"], 0), 2: site_real(st["s2"]["site"], 0)}
        # (a) exact observables of both objects
        for x in (1, 2):
            got = hobs[n][x]
            exp = ab[x]
            who = "called" if c["x"] == x else ("other" if c["x"] else "constructed")
            scale = max(1.0, max(abs(v) for v in exp["Q"]))
            bad = None
            if any(abs(got[k] - exp["p"][k]) > 1e-12 * max(1.0, abs(exp["p"][k])) for k in range(3)):
                bad = "getPos"
            elif int(got[3]) != exp["r"]:
                bad = "getRank"
            elif any(abs(got[4 + k] - exp["Q"][k]) > REL * scale for k in range(9)):
                bad = "Q"
            elif any(abs(got[13 + k] - exp["Q"][1 + k]) > REL * scale for k in range(3)):
                bad = "getDipole"
            ncmp += 1
            if bad:
                report("history:%s:%s:%s-object:r%d" % (name, bad, who, exp["r"]),
                              "after the history [%s] object X%d (%s) has pos %s rank %d Q %s getDipole %s; the abstract state is "
                              "pos %s rank %d Q %s" % (hist, x, "PolarSite" if exp["k"] else "StaticSite", got[0:3], int(got[3]),
                                                       got[4:13], got[13:16], exp["p"], exp["r"], exp["Q"]))
        # (b) energies of the long-lived objects = energies of fresh sites in the abstract state
        names = ("E(X1,X2)", "E(X2,X1)", "E(X1,P)", "E(P,X1)", "E(X2,P)", "E(P,X2)")
        pairs = ((ab[1], ab[2]), (ab[2], ab[1]), (ab[1], probe), (probe, ab[1]), (ab[2], probe), (probe, ab[2]))
        for k in range(6):
            got, fr = hobs[n]["e"][k], fresh_e[n][k]
            S, T = pairs[k]
            R = math.sqrt(sum((S["p"][j] - T["p"][j]) ** 2 for j in range(3)))
            # the object may carry stale moments: bound with the larger of the two descriptions is not available,
            # so use a generous constant on top of the abstract norms
            mag = 200.0 * sum(R ** -m for m in range(1, 6)) * max(1.0, _norm(S)) * max(1.0, _norm(T))
            ncmp += 1
            if not abs(got - fr) <= REL * mag:
                report("history:%s:energy:%s" % (name, names[k]),
                              "after the history [%s] %s of the long-lived objects is %r, of fresh sites in the abstract state %r "
                              "(X1: pos %s rank %d Q %s; X2: pos %s rank %d Q %s)" % (
                                  hist, names[k], got, fr, ab[1]["p"], ab[1]["r"], ab[1]["Q"], ab[2]["p"], ab[2]["r"], ab[2]["Q"]))
        # (c) accumulators = sum of the listed contributions, each evaluated on a fresh pair
        for x, key in ((1, "s1"), (2, "s2")):
            if not ab[x]["k"]:
                continue
            for acc, off in (("V", 16), ("Vn", 19)):
                cons = fresh_v.get((n, x, acc), [])
                exp = [sum(v[k] for v in cons) for k in range(3)]
                mag = sum(abs(v[k]) for v in cons for k in range(3)) + 1e-3
                got = hobs[n][x][off:off + 3]
                ncmp += 1
                if any(abs(got[k] - exp[k]) > 1e-11 * mag for k in range(3)):
                    report("history:%s:accumulator:%s:%d-contributions" % (name, "V" if acc == "V" else "V_noE", len(cons)),
                                  "after the history [%s] %s of X%d is %s; the %d contribution(s) since the last Reset, each "
                                  "evaluated on a fresh source/target pair, sum to %s" % (
                                      hist, "V()" if acc == "V" else "V_noE()", x, got, len(cons), exp))
    return ncmp


def replay_hist(ctx, exe, recs):
    items = []
    plans = []
    for i, rec in enumerate(recs):
        cmds, plan = hist_commands(rec)
        items.append((i, cmds))
        plans.append(plan)
    results, crashes = vlib.run_items(exe, items, env={"OMP_NUM_THREADS": "1"})
    n = 0
    for i, rec in enumerate(recs):
        ctx.traces += 1
        ctx.nontriv(("history", json.dumps([s["call"] for s in rec["steps"]]), json.dumps(rec["steps"][0]["s1"]["site"][:6])))
        if i in crashes:
            ctx.violation("driver:crash:history", "driver died: %s" % crashes[i], rec)
            continue
        k = hist_check(ctx, rec, results[i], plans[i])
        ctx.count(k)
        n += k
    ctx.extra["history_observations_compared"] = ctx.extra.get("history_observations_compared", 0) + n
    ctx.extra["histories_replayed"] = ctx.extra.get("histories_replayed", 0) + len(recs)


# ------------------------------------------------------------------------------------------------
# many-site dipole-dipole operator (spec/multipole/DdiFamily.tla)
# ------------------------------------------------------------------------------------------------
def run_ddi(ctx, exe, recs):
    items = []
    for i, r in enumerate(recs):
        items.append((i, ["ddim %r %d %d %d %s %s %s %s %s" % (
            r["damp"] / 100.0, r["N"], r["reps"], len(r["threads"]), " ".join(map(str, r["threads"])),
            " ".join(repr(float(v)) for v in r["pos"]), " ".join(repr(float(v)) for v in r["pol"]),
            " ".join(repr(float(v)) for v in r["x"]), " ".join(repr(float(v)) for v in r["y"]))]))
    # NOT single-threaded: the clause is about the OpenMP loop in DipoleDipoleInteraction::multiply
    results, crashes = vlib.run_items(exe, items, env={"OMP_WAIT_POLICY": "passive"})
    for i, r in enumerate(recs):
        ctx.traces += 1
        ctx.nontriv(("ddi", r["N"]))
        small = {k: r[k] for k in ("fam", "N", "damp", "threads", "reps")}
        small["generator"] = "spec/multipole/DdiFamily.tla Pos/PolOf/XOf/YOf"
        if i in crashes:
            ctx.violation("driver:crash:ddi", "driver died: %s" % crashes[i], r)
            continue
        first = results[i][0][0] if results[i] and results[i][0] else "(no output)"
        if first.startswith("exc"):
            ctx.violation("exception:ddi", "DipoleDipoleInteraction on %d sites threw: %s" % (r["N"], first), r)
            continue
        p = first.split()
        team = int(p[2])
        if team < 2:
            raise vlib.InfraError("drv_multipole runs OpenMP regions with %d thread(s): built without -fopenmp or thread limit; "
                                  "the thread-independence clause would be vacuous" % team)
        ref = float(p[4])
        j = 5
        while p[j] == "thr":
            tcount, worst = int(p[j + 1]), float(p[j + 2])
            ctx.count()
            if not worst <= 1e-10 * ref:
                ctx.violation("ddi:thread-independence:N=%d" % r["N"],
                              "DipoleDipoleInteraction::multiply on %d sites: result with %d OpenMP threads differs from the "
                              "1-thread result by %.3g (max |op x| = %.3g, %d repetitions)" % (r["N"], tcount, worst, ref, r["reps"]), r)
            j += 3
        dense = float(p[j + 1])
        yax, xay = float(p[j + 3]), float(p[j + 4])
        ctx.count(2)
        if not dense <= 1e-10 * ref:
            ctx.violation("ddi:multiply=dense-thole-blocks:N=%d" % r["N"],
                          "DipoleDipoleInteraction::multiply (1 thread) on %d sites differs from the dense product of "
                          "FillTholeInteraction blocks by %.3g (max |op x| = %.3g)" % (r["N"], dense, ref), r)
        scale = ref * sum(abs(v) for v in r["y"])
        if not abs(yax - xay) <= 1e-10 * scale:
            ctx.violation("ddi:operator-symmetric:N=%d" % r["N"],
                          "y.(op x) = %r but x.(op y) = %r on %d sites" % (yax, xay, r["N"]), r)
        ctx.extra.setdefault("ddi_runs", []).append({"N": r["N"], "omp_team": team, "threads": r["threads"], "reps": r["reps"]})


def _tlc(ctx, module, what, emit=True, timeout=1500, env=None, **kw):
    res = vlib.tlc("multipole", module, cfg=module + ".cfg", workers=WORKERS, timeout=timeout, heap="4g", env=env, **kw)
    vlib.tlc_must_hold(res, what)
    ctx.add_tlc(module + ("" if not env else "[" + ",".join("%s=%s" % kv for kv in sorted(env.items())) + "]"), res)
    if emit and 2 * len(res.records) != res.distinct:
        raise vlib.InfraError("%s: vector export incomplete: %d records for %d states" % (module, len(res.records), res.distinct))
    return res.records


def run(ctx):
    bindir = vlib.ensure_build(["drv_multipole"])
    exe = bindir + "/drv_multipole"
    tier = "Quick" if ctx.quick else "Thorough"
    ctx.rule = ("mode L, relational: one vector per TLC state = one family member (2..100 sites, their configurations, "
                "integer linear relations / exact rational values / bounds between observations of the real code); "
                "non-trivial = distinct (family, base pair, unit, size)")
    ctx.assumptions += [
        "lattice: positions p*2^u with integer p, integer charges and dipoles, quadrupole components "
        "(Q20, Q21c, Q21s, Q22c, Q22s) = (s0, s1/sqrt3, .., s4/sqrt3) with integer s, s0+s3 even: closed under the 48 "
        "signed permutations; the only rounding on input is the division by sqrt3",
        "the field accumulators V/V_noE hold +dE/d(dipole) (= minus the field), as used by Cholesky_IntraSegment (b = -V); "
        "this sign is the code's convention and is fixed in the spec (README)",
        "tolerance: 1e-12 times a magnitude bound of the observations entering a relation (sum over rank blocks of "
        "|moments| * 200 * sum_k R^-k), because E itself can cancel to zero",
        "partial claim: no limit process (cluster convergence, large-separation limit), no continuous rotations "
        "(see MANIFEST note)"]

    if getattr(ctx, "replay", None):
        rec = json.load(open(ctx.replay))["replay"]
        if rec.get("fam") == "history":
            replay_hist(ctx, exe, [rec])
        elif rec.get("fam") == "ddi":
            run_ddi(ctx, exe, [rec])
        else:
            replay(ctx, exe, [rec])
        return

    _tlc(ctx, "MCGroup" + tier, "group of the cube, action on vectors and on the spherical quadrupole components", emit=False)
    what = ("MultipoleVec: images well-formed, distances/invariants preserved, every exact energy order invariant, "
            "symmetric and bilinear")
    fams = {}
    # quick: one TLC run with all families; thorough: one run per family (bounded memory)
    for env in ([None] if ctx.quick else [{"C15_FAM": f} for f in FAMILIES]):
        recs = _tlc(ctx, "MC" + tier, what, env=env)
        for fam in FAMILIES:
            ex = [r for r in recs if r["fam"] == fam]
            if not ex:
                continue
            fams[fam] = fams.get(fam, 0) + len(ex)
            ex = ex[len(ex) // 2]
            ctx.sample({"family": fam, "u": ex["u"], "sites": ex["sites"][:4], "cfg": ex["cfg"][:4],
                        "rel": ex["rel"][:3], "exact": ex["exact"][:1], "bnd": ex["bnd"][:1]})
        step = 2000     # chunks keep the driver input bounded
        for k in range(0, len(recs), step):
            replay(ctx, exe, recs[k:k + step])
        del recs
    ctx.extra["vectors_per_family"] = fams

    # many-site operator: thread independence, dense product, symmetry
    drecs = _tlc(ctx, "MCDdi", "DdiFamily: positions pairwise distinct", emit=False)
    run_ddi(ctx, exe, drecs)

    # mode H: histories of long-lived site objects
    hrecs = _tlc(ctx, "MCHist" + tier, "SiteHist: common rotation about any centre keeps distance and energy orders; Reset; setMultipole",
                 emit=False)
    ctx.sample({"history": [s["call"] for s in hrecs[len(hrecs) // 2]["steps"]],
                "abstract_state_after_last_call": hrecs[len(hrecs) // 2]["steps"][-1]["s2"]})
    step = 2000
    for k in range(0, len(hrecs), step):
        replay_hist(ctx, exe, hrecs[k:k + step])
    del hrecs
    # deeper random histories (5 calls): TLC -simulate; every successor of the 4th call is exported
    hrecs = _tlc(ctx, "MCHistDeep", "SiteHist (simulation, 5 calls)", emit=False, simulate=8 if ctx.quick else 150, depth=6,
                 seed=ctx.seed)
    for k in range(0, len(hrecs), step):
        replay_hist(ctx, exe, hrecs[k:k + step])
    del hrecs
    ctx.exhaustive = False
