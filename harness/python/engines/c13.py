"""C13 - histograms conserve weight and never write outside their bins.
spec/histogram: HistOps (index semantics, Spec vs Algo), HistIndex (mode L vectors),
Histogram (mode H state machine with history variable), HistLegacy (auto range)."""
import random
from fractions import Fraction
import vlib

ONE = 16.0

MANIFEST = dict(
        engine="histogram", design_ref="DESIGN.md 5/C13",
        technique="TLA+ spec (declarative nearest-centre bin vs transcription of Process) model-checked with TLC; "
                  "TLC-exported vectors and call histories replayed into HistogramNew/Histogram (ASan+assert driver)",
        text="TLC enumerates every lattice point (n,min,step,periodic,value) and every call history up to the "
             "configured depth; spec invariants (Algo=Spec, index in range, conservation, unit integral) hold on all "
             "of them and every exported vector/history is replayed into the real classes with bin-exact comparison, "
             "the code under test compiled with assertions and sanitizers so an out-of-range write is attributed.",
        note="Unit covariance (HistScale.tla): every history is also replayed in power-of-two axis/weight units. Trusted: TLC, the lattice argument (values k/16, bin widths 2t/16), the text driver protocol. "
             "Not modelled: Process after Normalize, normalising an empty histogram, NaN/inf inputs.")


def _new_cmd(cfg):
    mn = cfg["m"] / ONE
    mx = cfg["mx"] / ONE
    return "new %r %r %d %d" % (mn, mx, cfg["n"], 1 if cfg["per"] else 0)


def _parse_bins(lines):
    for ln in lines:
        if ln.startswith("bins"):
            p = ln.split()
            xi = p.index("x")
            return [float(t) for t in p[1:xi]], [float(t) for t in p[xi + 1:]]
    return None, None


def _exc(lines):
    for ln in lines:
        if ln.startswith("exc"):
            return ln
    return None


def run(ctx):
    bindir = vlib.ensure_build(["drv_histogram"])
    exe = bindir + "/drv_histogram"
    quick = ctx.quick
    ctx.rule = ("mode L: every (n,m,t,periodic,v) lattice point of the TLC domain is one vector (non-trivial = "
                "value outside the range or on a bin edge); mode H: every call history of the TLC model up to "
                "Depth (BFS) plus simulated deeper histories, replayed step by step")
    ctx.assumptions += [
        "lattice: 1/16 real units, bin width 2t/16; edges are lattice points; (v-min)/step+0.5 is exact or "
        ">= 1/(2s) away from an integer on this lattice",
        "driver compiles histogramnew.cc/histogram.cc with assertions, ASan and UBSan; an out-of-range access "
        "throws or aborts and is attributed to its input",
        "normalisation on an all-zero histogram and Process after Normalize are outside the model"]

    # ---- 1. index vectors (mode L) -------------------------------------------------
    mod = "MCIndexQuick" if quick else "MCIndexThorough"
    res = vlib.tlc("histogram", mod, cfg=mod + ".cfg", timeout=1500)
    vlib.tlc_must_hold(res, "HistIndex: Algo=Spec, index in range, unique cell")
    ctx.add_tlc(mod, res)
    vecs = res.records
    if len(vecs) != res.distinct:
        raise vlib.InfraError("vector export incomplete: %d of %d" % (len(vecs), res.distinct))
    items = []
    for i, r in enumerate(vecs):
        cfg = {"n": r["n"], "m": r["m"], "mx": r["mx"], "per": r["per"]}
        v = r["v"] / ONE
        cmds = [_new_cmd(cfg), "proc %r 1" % v, "dump"]
        if r["n"] >= 2 and not r["per"]:
            cmds.append("legacy %d 0 %r %r 0 0 1 %r" % (r["n"], r["m"] / ONE, r["mx"] / ONE, v))
        items.append((i, cmds))
    results, crashes = vlib.run_items(exe, items)
    for i, r in enumerate(vecs):
        ctx.count()
        mode = "periodic" if r["per"] else "open"
        inside = r["m"] <= r["v"] <= r["mx"]
        if not inside or (2 * (r["v"] - r["m"]) + r["s"]) % (2 * r["s"]) == 0:
            ctx.nontriv(("idx", r["n"], r["m"], r["t"], r["per"], r["v"]))
        if i in crashes:
            ctx.violation("HistogramNew:%s:crash" % mode, "driver aborted (memory error) on " + str(r) + " " + crashes[i], r)
            continue
        out = results[i]
        ex = _exc(out[1])
        if ex:
            side = "below" if r["v"] < r["m"] else "above"
            ctx.violation("HistogramNew:%s:oob-%s" % (mode, side), "bin access outside the histogram: %s on %s" % (ex, r), r)
            continue
        bins, xs = _parse_bins(out[2])
        exp = [0.0] * r["n"]
        if r["k"] >= 0:
            exp[r["k"]] = 1.0
        if bins != exp:
            ctx.violation("HistogramNew:%s:wrong-bin" % mode, "bins %s expected %s for %s" % (bins, exp, r), r)
        expx = [(r["m"] + k * r["s"]) / ONE for k in range(r["n"])]
        if any(not vlib.close(a, b, 1e-12, 1e-12) for a, b in zip(xs, expx)):
            ctx.violation("HistogramNew:%s:centres" % mode, "bin centres %s expected %s" % (xs, expx), r)
        if len(out) > 3:
            p = out[3][0].split() if out[3] else ["?"]
            if p[0] != "legacy":
                ctx.violation("Histogram:open:crash", "legacy histogram failed: %s" % out[3], r)
            else:
                pdf = [float(t) for t in p[4:]]
                if pdf != exp:
                    ctx.violation("Histogram:open:wrong-bin", "legacy pdf %s expected %s for %s" % (pdf, exp, r), r)
    if vecs:
        ctx.sample({"index_vector": vecs[0]})
        ctx.sample({"index_vector": vecs[len(vecs) // 2]})

    # ---- 2. legacy auto range ---------------------------------------------------------
    res = vlib.tlc("histogram", "MCLegacy", cfg="MCLegacy.cfg", timeout=600)
    vlib.tlc_must_hold(res, "HistLegacy")
    ctx.add_tlc("MCLegacy", res)
    items = []
    for i, r in enumerate(res.records):
        d = [x / 4.0 for x in r["d"]]
        items.append((i, ["legacy %d 1 0 1 0 0 %d %s" % (r["n"], len(d), " ".join(repr(x) for x in d))]))
    results, crashes = vlib.run_items(exe, items)
    for i, r in enumerate(res.records):
        ctx.count()
        sign = "neg" if r["mx"] < 0 else ("pos" if r["mn"] > 0 else "mixed")
        ctx.nontriv(("legacy", r["n"], tuple(r["d"])))
        if i in crashes:
            ctx.violation("Histogram:auto:%s:crash" % sign, "driver aborted on %s: %s" % (r, crashes[i]), r)
            continue
        p = results[i][0][0].split()
        if p[0] != "legacy":
            ctx.violation("Histogram:auto:%s:crash" % sign, "legacy histogram failed on %s: %s" % (r, results[i][0]), r)
            continue
        mn, mx = float(p[1]), float(p[2])
        if not (vlib.close(mn, r["mn"] / 4.0) and vlib.close(mx, r["mx"] / 4.0)):
            ctx.violation("Histogram:auto:%s:range" % sign,
                          "automatic range [%r,%r] but data span [%r,%r]" % (mn, mx, r["mn"] / 4.0, r["mx"] / 4.0), r)
            continue
        pdf = [float(t) for t in p[4:]]
        # expected counts; an exact edge with a non-dyadic interval may round either way
        iv = Fraction(r["mx"] - r["mn"], 4 * (r["n"] - 1))
        dy = (iv.denominator & (iv.denominator - 1)) == 0
        lo = [0] * r["n"]
        hi = [0] * r["n"]
        for b, t in zip(r["bin"], r["tie"]):
            if t and not dy:
                hi[b] += 1
                hi[b - 1] += 1
            else:
                lo[b] += 1
                hi[b] += 1
        if sum(pdf) != len(r["d"]) or any(not (l <= x <= h) for l, x, h in zip(lo, pdf, hi)):
            ctx.violation("Histogram:auto:%s:wrong-bin" % sign, "pdf %s expected between %s and %s for %s" % (pdf, lo, hi, r), r)
    if res.records:
        ctx.sample({"legacy_vector": res.records[0]})

    # ---- 2a. unit covariance: the laws are checked by TLC on the lattice, the units come from the spec ----
    ures = vlib.tlc("histogram", "MCHistScale", cfg="MCHistScale.cfg", timeout=900)
    vlib.tlc_must_hold(ures, "HistScale: bin / content / normalisation covariance under a change of units")
    ctx.add_tlc("MCHistScale", ures)
    units = [tuple(u) for r in ures.records if "units" in r for u in r["units"]]
    if len(units) < 3:
        raise vlib.InfraError("HistScale exported no units: %s" % ures.records[:3])

    # ---- 2b. legacy histogram: relations between outputs of the real code (instances and relations from TLC) ----
    #   normalised: sum(pdf)*interval = 1 and the bin ratios equal those of the un-normalised run (any scale option)
    #   reuse: an object that processed other data before gives exactly what a fresh object gives
    items = []
    recs = res.records
    for i, r in enumerate(recs):
        d = " ".join(repr(x / 4.0) for x in r["d"])
        d2 = " ".join(repr(x / 4.0) for x in r["d2"])
        fresh = lambda norm: "legacyx %d 0 %d %s 0 %d %s" % (r["n"], norm, r["sc"], len(r["d"]), d)
        cmds = [fresh(0), fresh(1)]
        if r["d2"]:
            cmds.append("legacyx %d 0 1 %s %d %s %d %s" % (r["n"], r["sc"], len(r["d2"]), d2, len(r["d"]), d))
        else:
            cmds.append("")
        # the same data in another axis unit (power of two): same counts, normalised values divided by the unit
        ea = [u[0] for u in units if u[0] != 0][i % len([u for u in units if u[0] != 0])]
        ds = " ".join(repr(x / 4.0 * 2.0 ** ea) for x in r["d"])
        cmds.append("legacyx %d 0 0 no 0 %d %s" % (r["n"], len(r["d"]), ds))
        cmds.append("legacyx %d 0 1 no 0 %d %s" % (r["n"], len(r["d"]), ds))
        # empty arrays in the selection (filled before, then cleared) contribute nothing: same answer as the data alone
        cmds.append("legacym %d 1 %d %r %d %s" % (r["n"], 1 + i % 2, 1000.0 if i % 4 < 2 else -1000.0, len(r["d"]), d))
        # a default-constructed object = an object constructed from default options
        cmds.append("legacyd %d %s" % (len(r["d"]), d))
        cmds.append("legacyx 101 0 1 no 0 %d %s" % (len(r["d"]), d))
        items.append((i, cmds))
    results, crashes = vlib.run_items(exe, items)
    n_rel = 0
    for i, r in enumerate(recs):
        ctx.count()
        sc = r["sc"]
        if i in crashes:
            what = "default-ctor" if "legacyd" in str(crashes[i]) else sc
            ctx.violation("Histogram:%s:crash" % what, "driver aborted on %s: %s" % (r, crashes[i]), r)
            continue
        out = [x[0].split() if x else ["?"] for x in results[i]]
        blank = [k for k, cmd in enumerate(items[i][1]) if cmd == ""]
        out = [o for k, o in enumerate(out) if k not in blank]
        had_reuse = not blank
        dflt, dflt_ref = out[-2], out[-1]
        multi = out[-3]
        sraw, snrm = out[-5], out[-4]
        out = out[:-5]
        if sc == "no" and multi[0] == "legacy" and len(out) > 1 and out[1][0] == "legacy" and multi[1:] != out[1][1:]:
            ctx.violation("Histogram:selection:empty-array", "a selection with empty (cleared) arrays next to the data gives %s, the data alone %s"
                          % (multi[1:6], out[1][1:6]), r)
        elif multi[0] != "legacy":
            ctx.violation("Histogram:selection:empty-array:exception", "selection with empty arrays failed on %s: %s" % (r, multi), r)
        if dflt[0] != "legacy":
            ctx.violation("Histogram:default-ctor:exception", "default-constructed legacy histogram failed on %s: %s" % (r, dflt), r)
        elif dflt[1:] != dflt_ref[1:]:
            ctx.violation("Histogram:default-ctor:differs", "default-constructed object gives %s, an object built from default options %s"
                          % (dflt[1:8], dflt_ref[1:8]), r)
        if any(o[0] != "legacy" for o in out + [sraw, snrm]):
            ctx.violation("Histogram:%s:exception" % sc, "legacy histogram failed on %s: %s" % (r, results[i]), r)
            continue
        raw = [float(t) for t in out[0][4:]]
        nrm = [float(t) for t in out[1][4:]]
        iv = float(out[1][3])
        n_rel += 1
        if not vlib.close(sum(nrm) * iv, 1.0, 1e-12, 0):
            ctx.violation("Histogram:normalize:%s:integral" % sc, "sum(pdf)*interval = %r, not 1, for %s" % (sum(nrm) * iv, r), r)
        elif any(not vlib.close(nrm[a] * raw[b], nrm[b] * raw[a], 1e-12, 1e-300) for a in range(len(raw)) for b in range(a)):
            ctx.violation("Histogram:normalize:%s:ratios" % sc, "normalisation changed the bin ratios: %s vs %s for %s" % (nrm, raw, r), r)
        ea = [u[0] for u in units if u[0] != 0][i % len([u for u in units if u[0] != 0])]
        a = 2.0 ** ea
        if r["mx"] != r["mn"]:
            sr = [float(t) for t in sraw[4:]]
            sn = [float(t) for t in snrm[4:]]
            raw0 = [float(t) for t in out[0][4:]] if sc == "no" else None
            if raw0 is None:
                pass   # bond/angle scaling of the raw run is not unit covariant; the scaled runs use scale "no" and are compared with each other
            elif sr != raw0:
                ctx.violation("Histogram:unit-covariance:counts", "data times 2^%d gives counts %s, unscaled %s for %s" % (ea, sr, raw0, r), r)
            if not vlib.close(sum(sn) * float(snrm[3]), 1.0, 1e-12, 0):
                ctx.violation("Histogram:unit-covariance:integral", "data times 2^%d: sum(pdf)*interval = %r for %s" % (ea, sum(sn) * float(snrm[3]), r), r)
            elif any(not vlib.close(sn[x] * sr[y], sn[y] * sr[x], 1e-12, 0) for x in range(len(sr)) for y in range(x)):
                ctx.violation("Histogram:unit-covariance:ratios", "data times 2^%d: normalisation changed the bin ratios %s vs %s for %s" % (ea, sn, sr, r), r)
        if had_reuse:
            ctx.traces += 1
            if out[2][1:] != out[1][1:]:
                ctx.violation("Histogram:reuse:%s" % sc, "an object that processed %s before gives %s, a fresh object %s" % (r["d2"], out[2][1:], out[1][1:]), r)
    ctx.extra["legacy_relations_checked"] = n_rel

    # ---- 3. histories (mode H) ----------------------------------------------------------
    hists = []
    mod = "MCHistQuick" if quick else "MCHistThorough"
    res = vlib.tlc("histogram", mod, cfg=mod + ".cfg", timeout=1500, coverage=False)
    vlib.tlc_must_hold(res, "Histogram state machine invariants")
    ctx.add_tlc(mod, res)
    hists += res.records
    res = vlib.tlc("histogram", "MCHistDeep", cfg="MCHistDeep.cfg", timeout=1500)
    vlib.tlc_must_hold(res, "Histogram state machine invariants (depth 5, small alphabet)")
    ctx.add_tlc("MCHistDeep", res)
    hists += res.records
    nsim = 320 if quick else 8000   # traces; every successor of the last step is exported too
    res = vlib.tlc("histogram", "MCHistSim", cfg="MCHistSim.cfg", timeout=1500, simulate=nsim // 4, depth=9,
                   workers=4, seed=ctx.seed)
    vlib.tlc_must_hold(res, "Histogram simulation")
    ctx.add_tlc("MCHistSim(simulate)", res)
    hists += res.records
    # every history is replayed twice: in the lattice's own units and in one of the spec's other units (HistScale);
    # a history that ever has a single bin keeps the axis unit (Initialize_ forces step_ = 1 there)
    nh = len(hists)
    def _unit(i, r):
        if i < nh:
            return (0, 0)
        one_bin = r["cfg"]["n"] == 1 or any(op["a"] == "reinit" and op["n"] == 1 for op in r["h"])
        cand = [u for u in units if u[0] == 0] if one_bin else units
        return cand[i % len(cand)]
    hists = hists + hists
    items = []
    for i, r in enumerate(hists):
        ea, ew = _unit(i, r)
        A, W = 2.0 ** ea, 2.0 ** ew
        c0 = r["cfg"]
        cmds = ["new %r %r %d %d" % (c0["m"] / ONE * A, c0["mx"] / ONE * A, c0["n"], 1 if c0["per"] else 0)]
        for op in r["h"]:
            if op["a"] == "proc":
                cmds.append("proc %r %r" % (op["v"] / ONE * A, op["w"] * W))
            elif op["a"] == "norm":
                cmds.append("norm")
            elif op["a"] == "reinit":
                cmds.append("reinit %r %r %d %d" % (op["m"] / ONE * A, op["mx"] / ONE * A, op["n"], 1 if op["per"] else 0))
            else:
                cmds.append("clear")
            cmds.append("dump")
        items.append((i, cmds))
    results, crashes = vlib.run_items(exe, items)
    for i, r in enumerate(hists):
        ea, ew = _unit(i, r)
        A, W = 2.0 ** ea, 2.0 ** ew
        ukey = "" if (ea, ew) == (0, 0) else ":unit-covariance"
        ctx.traces += 1
        ctx.nontriv(("hist", ea, ew, str(r["cfg"]), str([(o["a"], o.get("v"), o.get("w")) for o in r["h"]])))
        mode = "periodic" if r["cfg"]["per"] else "open"
        if i in crashes:
            ctx.violation("HistogramNew:%s:history-crash" % mode, "driver aborted: " + crashes[i], r)
            continue
        out = results[i]
        normed = False
        cur_m = r["cfg"]["m"]
        for j, op in enumerate(r["h"]):
            if op["a"] == "reinit":
                mode = "periodic" if op["per"] else "open"
                cur_m = op["m"]
            ex = _exc(out[1 + 2 * j])
            if ex:
                side = "below" if op.get("v", 0) < cur_m else "above"
                ctx.violation("HistogramNew:%s:oob-%s" % (mode, side), "history step %d (%s): %s" % (j, op, ex), r)
                break
            bins, _ = _parse_bins(out[2 + 2 * j])
            if op["a"] == "norm":
                exp = [b * ONE / op["den"] / A for b in op["b"]]
                kind = "normalize" + ukey
            else:
                exp = [float(b) * W for b in op["b"]]
                kind = ("clear" if op["a"] == "clear" else "reinit" if op["a"] == "reinit" else "weight") + ukey
            if bins is None or len(bins) != len(exp) or any(not vlib.close(a, b, 1e-12, 0) for a, b in zip(bins, exp)):
                ctx.violation("HistogramNew:%s:%s" % (mode, kind), "history step %d (%s): bins %s expected %s" % (j, op, bins, exp), r)
                break
    if hists:
        ctx.sample({"history": hists[0]})
        ctx.sample({"history": hists[-1]})

    # ---- 4. far-out random values (thorough only; spec = SpecBin evaluated by TLC on a trace file) --
    ctx.exhaustive = False
