"""C04 - csg_stat distributions equal an independent recomputation from the trajectory.
spec/statimc: FrameHist (per-frame histograms from a lattice configuration by brute-force minimum
image and the nearest-centre rule), Scenarios (input families), StatImc (history spec of class Imc with
the exact contents of every written file).  Binding at executable level: every finished behaviour of the
model is one run of the real csg_stat on generated topol.xml / settings.xml / trajectory / targets."""
import math
import os
import shutil
import subprocess
import json
from concurrent.futures import ThreadPoolExecutor
from fractions import Fraction
from decimal import Decimal
import vlib

MANIFEST = dict(
    engine="statimc", design_ref="DESIGN.md 5/C04",
    technique="TLA+ history spec of Imc (BeginEvaluate/MergeFrame/WriteBlock/ClearAverages/EndEvaluate) with "
              "exact rational file contents, model-checked with TLC; every finished TLC behaviour is replayed as a "
              "run of the real csg_stat executable on generated inputs and all written files are compared",
    text="TLC builds small lattice set-ups (one/two bead types, molecules with bonds and an angle, three-body "
         "clusters, skewed triclinic boxes; 3-4 frames with a different box per frame; planted distances just "
         "below a range with min > 0, guarded by spec-internal invariants), computes every frame histogram itself by "
         "brute-force minimum image and the nearest-centre rule, and steps the Imc state machine over every "
         "prefix of the trajectory, every --first-frame/--block-length of the model; invariants (running-mean "
         "identity, symmetric IMC matrix, block independence incl. the volume average) hold on all states, and "
         "for every finished behaviour the real csg_stat is run (--nframes/--first-frame/--block-length/--do-imc/"
         "--include-intra/--nt 1..3, .gro or .dump) and *.dist.new, block files, .imc/.gmc/.idx/.S/.cor are "
         "compared value by value with the TLC-emitted exact rationals at the printed precision.",
    note="Trusted: TLC, the lattice argument (positions k/8 nm, bin layouts k/32 nm or rad: every edge decision "
         "is exact or far from an edge), the brackets 103993/33102 < pi < 355/113, Python's Fraction/float "
         "conversion, the XML/gro/dump writers of the check. Not covered: triclinic boxes with tilted c, force "
         "histograms, dS rows of bonded members of IMC groups, mapping (--cg; see C01), overlapping wildcard selections, --begin.")

PI = math.pi
INPUT_FILES = {"topol.xml", "settings.xml", "traj.gro", "traj.dump", "stdout.txt"}


# ------------------------------------------------------------------------------------------------
# input generation (from the TLC record only)
# ------------------------------------------------------------------------------------------------
# thread counts cycled over the runs (set by run(): quick 1..3, thorough up to 8; frames < threads occurs)
NT_CYCLE = [1, 2, 3]


def q2real(v, den=4):
    """v q-units (8*den per nm or rad) as an exact decimal string"""
    d = Decimal(v) / Decimal(8 * den)
    t = format(d, "f")
    return t.rstrip("0").rstrip(".") if "." in t else t


def write_inputs(run, d, use_dump, nbsearch=None):
    mols = run["mols"]
    with open(os.path.join(d, "topol.xml"), "w") as f:
        f.write("<topology>\n <molecules>\n")
        for m in mols:
            f.write('  <molecule name="%s" nmols="%d" nbeads="%d">\n' % (m["name"], m["nmols"], len(m["beads"])))
            for b in m["beads"]:
                f.write('   <bead name="%s" type="%s" mass="1" q="0"/>\n' % (b["name"], b["type"]))
            f.write("  </molecule>\n")
        f.write(" </molecules>\n")
        if run["bonded"]:
            f.write(" <bonded>\n")
            for b in run["bonded"]:
                beads = " ".join("%s:%s" % (b["mol"], nm) for tup in b["beads"] for nm in tup)
                f.write("  <%s><name>%s</name><beads>%s</beads></%s>\n" % (b["kind"], b["name"], beads, b["kind"]))
            f.write(" </bonded>\n")
        f.write("</topology>\n")
    with open(os.path.join(d, "settings.xml"), "w") as f:
        f.write("<cg>\n")
        if nbsearch:
            f.write(" <nbsearch>%s</nbsearch>\n" % nbsearch)
        for it in run["inter"]:
            den = it["den"]
            # families 8/9 give the range and step as written by the user (not a multiple of the step)
            mx = it.get("umaxq", it["mq"] + (it["n"] - 1) * it["sq"])
            ust = it.get("usq", it["sq"])
            dec = it["mq"] + (it["decoy"] - 1) * it["sq"]
            grp = "<inverse><imc><group>%s</group></imc></inverse>" % it["group"]
            if it["kind"] in ("nb", "3b"):
                f.write(" <non-bonded><name>%s</name>" % it["name"])
                for j, t in enumerate(it["t"]):
                    f.write("<type%d>%s</type%d>" % (j + 1, t, j + 1))
                if it["kind"] == "3b":
                    f.write("<threebody>1</threebody><cut>%s</cut>" % q2real(it["cutq"]))
                if run["intra"]:
                    f.write("<min>%s</min><max>%s</max><max_intra>%s</max_intra><step>%s</step>" % (
                        q2real(it["mq"], den), q2real(dec, den), q2real(mx, den), q2real(ust, den)))
                else:
                    f.write("<min>%s</min><max>%s</max><max_intra>%s</max_intra><step>%s</step>" % (
                        q2real(it["mq"], den), q2real(mx, den), q2real(dec, den), q2real(ust, den)))
                f.write(grp + "</non-bonded>\n")
            else:
                f.write(" <bonded><name>%s</name><min>%s</min><max>%s</max><step>%s</step>%s</bonded>\n" % (
                    it["name"], q2real(it["mq"], den), q2real(mx, den), q2real(ust, den), grp))
        f.write("</cg>\n")
    if use_dump:
        with open(os.path.join(d, "traj.dump"), "w") as f:
            for fi, fr in enumerate(run["frames"]):
                f.write("ITEM: TIMESTEP\n%d\nITEM: NUMBER OF ATOMS\n%d\nITEM: BOX BOUNDS pp pp pp\n" % (fi, len(fr["pos"])))
                for c in range(3):
                    f.write("0 %.2f\n" % (fr["box"][c] * 1.25))
                f.write("ITEM: ATOMS id type x y z\n")
                for i, p in enumerate(fr["pos"]):
                    f.write("%d 1 %.2f %.2f %.2f\n" % (i + 1, p[0] * 1.25, p[1] * 1.25, p[2] * 1.25))
    else:
        with open(os.path.join(d, "traj.gro"), "w") as f:
            for fi, fr in enumerate(run["frames"]):
                f.write("frame %d\n%5d\n" % (fi, len(fr["pos"])))
                for i, p in enumerate(fr["pos"]):
                    f.write("%5d%-5s%5s%5d%8.3f%8.3f%8.3f\n" % (i + 1, "X", "X", i + 1, p[0] / 8.0, p[1] / 8.0, p[2] / 8.0))
                bx = fr["box"]
                if len(bx) == 3:
                    f.write("%10.5f%10.5f%10.5f\n" % tuple(x / 8.0 for x in bx))
                else:   # triclinic <<ax,by,cz,bx,cx,cy>> -> v1(x) v2(y) v3(z) v1(y) v1(z) v2(x) v2(z) v3(x) v3(y)
                    vals = (bx[0], bx[1], bx[2], 0, 0, bx[3], 0, bx[4], bx[5])
                    f.write("".join("%10.5f" % (x / 8.0) for x in vals) + "\n")
    tg = []
    if run["doimc"]:
        for it in run["inter"]:
            if it["group"] != "none":        # csg_stat loads a target for every member of an IMC group
                nm = it["name"] + ".dist.tgt"
                tg.append(nm)
                with open(os.path.join(d, nm), "w") as f:
                    for k in range(it["n"]):
                        f.write("%s %s i\n" % (q2real(it["mq"] + k * it["sq"], it["den"]), repr(it["tgt"][k] / 8.0)))
    return tg


def command(exe, run, use_dump, nt, omit_nframes):
    cmd = [exe, "--top", "topol.xml", "--trj", "traj.dump" if use_dump else "traj.gro", "--options", "settings.xml",
           "--nt", str(nt)]
    if run["doimc"]:
        cmd.append("--do-imc")
    if run["intra"]:
        cmd.append("--include-intra")
    if run["block"]:
        cmd += ["--block-length", str(run["block"])]
    if run["first"]:
        cmd += ["--first-frame", str(run["first"])]
    if not omit_nframes:
        cmd += ["--nframes", str(run["nframes"])]
    if run.get("ext", "dist.new") != "dist.new":
        cmd += ["--ext", run["ext"]]
    return cmd


# ------------------------------------------------------------------------------------------------
# exact values -> reals
# ------------------------------------------------------------------------------------------------
def prod(xs):
    r = 1
    for x in xs:
        r *= x
    return r


def value(terms):
    """sum of prod(n)/prod(d) * pi^p; returns (value, sum of |terms|)"""
    v = 0.0
    mag = 0.0
    for t in terms:
        x = float(Fraction(prod(t["n"]), prod(t["d"]))) * (PI ** t["p"])
        v += x
        mag += abs(x)
    return v, mag


def near(obs, exp, rel, mag=0.0):
    if exp == 0.0 and mag == 0.0:
        return abs(obs) <= 1e-12
    return abs(obs - exp) <= rel * abs(exp) + 1e-13 * mag


def read_table(path):
    rows = []
    for ln in open(path):
        ln = ln.strip()
        if not ln or ln.startswith("#"):
            continue
        rows.append(ln.split())
    return rows


# ------------------------------------------------------------------------------------------------
# one run
# ------------------------------------------------------------------------------------------------
def execute(exe, base, idx, run):
    d = os.path.join(base, "run%05d" % idx)
    shutil.rmtree(d, ignore_errors=True)
    os.makedirs(d)
    idx = run.get("idx", idx)              # a replayed record carries the index its input choices came from
    # trajectory format / thread count / explicit --nframes are inputs chosen from the run index
    use_dump = (not run["tie"]) and run["kind"] in (1, 2, 5) and idx % 3 == 2
    nt = run.get("nt", NT_CYCLE[idx % len(NT_CYCLE)])
    nfirst = max(run["first"], 1)
    omit = run.get("err", False) or ((run["nframes"] == len(run["frames"]) - nfirst + 1) and idx % 2 == 1)
    # cg.nbsearch: absent (grid), "grid" or "simple" - the stated result does not depend on it
    nbsearch = run.get("nbsearch", (None, "grid", "simple", None, "simple")[idx % 5])
    tgts = write_inputs(run, d, use_dump, nbsearch)
    cmd = command(exe, run, use_dump, nt, omit)
    try:
        p = subprocess.run(cmd, cwd=d, stdout=subprocess.PIPE, stderr=subprocess.STDOUT, text=True, timeout=120)
        rc, out = p.returncode, p.stdout
    except subprocess.TimeoutExpired:
        rc, out = -999, "TIMEOUT"
    with open(os.path.join(d, "stdout.txt"), "w") as f:
        f.write(out)
    run["_choice"] = dict(nt=nt, nbsearch=nbsearch, dump=use_dump)
    return d, cmd, rc, out, set(tgts)


def blkclass(b):
    return "final" if b == 0 else ("blk1" if b == 1 else "blkN")


def compare(ctx, run, d, rc, out, tgts):
    """returns list of (key, text)"""
    bad = []
    if rc == -999:
        raise vlib.InfraError("csg_stat timed out in %s" % d)
    if run.get("err", False):
        # --first-frame beyond the trajectory: documented error, non-zero exit status, nothing written
        ctx.count()
        present = set(os.listdir(d)) - INPUT_FILES - tgts
        if rc == 0:
            bad.append(("run:first-frame-beyond-end:exit0", "csg_stat exit status 0 although the first frame %d lies "
                        "beyond the trajectory (%d frames)" % (run["first"], len(run["frames"]))))
        if present:
            bad.append(("run:first-frame-beyond-end:files", "files written by a failed run: %s" % sorted(present)))
        if rc != 0 and "too short" not in out:
            bad.append(("run:first-frame-beyond-end:message", "unexpected error text: %s" % out[-300:]))
        return bad
    if rc != 0:
        return [("run:%s:exit" % ("block" if run["block"] else "final"),
                 "csg_stat exit status %s: %s" % (rc, out[-400:]))]
    expected = {f["name"]: f for f in run["files"]}
    present = set(os.listdir(d)) - INPUT_FILES - tgts
    for nm in sorted(set(expected) - present):
        f = expected[nm]
        bad.append(("files:%s:%s:missing" % (f["kind"], blkclass(f["blk"])), "file %s was not written" % nm))
    for nm in sorted(present - set(expected)):
        bad.append(("files:extra", "unexpected file %s" % nm))
    for nm in sorted(set(expected) & present):
        f = expected[nm]
        key = "%s:%s:%s" % (f["kind"], f["ik"], blkclass(f["blk"]))
        rows = read_table(os.path.join(d, nm))
        kind = f["kind"]
        try:
            if kind != "idx":
                ncol = 2 if kind in ("dist", "imc", "S") else len(f["num"])
                if any(len(r) < ncol for r in rows):
                    raise ValueError("short row")
                [[float(t) for t in r[:ncol]] for r in rows]
        except ValueError as e:
            bad.append((key + ":format", "%s is not a numeric table (%s)" % (nm, e)))
            continue
        if kind in ("dist", "imc", "S"):
            n = len(f["x"])
            if len(rows) != n:
                bad.append((key + ":rows", "%s has %d rows, expected %d" % (nm, len(rows), n)))
                continue
            rel = 1e-9 if kind == "dist" else 1e-7
            for k in range(n):
                ctx.count()
                x = float(rows[k][0])
                y = float(rows[k][1])
                ex = f["x"][k] / float(f["xd"][k])
                if not near(x, ex, rel) and abs(x - ex) > 1e-12:
                    bad.append((key + ":x", "%s row %d: x=%r expected %r" % (nm, k, x, ex)))
                    break
                if kind == "imc" and not f["cmp"][k]:
                    continue      # dS of a bonded group member: not defined by the statement
                if kind == "S":
                    ev, mag = f["num"][k] / float(prod(f["den"])), 0.0
                    ok = abs(y - ev) <= 1e-7 * abs(ev) + 1e-9
                else:
                    ev, mag = value(f["y"][k])
                    ok = near(y, ev, rel, mag)
                if not ok:
                    bad.append((key + ":value", "%s row %d (x=%r): written %r, stated value %.12g (ratio %s)" % (
                        nm, k, x, y, ev, ("%.9g" % (y / ev)) if ev else "-")))
                    break
        elif kind in ("gmc", "cor"):
            n = len(f["num"])
            if len(rows) != n or any(len(r) != n for r in rows):
                bad.append((key + ":rows", "%s is not a %dx%d matrix" % (nm, n, n)))
                continue
            den = float(prod(f["den"]))
            stop = False
            for i in range(n):
                for j in range(n):
                    if kind == "cor" and f["blockof"][i] > f["blockof"][j]:
                        continue      # lower blocks of the raw correlation are not specified
                    ctx.count()
                    ev = f["num"][i][j] / den
                    y = float(rows[i][j])
                    if abs(y - ev) > 1e-7 * abs(ev) + 1e-9:
                        what = "value"
                        if kind == "gmc" and abs(float(rows[j][i]) - y) > 1e-7 * abs(y) + 1e-9:
                            what = "asymmetric"
                        bad.append((key + ":" + what, "%s entry (%d,%d): written %r, stated value %.9g" % (nm, i, j, y, ev)))
                        stop = True
                        break
                if stop:
                    break
        elif kind == "idx":
            exp = ["%s %d:%d" % (r["name"], r["lo"], r["hi"]) for r in f["rows"]]
            got = [" ".join(r) for r in rows]
            ctx.count()
            if exp != got:
                bad.append((key + ":value", "%s: %s expected %s" % (nm, got, exp)))
    return bad


def compare_any(ctx, run, d, rc, out, tgts):
    """compare(); a run of a range that is not a multiple of the step (family 8) may agree with either of the two
    admissible bin layouts: its record carries the other reading (family 9, same inputs) as run["alt"]"""
    bad = compare(ctx, run, d, rc, out, tgts)
    if bad and run.get("alt"):
        if not compare(ctx, run["alt"], d, rc, out, tgts):
            return []
        return [("noncommensurate:" + k, t + " (and the stretched-layout reading does not fit either)") for k, t in bad]
    return bad


def slim(run, cmd, idx):
    r = dict(run)
    r["cmd"] = cmd[1:]
    r["idx"] = idx
    r["nt"] = int(cmd[cmd.index("--nt") + 1])
    ch = r.pop("_choice", None)
    if ch:
        r["nbsearch"] = ch["nbsearch"]
    return r


def run(ctx):
    global NT_CYCLE
    NT_CYCLE = [1, 2, 3, 1, 2, 3, 6] if ctx.quick else [1, 2, 3, 4, 5, 8, 2]
    bindir = vlib.ensure_build(["csg_stat"])
    exe = os.path.join(bindir, "csg_stat")
    quick = ctx.quick
    ctx.rule = ("one replayed behaviour = one finished run of the StatImc model (scenario x --first-frame x "
                "--block-length x number of merged frames) executed with the real csg_stat; non-trivial = more than "
                "one merged frame or block output; an evaluation = one compared number of an output file")
    ctx.assumptions += [
        "lattice: positions and orthorhombic boxes in 1/8 nm (exact in .gro text), bin min/step in 1/32 nm or 1/32 rad "
        "(dyadic: (v-min)/step+0.5 is exact on an edge and >= 1e-4 away otherwise)",
        "angles restricted to multiples of pi/12; bins decided with 103993/33102 < pi < 355/113",
        "the lower blocks of the raw .cor matrix are unspecified and not compared",
        ".dump trajectories only for scenarios without a distance exactly on a bin edge (ang2nm scaling is inexact)",
        "max + step/2 may exceed half the box only in the first-frame sense the program itself checks (max <= L/2)"]

    base = os.path.join(vlib.SCRATCH, "c04-%d" % os.getpid())
    os.makedirs(base, exist_ok=True)

    # ---- design level: the shipped ClearAverages (volume not restarted) violates block independence
    if True:
        res = vlib.tlc("statimc", "MCStat", cfg="MCStatBug.cfg", timeout=600,
                       env={"C04_KINDS": 5, "C04_SEED0": 1, "C04_NSEED": 1})
        if res.ok or "BlockIndependent" not in (res.violation or ""):
            raise vlib.InfraError("MCStatBug: TLC did not report the expected BlockIndependent violation: %s" % res.violation)
        ctx.add_tlc("MCStatBug(expected violation of BlockIndependent)", res)
    if getattr(ctx, "replay", None):
        rec = json.load(open(ctx.replay))["replay"]
        rec.pop("cmd", None)
        runs = [rec]
    else:
        # ---- the model proper
        nseed = 3 if quick else 40
        seed0 = 1 + (ctx.seed - 1) * 1000
        runs = []
        chunk = nseed if quick else 10
        for s0 in range(seed0, seed0 + nseed, chunk):
            ns = min(chunk, seed0 + nseed - s0)
            res = vlib.tlc("statimc", "MCStat", cfg="MCStat.cfg", timeout=2400,
                           env={"C04_KINDS": 123456789 if s0 == seed0 else 12346789, "C04_SEED0": s0, "C04_NSEED": ns,
                                "C04_WIDE": 0 if quick else 1})
            vlib.tlc_must_hold(res, "StatImc: ScenarioOK (incl. vacuity guards), RunningMean, GmcSymmetric, BlockIndependent, FinalIsFresh")
            ctx.add_tlc("MCStat seeds %d..%d" % (s0, s0 + ns - 1), res, constants={"Blocks": [0, 1, 2, 3] + ([] if quick else [4]), "Firsts": [0, 2, 9] if quick else [0, 1, 2, 3, 9]})
            runs += res.records
        if not runs:
            raise vlib.InfraError("TLC exported no runs")
        # family 9 = the second admissible reading of the inputs of family 8: attach, do not run twice
        okey = lambda r: (r["seed"], r["first"], r["block"], r["nframes"], r["err"])
        alt = {okey(r): r for r in runs if r["kind"] == 9}
        runs = [r for r in runs if r["kind"] != 9]
        for r in runs:
            if r["kind"] == 8:
                if okey(r) not in alt:
                    raise vlib.InfraError("no family-9 partner for %s" % (okey(r),))
                a = alt[okey(r)]
                if [(x["umaxq"], x["usq"], x["mq"]) for x in a["inter"]] != [(x["umaxq"], x["usq"], x["mq"]) for x in r["inter"]] \
                        or a["frames"] != r["frames"]:
                    raise vlib.InfraError("families 8 and 9 differ in their inputs")
                r["alt"] = a
        runs.sort(key=lambda r: (r["kind"], r["seed"], r["first"], r["block"], r["nframes"]))

    def work(a):
        i, r = a
        return execute(exe, base, i, r)

    with ThreadPoolExecutor(max_workers=vlib.NCPU) as ex:
        outs = list(ex.map(work, list(enumerate(runs))))

    kinds = {1: "same", 2: "two", 3: "mol", 4: "3b", 5: "probe", 6: "tric", 7: "chain", 8: "nc"}
    for i, (r, (d, cmd, rc, out, tgts)) in enumerate(zip(runs, outs)):
        ctx.traces += 1
        if r["nframes"] > 1 or r["block"]:
            ctx.nontriv((r["kind"], r["seed"], r["first"], r["block"], r["nframes"]))
        bad = compare_any(ctx, r, d, rc, out, tgts)
        if bad:
            # re-run once from the recorded artefact before reporting
            ra = dict(r)
            ra["idx"] = r.get("idx", i)
            d2, cmd2, rc2, out2, tg2 = execute(exe, base, 100000 + i, ra)
            bad2 = compare_any(ctx, r, d2, rc2, out2, tg2)
            # a confirmed mismatch of a multi-threaded run is classified by a single-threaded run of the same
            # input: if that one agrees with the model the failing class is "threads:<key>"
            single = None
            if "--nt" in cmd and cmd[cmd.index("--nt") + 1] != "1":
                r1 = dict(r)
                r1["nt"] = 1
                r1["idx"] = i
                d3, cmd3, rc3, out3, tg3 = execute(exe, base, 200000 + i, r1)
                single = {k3 for k3, _ in compare_any(ctx, r1, d3, rc3, out3, tg3)}
            for key, text in bad:
                if any(k2 == key for k2, _ in bad2):
                    k = key if single is None or key in single else "threads:" + key
                    ctx.violation(k, "%s [scenario %s seed %d, %s]" % (text, kinds[r["kind"]], r["seed"], " ".join(cmd[1:])),
                                  slim(r, cmd, i))
        if i % max(1, len(runs) // 5) == 0:
            ctx.sample({"scenario": kinds[r["kind"]], "seed": r["seed"], "cmd": " ".join(cmd[1:]),
                        "frame_histograms": r["fh"], "files": [f["name"] for f in r["files"]]})
    shutil.rmtree(base, ignore_errors=True)
    ctx.exhaustive = False
    # ---- vacuity guard (engine side): every layer of the check really occurred in this tier
    def kinds_of(r):
        return {it["kind"] for it in r["inter"]}
    layers = {
        "threads_exceed_frames": sum(1 for r in runs if not r.get("err") and r["_choice"]["nt"] > r["nframes"]),
        "nbsearch_simple_with_3body": sum(1 for r in runs if r["_choice"]["nbsearch"] == "simple" and "3b" in kinds_of(r)),
        "nbsearch_simple": sum(1 for r in runs if r["_choice"]["nbsearch"] == "simple"),
        "lammps_dump": sum(1 for r in runs if r["_choice"]["dump"]),
        "ext_option": sum(1 for r in runs if r.get("ext", "dist.new") != "dist.new" and r["files"]),
        "first_frame_beyond_end": sum(1 for r in runs if r.get("err")),
        "dihedral": sum(1 for r in runs if "dihedral" in kinds_of(r) and r["files"]),
        "wildcard_types": sum(1 for r in runs if any("*" in t for it in r["inter"] for t in it["t"]) and r["files"]),
        "decimal_step": sum(1 for r in runs if any(it["den"] != 4 for it in r["inter"]) and r["files"]),
        "bonded_in_imc_group": sum(1 for r in runs if r["doimc"] and r["files"] and
                                   any(it["kind"] == "bond" and it["group"] != "none" for it in r["inter"])),
        "triclinic_box": sum(1 for r in runs if any(len(fr["box"]) == 6 for fr in r["frames"]) and r["files"]),
        "include_intra": sum(1 for r in runs if r["intra"] and r["files"]),
        "block_output": sum(1 for r in runs if r["block"] and r["files"]),
        "range_not_multiple_of_step": sum(1 for r in runs if r.get("alt") and r["files"]),
        "pair_in_outer_quarter_of_last_bin": sum(1 for r in runs if r.get("outer") and r["files"]),
        "two_bin_range": sum(1 for r in runs if r["files"] and any(it["n"] == 2 for it in r["inter"])),
    }
    ctx.extra["layer_runs"] = layers
    if not getattr(ctx, "replay", None):
        empty = [k for k, v in layers.items() if v == 0]
        if empty:
            raise vlib.InfraError("vacuous check: no run exercised %s" % ", ".join(empty))
