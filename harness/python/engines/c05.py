"""C05 - threaded trajectory analysis is schedule- and thread-count-independent.
spec/threaded_frames: ThreadedFrames.tla (one action per yield point of the real
dispatcher), TraceTF.tla (trace validation), Seek.tla (frame selection prologue).
Binding: the real CsgApplication::Run/Worker::Run/ProcessData run under the baton
scheduler (harness/drivers/vsched.h) driven by the VOTCA_VERIF hooks in
tools::Mutex / tools::Thread."""
import json
import os
import random
import subprocess
import vlib

MANIFEST = dict(
    engine="threaded_frames", design_ref="DESIGN.md 5/C05, Appendix A.1",
    technique="TLA+ protocol spec of the frame dispatcher model-checked with TLC (safety + liveness under fairness); "
              "conformance: TLC schedules replayed into the real code under a baton scheduler, recorded executions "
              "validated by TLC (trace spec), exhaustive real-code schedule enumeration compared with TLC's state graph",
    text="TLC explores every interleaving of the token-ring/reader/merge protocol for all configurations up to the "
         "configured worker/frame/budget bounds (mutual exclusion, file-order reads, each frame once, exactly the "
         "selected frames, ordered merges, no bad unlock, deadlock freedom, termination). The real dispatcher is run "
         "under a scheduler that owns every mutex decision: TLC-generated schedules are imposed step by step, random "
         "schedules are recorded and accepted/rejected by TLC, and for small configurations every schedule of the "
         "real code is enumerated and the resulting transition graph must equal TLC's. Error path (FaultTF.tla): with an "
         "exception injected for one frame every interleaving aborts or completes, never deadlocks; random real schedules "
         "with the same fault must not end with no enabled thread.",
    note="Trusted: the baton scheduler and its hook placement (Mutex::Lock/Unlock, Thread start/begin/end/join), the "
         "in-memory trajectory reader/worker of the driver, TLC. Data races on state not protected by any mutex are "
         "only visible at yield points (reader, eval, merge bodies are harness code with a yield inside).")


def canon_state(s):
    return json.dumps({"pc": [[p["k"], p["o"], p["i"]] for p in s["pc"]], "sem": sorted(s["sem"].items()),
                       "nframes": s["nframes"], "first": s["first"], "pos": s["pos"], "frameOf": list(s["frameOf"]),
                       "readSeq": list(s["readSeq"]), "evalLog": [list(x) for x in s["evalLog"]],
                       "mergeLog": list(s["mergeLog"]), "bad": s["bad"]}, sort_keys=True)


def decanon(x):
    d = json.loads(x)
    d["pc"] = [{"k": p[0], "o": p[1], "i": p[2]} for p in d["pc"]]
    d["sem"] = dict(d["sem"])
    return d


def cfg_key(c):
    return (c["nw"], c["k"], c["b"], c["ord"])


def run(ctx):
    bindir = vlib.ensure_build(["drv_threaded_frames"])
    exe = bindir + "/drv_threaded_frames"
    quick = ctx.quick
    rnd = random.Random(ctx.seed)
    ctx.rule = ("configurations (workers, frames, budget, ordered) x schedules; every schedule of a multi-worker "
                "configuration is non-trivial; distinct = distinct (configuration, schedule) pairs executed on the real code")
    ctx.assumptions += ["one TLA+ action = one yield point of the real code plus the code up to the next yield point",
                        "the scheduler's mutex model decides blocking; no timing inference",
                        "frames are numbered relative to the first selected frame; the seek loop is checked separately (Seek.tla)"]

    # ---- 1. design level: exhaustive TLC ------------------------------------------------------------
    # quick: safety + liveness (termination under weak fairness) on QuickConfigs; thorough: the same, plus safety
    # alone on the larger ThoroughConfigs (liveness checking of the big graph costs ~10x the safety run)
    res = vlib.tlc("threaded_frames", "MCTF", cfg="MCTFQuick.cfg", timeout=3000, heap="24g", workers=8)
    vlib.tlc_must_hold(res, "ThreadedFrames invariants + termination")
    ctx.add_tlc("MCTFQuick.cfg", res)
    if not quick:
        res = vlib.tlc("threaded_frames", "MCTF", cfg="MCTFThorough.cfg", timeout=6000, heap="24g", workers=8)
        vlib.tlc_must_hold(res, "ThreadedFrames invariants (larger bounds)")
        ctx.add_tlc("MCTFThorough.cfg", res)

    drift = []

    def note_drift(kind, cfgd, text):
        """code and protocol spec disagree, but no property predicate failed on the observed states"""
        if len(drift) < 20:
            drift.append({"kind": kind, "cfg": cfgd, "what": text[:400]})
        vlib.log("SPEC-DRIFT (%s, not a property violation): %s" % (kind, text[:300]))

    obs_seq = [0]

    def obs_check(records, where):
        """records: list of {"c": cfg, "s": projected state}.  TLC evaluates the property predicates of the spec
        on every observed state (spec/threaded_frames/ObsTF.tla).  Returns True if all hold."""
        if not records:
            return True
        obs_seq[0] += 1
        path = vlib.scratch_file("tf-obs-%d.ndjson" % obs_seq[0])
        recs = list(records)
        ok = True
        for _ in range(6):          # report up to a few distinct violated predicates
            vlib.write_ndjson(path, recs)
            r = vlib.tlc("threaded_frames", "ObsTF", cfg="ObsTF.cfg", workers=1, env={"TRACE": path}, timeout=900)
            if r.ok:
                ctx.add_tlc("ObsTF(%s)" % where, r)
                break
            ok = False
            inv = "property"
            m = __import__("re").search(r"Invariant (\w+) is violated", r.out)
            if m:
                inv = m.group(1)
            m = __import__("re").search(r"idx = (\d+)", r.out)
            bad = recs[int(m.group(1)) - 1] if m else recs[0]
            tag = "ordered" if bad["c"]["ord"] else "unordered"
            ctx.violation("dispatcher:%s:%s" % (tag, inv), "%s is false in a state reached by the real code (%s)" % (inv, where), bad)
            # drop every record of that configuration and look for other predicates/configurations
            recs = [x for x in recs if x["c"] != bad["c"]]
            if not recs:
                break
        os.unlink(path)
        return ok

    def states_of(run):
        b = run["begin"]
        cfgd = {"nw": b["nw"], "k": b["k"], "b": b["b"], "ord": b["ord"]}
        return [{"c": cfgd, "s": st["s"]} for st in run["steps"] if st.get("s")]

    def drive(lines, timeout=1200):
        """run the batch; the driver leaves the process after a deadlock / script mismatch (it reports the run
        first), so restart it with the remaining lines"""
        outs = []
        rest = list(lines)
        while rest:
            rc, out, err = vlib.run_driver(exe, "\n".join(rest) + "\n", args=["batch"], timeout=timeout)
            # input lines started (a two-pass line prints a second begin record with "pass":2)
            n = sum(1 for ln in out.splitlines()
                    if (ln.startswith('{"e":"begin"') or ln.startswith('{"e":"seek"')) and '"pass":2' not in ln)
            if rc != 0 and n == 0:
                raise vlib.InfraError("drv_threaded_frames batch failed rc=%s %s" % (rc, err[-1000:]))
            if n == 0:
                raise vlib.InfraError("drv_threaded_frames batch produced no run")
            outs.append(out)
            rest = rest[n:]
        return "\n".join(outs)

    def split_runs(out):
        runs, cur = [], None
        for ln in out.splitlines():
            if not ln.startswith("{"):
                continue
            r = json.loads(ln)
            if r["e"] in ("begin", "seek"):
                cur = {"begin": r, "steps": [], "end": None, "raw": [ln]}
                runs.append(cur)
            elif cur is not None:
                cur["raw"].append(ln)
                if r["e"] == "step":
                    cur["steps"].append(r)
                elif r["e"] == "end":
                    cur["end"] = r
        return runs

    def check_end(run, where):
        """harness-side observations that need no spec: deadlock, overlap, crash"""
        b, e = run["begin"], run["end"]
        tag = "ordered" if b.get("ord") else "unordered"
        if e is None:
            ctx.violation("dispatcher:%s:crash" % tag, "run produced no end record (%s)" % where, b)
            return False
        if e["deadlock"]:
            ctx.violation("dispatcher:%s:deadlock" % tag, "no enabled thread: %s (%s)" % (e["error"], where),
                          {"cfg": b, "schedule": [s["t"] for s in run["steps"]]})
            return False
        if e.get("leftover") and where != "fault injection":
            ctx.violation("dispatcher:%s:threads-left-behind" % tag, "the run returned while %d worker thread(s) were still blocked (%s)" % (e["leftover"], where),
                          {"cfg": b, "schedule": [s["t"] for s in run["steps"]]})
            return False
        if e["max_in_reader"] > 1:
            ctx.violation("dispatcher:%s:reader-overlap" % tag, "two threads inside the trajectory reader (%s)" % where,
                          {"cfg": b, "schedule": [s["t"] for s in run["steps"]]})
            return False
        if e["max_in_merge"] > 1:
            ctx.violation("dispatcher:%s:merge-overlap" % tag, "two threads inside MergeWorker (%s)" % where,
                          {"cfg": b, "schedule": [s["t"] for s in run["steps"]]})
            return False
        if e.get("topo_differs"):
            ctx.violation("dispatcher:%s:worker-topology-differs" % tag,
                          "a worker analysed its frame on a topology that differs from worker 0's (beads / bonded interactions / exclusions) (%s)" % where,
                          {"cfg": b, "schedule": [s["t"] for s in run["steps"]]})
            return False
        if e["bad_unlock"]:
            ctx.violation("dispatcher:%s:bad-unlock" % tag, "unlock of an unlocked mutex (%s)" % where,
                          {"cfg": b, "schedule": [s["t"] for s in run["steps"]]})
            return False
        return True

    vlib.log('phase 1 (TLC exhaustive) done %.0fs' % (__import__('time').time() - ctx.t0))
    # ---- 2. replay of TLC-generated schedules -------------------------------------------------------------
    nsim = 150 if quick else 1500
    res = vlib.tlc("threaded_frames", "MCTF", cfg="MCTFSim.cfg", simulate=max(1, nsim // 4), depth=900, workers=4,
                   seed=ctx.seed, timeout=1500)
    vlib.tlc_must_hold(res, "ThreadedFrames simulation")
    ctx.add_tlc("MCTFSim(simulate)", res)
    sims = {}
    for r in res.records:
        sims[(cfg_key(r["c"]), tuple(r["sched"]))] = r
    sims = list(sims.values())
    lines = ["run %d %d %d %d script %s" % (r["c"]["nw"], r["c"]["k"], r["c"]["b"], 1 if r["c"]["ord"] else 0,
                                            ",".join(str(t) for t in r["sched"])) for r in sims]
    runs = split_runs(drive(lines)) if lines else []
    if len(runs) != len(sims):
        raise vlib.InfraError("replay: %d runs for %d schedules" % (len(runs), len(sims)))
    for r, run in zip(sims, runs):
        ctx.traces += 1
        tag = "ordered" if r["c"]["ord"] else "unordered"
        if r["c"]["nw"] > 1:
            ctx.nontriv(("replay", cfg_key(r["c"]), tuple(r["sched"])))
        if not check_end(run, "replay of a TLC schedule"):
            continue
        e = run["end"]
        fin = run["steps"][-1]["s"] if run["steps"] else None
        exp = ([list(x) for x in r["evalLog"]], list(r["mergeLog"]), list(r["readSeq"]))
        got = ([list(x) for x in fin["evalLog"]], fin["mergeLog"], fin["readSeq"]) if fin else None
        if e["mismatch"] or e["rc"] != 0 or len(run["steps"]) != len(r["sched"]) or got != exp:
            # the real code left the TLC behaviour: property violation only if a property predicate fails
            run2 = dict(run, begin=dict(r["c"]))
            if obs_check(states_of(run2), "replay of a TLC schedule"):
                note_drift("replay", r["c"], "real code does not follow TLC schedule %s: %s; logs %s vs spec %s" % (
                    r["sched"], e["error"], got, exp))
    if sims:
        ctx.sample({"tlc_schedule": {"c": sims[0]["c"], "sched": sims[0]["sched"], "evalLog": sims[0]["evalLog"]}})

    vlib.log('phase 2 (replay) done %.0fs' % (__import__('time').time() - ctx.t0))
    # ---- 3. random controlled runs validated by TLC (trace validation) ---------------------------------------
    nrand = 200 if quick else 2000
    lines = []
    for i in range(nrand):
        nw = rnd.choice([1, 2, 2, 3, 3, 4, 5, 8])
        k = rnd.choice([1, 2, 3, 4, 6, 9])
        b = rnd.choice([-1, -1, 0, 1, 2, k, k + 1])
        lines.append("run %d %d %d %d random %d" % (nw, k, b, rnd.choice([0, 1]), rnd.randrange(1 << 30)))
    # the same application object running twice (two passes = two executions of the protocol from its initial state)
    for i in range(20 if quick else 300):
        nw = rnd.choice([2, 2, 3, 4])
        k = rnd.choice([1, 2, 3, 5])
        lines.append("run2 %d %d %d %d random %d" % (nw, k, rnd.choice([-1, -1, 1, 2]), rnd.choice([0, 1, 1]), rnd.randrange(1 << 30)))
    runs = split_runs(drive(lines))
    good = []
    for run in runs:
        ctx.traces += 1
        b = run["begin"]
        if b["nw"] > 1:
            ctx.nontriv(("random", cfg_key(b), tuple(s["t"] for s in run["steps"])))
        if check_end(run, "random schedule"):
            good.append(run)
    # validate in chunks so that a rejection can be located
    chunk = 50
    for i in range(0, len(good), chunk):
        part = good[i:i + chunk]
        path = vlib.scratch_file("tf-trace-%d.ndjson" % i)
        with open(path, "w") as f:
            for run in part:
                f.write("\n".join(run["raw"]) + "\n")
        nlines = sum(len(run["raw"]) for run in part)

        def validate(path):
            r = vlib.tlc("threaded_frames", "TraceTF", cfg="TraceTF.cfg", workers=1, env={"TRACE": path}, timeout=600)
            maxl = None
            for ln in r.out.splitlines():
                if '"maxl"' in ln:
                    nums = [int(x) for x in ln.replace("<<", " ").replace(">>", " ").replace(",", " ").split() if x.lstrip("-").isdigit()]
                    maxl = nums[0]
            return r, maxl
        r, maxl = validate(path)
        ctx.add_tlc("TraceTF[%d..%d]" % (i, i + len(part)), r)
        if r.violation or maxl is None or maxl != nlines + 1:
            r2, maxl2 = validate(path)      # report only a repeated rejection
            if r2.violation or maxl2 != nlines + 1:
                # locate the execution
                acc, bad = 0, part[-1]
                for run in part:
                    acc += len(run["raw"])
                    if (maxl2 or 0) <= acc:
                        bad = run
                        break
                tag = "ordered" if bad["begin"]["ord"] else "unordered"
                keep = os.path.join(vlib.VERIF, "replays", "C05-rejected-trace.ndjson")
                os.makedirs(os.path.dirname(keep), exist_ok=True)
                with open(keep, "w") as f:
                    f.write("\n".join(bad["raw"]) + "\n")
                what = r2.violation or ("trace rejected at line %s of %s" % (maxl2, nlines))
                if obs_check(states_of(bad), "random schedule rejected by the protocol spec"):
                    note_drift("trace-rejected", bad["begin"], what + " schedule " + str([s["t"] for s in bad["steps"]]))
        os.unlink(path)
    if good:
        ctx.sample({"validated_run": {"cfg": good[0]["begin"], "schedule": [s["t"] for s in good[0]["steps"]]}})

    vlib.log('phase 3 (trace validation) done %.0fs' % (__import__('time').time() - ctx.t0))
    # ---- 4. exhaustive enumeration of the real code's schedules vs TLC's state graph ---------------------------
    gcfg = "MCTFGraphQuick.cfg" if quick else "MCTFGraphThorough.cfg"
    res = vlib.tlc("threaded_frames", "MCTF", cfg=gcfg, timeout=3000, heap="16g", workers=8)
    vlib.tlc_must_hold(res, "graph export")
    ctx.add_tlc(gcfg, res)
    all_obs = []
    spec_edges = {}
    for r in res.records:
        key = cfg_key(r["from"]["c"])
        spec_edges.setdefault(key, set()).add((canon_state(r["from"]), canon_state(r["to"])))
    for key in sorted(spec_edges):
        nw, k, b, ord_ = key
        tag = "ordered" if ord_ else "unordered"
        rc, out, err = vlib.run_driver(exe, args=["explore", str(nw), str(k), str(b), "1" if ord_ else "0"], timeout=3000)
        if rc != 0:
            raise vlib.InfraError("explore failed rc=%s %s" % (rc, err[-500:]))
        code_edges = set()
        summary = None
        trouble = None
        for ln in out.splitlines():
            if not ln.startswith("{"):
                continue
            r = json.loads(ln)
            if r["e"] == "tr":
                code_edges.add((canon_state(r["from"]), canon_state(r["to"])))
            elif r["e"] == "explored":
                summary = r
            elif r["e"] == "trouble":
                trouble = r
            elif r["e"] == "end" and trouble is not None:
                trouble["end"] = r
        ctx.traces += summary["runs"] if summary else 0
        ctx.nontriv(("graph", key))
        cfgd = {"nw": nw, "k": k, "b": b, "ord": ord_}
        if trouble is not None:
            e = trouble.get("end", {})
            kind = "deadlock" if e.get("deadlock") else "reader-overlap" if e.get("max_in_reader", 0) > 1 else \
                "merge-overlap" if e.get("max_in_merge", 0) > 1 else "bad-unlock" if e.get("bad_unlock") else "crash"
            ctx.violation("dispatcher:%s:%s" % (tag, kind), "found by exhaustive schedule enumeration of the real code: %s" % e.get("error"),
                          {"cfg": cfgd, "schedule": trouble["prefix"]})
            continue
        if summary is None or not summary["complete"]:
            raise vlib.InfraError("explore incomplete for %s" % (key,))
        # every state the real code can reach in this configuration satisfies the property predicates
        st = {}
        for (fr, to) in code_edges:
            st[fr] = 1
            st[to] = 1
        all_obs.extend({"c": cfgd, "s": decanon(x)} for x in st)
        extra = code_edges - spec_edges[key]
        missing = spec_edges[key] - code_edges
        if extra:
            fr, to = sorted(extra)[0]
            note_drift("graph-extra-transition", cfgd, "the real code takes %d transitions the spec does not have, e.g. %s -> %s" % (len(extra), fr, to))
        elif missing:
            fr, to = sorted(missing)[0]
            note_drift("graph-missing-transition", cfgd, "the real code never takes %d transitions the spec allows, e.g. %s -> %s" % (len(missing), fr, to))
        ctx.extra.setdefault("graphs_compared", []).append({"cfg": cfgd, "edges": len(code_edges), "runs": summary["runs"]})

    obs_check(all_obs, 'exhaustive schedule enumeration of the real code')
    ctx.extra['observed_states_checked'] = len(all_obs)
    vlib.log('phase 4 (graph) done %.0fs' % (__import__('time').time() - ctx.t0))
    # ---- 5. frame selection prologue (seek loop + budget) through the full Exec ---------------------------------
    res = vlib.tlc("threaded_frames", "MCSeek", cfg="MCSeek.cfg", timeout=300)
    vlib.tlc_must_hold(res, "Seek")
    ctx.add_tlc("MCSeek", res)
    vecs = res.records
    lines = []
    meta = []
    for r in vecs:
        for (nw, ord_) in ((1, 1), (3, 1), (2, 0)) if quick else ((1, 1), (2, 1), (3, 1), (5, 1), (2, 0), (3, 0)):
            lines.append("seek %d %d %d %d %d %d %d" % (r["total"], r["ff"], r["b"], nw, ord_, rnd.randrange(1 << 30), r["bg"]))
            meta.append((r, nw, ord_))
    runs = split_runs(drive(lines))
    if len(runs) != len(meta):
        raise vlib.InfraError("seek: %d runs for %d vectors" % (len(runs), len(meta)))
    for (r, nw, ord_), run in zip(meta, runs):
        ctx.count()
        tag = "ordered" if ord_ else "unordered"
        e = run["end"]
        if r["err"]:
            if e["rc"] == 0:
                ctx.violation("selection:%s:short-trajectory-accepted" % tag, "file ends before the first selected frame but no error: %s" % r, r)
            continue
        if not check_end(dict(run, begin=dict(run["begin"], ord=bool(ord_))), "full Exec with seek"):
            continue
        want = list(range(r["lo"], r["hi"] + 1))
        got = e["evalAbs"]
        if e["rc"] != 0 or sorted(got) != want or (ord_ and nw >= 1 and False):
            ctx.violation("selection:%s:wrong-frames" % tag, "processed frames %s, selected %s for %s nt=%d (rc=%s %s)" % (
                sorted(got), want, r, nw, e["rc"], e["error"]), {"vector": r, "nw": nw, "ord": ord_})
    if vecs:
        ctx.sample({"seek_vector": vecs[len(vecs) // 2]})
    vlib.log('phase 5 (seek) done %.0fs' % (__import__('time').time() - ctx.t0))

    # ---- 6. error path: an exception leaves the reader / a worker's EvalConfiguration (FaultTF.tla) ------------------
    # TLC: every interleaving either completes (faulty frame not selected) or aborts, never deadlocks; the outcome is a
    # function of (configuration, fault).  Real code: random schedules with the same fault injected; a run that ends in
    # a state where nobody can move is a deadlock (property), any other disagreement with the spec's outcome is drift.
    res = vlib.tlc("threaded_frames", "MCFaultTF", cfg="MCFaultTF.cfg", timeout=3000, workers=8)
    vlib.tlc_must_hold(res, "FaultTF: deadlock freedom and termination with a failing frame")
    ctx.add_tlc("MCFaultTF.cfg", res)
    expect = {}
    for r in res.records:
        key = (r["c"]["nw"], r["c"]["k"], r["c"]["b"], bool(r["c"]["ord"]), r["f"], r["at"])
        if expect.setdefault(key, r["outcome"]) != r["outcome"]:
            raise vlib.InfraError("FaultTF: outcome not determined for %s" % (key,))
    if not expect or "abort" not in expect.values() or "complete" not in expect.values():
        raise vlib.InfraError("FaultTF exported no outcomes")
    keys = sorted(expect)
    per = 2 if quick else 12
    lines, meta = [], []
    for key in keys:
        nw, k, b, o, f, at = key
        for _ in range(per if nw > 1 else 1):
            lines.append("fault %d %d %d %d %d %d %s" % (nw, k, b, 1 if o else 0, rnd.randrange(1 << 30), f, at))
            meta.append(key)
    # one process per run: a run that aborts leaves the process anyway, and a run that never ends (threads blocked outside
    # the scheduler's model) must not take the others with it; a hang counts only if a second attempt hangs as well
    runs = []
    for ln in lines:
        got = None
        for to in (60, 180):
            rc, out, err = vlib.run_driver(exe, ln + "\n", args=["batch"], timeout=to)
            rr = split_runs(out)
            if rc != -999:
                if len(rr) != 1:
                    raise vlib.InfraError("fault run '%s' failed rc=%s %s" % (ln, rc, err[-500:]))
                got = rr[0]
                break
        if got is None:
            got = {"begin": {}, "steps": [], "end": {"hang": True}, "raw": []}
        runs.append(got)
    n_abort = 0
    for key, run in zip(meta, runs):
        if run["end"] and run["end"].get("hang"):
            nw, k, b, o, f, at = key
            ctx.count()
            ctx.violation("dispatcher:%s:hang:after-worker-exception" % ("ordered" if o else "unordered"),
                          "an exception left %s for frame %d and the run did not end within 60 s and, repeated, 180 s"
                          % ("the trajectory reader" if at == "read" else "EvalConfiguration", f),
                          {"nw": nw, "k": k, "b": b, "ord": o, "fault_frame": f, "fault_at": at})
            continue
        ctx.count()
        ctx.traces += 1
        ctx.nontriv(("fault", key, run["begin"].get("seed")))
        nw, k, b, o, f, at = key
        tag = "ordered" if o else "unordered"
        e = run["end"]
        cfgd = {"nw": nw, "k": k, "b": b, "ord": o, "fault_frame": f, "fault_at": at, "seed": run["begin"].get("seed")}
        if e is None:
            ctx.violation("dispatcher:%s:crash" % tag, "fault run produced no end record", cfgd)
            continue
        if e["deadlock"]:
            ctx.violation("dispatcher:%s:deadlock:after-worker-exception" % tag,
                          "an exception left %s for frame %d and the run ended with no enabled thread instead of aborting: %s"
                          % ("the trajectory reader" if at == "read" else "EvalConfiguration", f, e["error"]), cfgd)
            continue
        if e["max_in_reader"] > 1 or e["max_in_merge"] > 1 or e["bad_unlock"]:
            check_end(dict(run, begin=dict(run["begin"], ord=o)), "fault injection")
            continue
        got = "abort" if (e.get("terminated") or e["rc"] != 0) else "complete"
        n_abort += got == "abort"
        if got != expect[key]:
            note_drift("fault-outcome", cfgd, "spec says the run %ss, the real run ended with rc=%s terminated=%s (%s)" % (
                expect[key], e["rc"], e.get("terminated"), e["error"]))
    if n_abort == 0:
        raise vlib.InfraError("fault injection: no real run aborted (injection not effective)")
    ctx.extra["fault_runs"] = len(runs)
    ctx.extra["fault_runs_aborted"] = n_abort
    ctx.sample({"fault_run": {"cfg+fault": list(meta[len(meta) // 2]), "end": runs[len(runs) // 2]["end"]}})
    vlib.log('phase 6 (fault) done %.0fs' % (__import__('time').time() - ctx.t0))
    if drift:
        ctx.extra['spec_drift'] = drift
    ctx.exhaustive = False
