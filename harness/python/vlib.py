"""Shared runner library for /verif/bin/vcheck.

Everything here is infrastructure: building /repo's working tree with the
VOTCA_VERIF hooks on, running TLC, collecting evidence, matching violations
against known_findings.txt.  It contains no property logic.
"""
import fcntl
import hashlib
import json
import os
import re
import subprocess
import sys
import time

VERIF = os.path.dirname(os.path.dirname(os.path.dirname(os.path.abspath(__file__))))
REPO = os.path.abspath(os.environ.get("VERIF_REPO", "/repo"))
_default_root = "/var/tmp/votca-verif"
if REPO != "/repo":
    _default_root += "-" + hashlib.sha1(REPO.encode()).hexdigest()[:8]
ROOT = os.environ.get("VERIF_ROOT", _default_root)
BUILD = os.path.join(ROOT, "build")
BUILD_SAN = os.path.join(ROOT, "build-san")
SCRATCH = os.path.join(ROOT, "scratch")
SPEC = os.path.join(VERIF, "spec")
NCPU = min(8, os.cpu_count() or 4)   # several checks may run side by side


class InfraError(Exception):
    """Broken infrastructure: never reported as a property violation."""


def log(*a):
    print("[vcheck]", *a, file=sys.stderr, flush=True)


# --------------------------------------------------------------------------
# build
# --------------------------------------------------------------------------

def _run(cmd, **kw):
    kw.setdefault("stdout", subprocess.PIPE)
    kw.setdefault("stderr", subprocess.STDOUT)
    kw.setdefault("text", True)
    return subprocess.run(cmd, **kw)


def ensure_build(targets, sanitize=False):
    """Configure (once) and incrementally build `targets` from REPO's working
    tree with hooks on.  Returns the directory holding the executables."""
    bdir = BUILD_SAN if sanitize else BUILD
    os.makedirs(bdir, exist_ok=True)
    os.makedirs(SCRATCH, exist_ok=True)
    lockf = open(os.path.join(ROOT, "build.lock"), "w")
    fcntl.flock(lockf, fcntl.LOCK_EX)
    try:
        t0 = time.time()
        stamp = os.path.join(bdir, "build.ninja")
        if not os.path.exists(stamp):
            cmd = ["cmake", "-G", "Ninja", "-S", os.path.join(VERIF, "harness"), "-B", bdir,
                   "-DVERIF_REPO=" + REPO, "-DCMAKE_BUILD_TYPE=Release",
                   "-DVERIF_SANITIZE=" + ("ON" if sanitize else "OFF")]
            r = _run(cmd)
            if r.returncode != 0:
                raise InfraError("cmake configure failed:\n" + r.stdout[-4000:])
        r = _run(["ninja", "-C", bdir] + list(targets))
        if r.returncode != 0:
            # a source change in the repository that does not compile is not a
            # property violation; report as infrastructure failure
            raise InfraError("build failed:\n" + r.stdout[-6000:])
        log("build of %s ok (%.1fs)" % (",".join(targets), time.time() - t0))
        bindir = _snapshot(bdir, targets)
    finally:
        fcntl.flock(lockf, fcntl.LOCK_UN)
        lockf.close()
    return bindir


_snap_dirs = []


def _snapshot(bdir, targets):
    """Private copy (taken under the build lock) of the shared libraries and the requested executables, so that
    a concurrent check that relinks them (because the repository changed) cannot pull them away under a running
    driver.  Returns the directory with the executables; LD_LIBRARY_PATH of this process points at the copied
    libraries (the executables carry a RUNPATH, which LD_LIBRARY_PATH precedes)."""
    import atexit
    import shutil
    if "all" in targets:
        return os.path.join(bdir, "bin")
    snap = os.path.join(SCRATCH, "snap-%d-%d" % (os.getpid(), len(_snap_dirs)))
    os.makedirs(os.path.join(snap, "lib"), exist_ok=True)
    os.makedirs(os.path.join(snap, "bin"), exist_ok=True)
    libdir = os.path.join(bdir, "lib")
    if os.path.isdir(libdir):
        for f in os.listdir(libdir):
            src = os.path.join(libdir, f)
            if os.path.islink(src):
                os.symlink(os.readlink(src), os.path.join(snap, "lib", f))
            elif os.path.isfile(src):
                shutil.copy2(src, os.path.join(snap, "lib", f))
    bsrc = os.path.join(bdir, "bin")
    for f in os.listdir(bsrc):
        # executables are small; copy all so that helper tools (csg_call wrappers etc.) stay together
        src = os.path.join(bsrc, f)
        if os.path.isfile(src):
            shutil.copy2(src, os.path.join(snap, "bin", f))
    if not _snap_dirs:
        atexit.register(lambda: [shutil.rmtree(d, ignore_errors=True) for d in _snap_dirs])
    _snap_dirs.append(snap)
    os.environ["LD_LIBRARY_PATH"] = os.path.join(snap, "lib") + (":" + os.environ["LD_LIBRARY_PATH"] if os.environ.get("LD_LIBRARY_PATH") else "")
    return os.path.join(snap, "bin")


def run_driver(exe, input_text=None, args=(), timeout=600, env=None, cwd=None):
    """Run a driver; returns (rc, stdout, stderr)."""
    e = dict(os.environ)
    e.setdefault("ASAN_OPTIONS", "detect_leaks=0:abort_on_error=0")
    if env:
        e.update(env)
    try:
        p = subprocess.run([exe] + list(args), input=input_text, stdout=subprocess.PIPE,
                           stderr=subprocess.PIPE, text=True, timeout=timeout, env=e, cwd=cwd)
    except subprocess.TimeoutExpired as ex:
        return (-999, (ex.stdout or b"").decode() if isinstance(ex.stdout, bytes) else (ex.stdout or ""),
                "TIMEOUT")
    return p.returncode, p.stdout, p.stderr


# --------------------------------------------------------------------------
# TLC
# --------------------------------------------------------------------------

TLC_JAR = "/opt/veriftools/tla/tla2tools.jar:/opt/veriftools/tla/CommunityModules-deps.jar"
_tlc_seq = [0]
_tlc_counter = __import__("itertools").count(1)   # next() is atomic: vlib.tlc may be called from several threads (C10)


class TlcResult:
    def __init__(self):
        self.rc = None
        self.out = ""
        self.generated = 0
        self.distinct = 0
        self.records = []      # JSON values printed with PrintT(ToJson(..))
        self.violation = None  # text of the first violated property, if any
        self.coverage = {}
        self.wall = 0.0

    @property
    def ok(self):
        return self.rc == 0


def tlc(spec_dir, module, cfg=None, workers=None, timeout=900, env=None, simulate=None,
        depth=None, coverage=False, heap="8g", deadlock=True, dfs_queue=False, seed=None,
        extra=()):
    """Run TLC on spec/<spec_dir>/<module>.tla with <cfg>.  Returns TlcResult.
    Raises InfraError for anything that is not 'no error' or a property violation."""
    sdir = spec_dir if os.path.isabs(spec_dir) else os.path.join(SPEC, spec_dir)
    seq = _tlc_seq[0] = next(_tlc_counter)
    meta = os.path.join(SCRATCH, "tlc-%d-%d" % (os.getpid(), seq))
    os.makedirs(meta, exist_ok=True)
    # TLC unpacks its standard modules into java.io.tmpdir/tlc-<random> and never removes them: keep that inside the
    # per-run metadir (removed below) instead of leaking one directory per run into /tmp
    jopts = ["-XX:+UseParallelGC", "-Xmx" + heap, "-Djava.io.tmpdir=" + meta]
    if dfs_queue:
        jopts.append("-Dtlc2.tool.queue.IStateQueue=StateDeque")
    common = os.path.join(SPEC, "common")
    jopts.append("-DTLA-Library=" + common)
    cmd = ["timeout", str(timeout), "java"] + jopts + ["-cp", TLC_JAR, "tlc2.TLC",
           "-workers", str(workers or NCPU), "-metadir", meta, "-noGenerateSpecTE"]
    if cfg:
        cmd += ["-config", cfg]
    if not deadlock:
        cmd += ["-deadlock"]
    if coverage:
        cmd += ["-coverage", "1"]
    if simulate:
        cmd += ["-simulate", "num=%d" % simulate]
    if depth:
        cmd += ["-depth", str(depth)]
    if seed is not None:
        cmd += ["-seed", str(seed)]
    cmd += list(extra)
    cmd.append(module + ".tla")
    e = dict(os.environ)
    if env:
        e.update({k: str(v) for k, v in env.items()})
    t0 = time.time()
    p = subprocess.run(cmd, cwd=sdir, stdout=subprocess.PIPE, stderr=subprocess.STDOUT, text=True, env=e)
    res = TlcResult()
    res.wall = time.time() - t0
    res.rc = p.returncode
    res.out = p.stdout
    subprocess.run(["rm", "-rf", meta])
    for line in p.stdout.splitlines():
        s = line.strip()
        if s.startswith('"{') or s.startswith('"['):
            try:
                res.records.append(json.loads(json.loads(s)))
            except Exception:
                pass
        m = re.match(r"(\d+) states generated, (\d+) distinct states found", s)
        if m:
            res.generated, res.distinct = int(m.group(1)), int(m.group(2))
        m = re.match(r"The number of states generated: (\d+)", s)
        if m:
            res.generated = int(m.group(1))
            res.distinct = max(res.distinct, 1)
        m = re.match(r"<(\w+) line \d+, col \d+ to line \d+, col \d+ of module \w+>: (\d+):(\d+)", s)
        if m:
            res.coverage[m.group(1)] = (int(m.group(2)), int(m.group(3)))
        if res.violation is None:
            m = re.match(r"Error: (Invariant .* is violated.*|Action property .* is violated.*|"
                         r"Temporal properties were violated.*|Deadlock reached.*|"
                         r"Assumption .* is false.*|The postcondition .* is violated.*|"
                         r"Evaluating assumption .*|Invariant .* is violated by the initial state.*)", s)
            if m:
                res.violation = m.group(1)
    if res.rc == 0:
        return res
    if res.rc in (10, 11, 12, 13) and res.violation:
        return res
    if res.rc == 124:
        raise InfraError("TLC timed out after %ss on %s/%s" % (timeout, spec_dir, module))
    raise InfraError("TLC failed (rc=%s) on %s/%s:\n%s" % (res.rc, spec_dir, module, p.stdout[-3000:]))


def tlc_must_hold(res, what):
    """A TLC run that is part of the design-level argument must end without error."""
    if not res.ok:
        raise ModelViolation(what, res)


class ModelViolation(Exception):
    def __init__(self, what, res):
        super().__init__(what)
        self.what = what
        self.res = res


# --------------------------------------------------------------------------
# evidence, findings, violations
# --------------------------------------------------------------------------

def load_findings():
    out = []
    path = os.path.join(VERIF, "known_findings.txt")
    if not os.path.exists(path):
        return out
    for line in open(path):
        line = line.strip()
        m = re.match(r"finding:\s+property=(\S+)\s+key=(\S+)\s+(.*)", line)
        if m:
            out.append((m.group(1), m.group(2), m.group(3)))
    return out


class Ctx:
    """Per-run context handed to an engine."""

    def __init__(self, pid, tier, seed):
        self.pid = pid
        self.tier = tier
        self.seed = seed
        self.t0 = time.time()
        self.states = 0
        self.transitions = 0
        self.traces = 0
        self.evaluations = 0
        self.samples = []
        self.configs = []
        self.assumptions = []
        self.extra = {}
        self.violations = []      # (key, text, replay path)
        self.known_hit = {}       # key -> text
        self.findings = [f for f in load_findings() if f[0] == pid]
        self.exhaustive = False
        self.nontrivial = set()
        self.rule = ""

    @property
    def quick(self):
        return self.tier == "quick"

    # -- TLC bookkeeping
    def add_tlc(self, name, res, constants=None):
        self.states += res.distinct
        self.transitions += res.generated
        c = {"config": name, "distinct": res.distinct, "generated": res.generated,
             "wall_s": round(res.wall, 2)}
        if constants:
            c["constants"] = constants
        if res.coverage:
            c["actions"] = {k: "%d:%d" % v for k, v in res.coverage.items()}
        self.configs.append(c)

    def sample(self, s, limit=6):
        if len(self.samples) < limit:
            self.samples.append(s)

    def count(self, n=1):
        self.evaluations += n

    def nontriv(self, key):
        self.nontrivial.add(key if isinstance(key, (str, int, tuple)) else json.dumps(key, sort_keys=True))

    # -- violations
    def violation(self, key, text, replay_obj):
        """Report a violation found against the real code.  `key` identifies the
        failing input class / call site so that known findings can be matched."""
        for (_, fkey, ftext) in self.findings:
            if fkey == key:
                if key not in self.known_hit:
                    self.known_hit[key] = ftext
                return False
        for v in self.violations:
            if v[0] == key:
                return True   # one replay artefact per key is enough
        os.makedirs(os.path.join(VERIF, "replays"), exist_ok=True)
        safe = re.sub(r"[^A-Za-z0-9_.-]", "_", key)[:80]
        path = os.path.join(VERIF, "replays", "%s-%s.json" % (self.pid, safe))
        with open(path, "w") as f:
            json.dump({"property": self.pid, "key": key, "what": text, "seed": self.seed,
                       "tier": self.tier, "replay": replay_obj}, f, indent=1, default=str)
        self.violations.append((key, text, path))
        return True

    def finish(self):
        wall = time.time() - self.t0
        cov = {
            "states": self.states,
            "transitions": self.transitions,
            "traces_validated_against_impl": self.traces,
            "samples": self.samples if self.samples else ["(no sample recorded)"],
            "evaluations": self.evaluations + self.traces,
            "distinct_nontrivial": len(self.nontrivial),
            "rule": self.rule,
            "exhaustive": bool(self.exhaustive),
            "configs": self.configs,
            "repo": repo_rev(),
        }
        cov.update(self.extra)
        if self.known_hit:
            cov["known_findings_hit"] = sorted(self.known_hit)
        ev = {
            "property_id": self.pid,
            "tier": self.tier,
            "seed": self.seed,
            "level": "model_checking",
            "coverage": cov,
            "assumptions": self.assumptions,
            "wall_s": round(wall, 2),
            "violations": len(self.violations),
        }
        os.makedirs(os.path.join(VERIF, "evidence"), exist_ok=True)
        with open(os.path.join(VERIF, "evidence", self.pid + ".json"), "w") as f:
            json.dump(ev, f, indent=1, default=str)
        for key in sorted(self.known_hit):
            print("KNOWN-FINDING: property=%s key=%s %s" % (self.pid, key, self.known_hit[key]), flush=True)
        for (key, text, path) in self.violations:
            print("VIOLATION property=%s replay=%s   # key=%s %s" % (self.pid, path, key, text), flush=True)
        return 1 if self.violations else 0


def repo_rev():
    try:
        rev = subprocess.run(["git", "-C", REPO, "rev-parse", "--short", "HEAD"], stdout=subprocess.PIPE,
                             text=True).stdout.strip()
        dirty = subprocess.run(["git", "-C", REPO, "status", "--porcelain", "--untracked-files=no"],
                               stdout=subprocess.PIPE, text=True).stdout.strip() != ""
        return {"path": REPO, "rev": rev, "dirty": dirty}
    except Exception:
        return {"path": REPO}


def close(a, b, rel=1e-9, abs_=1e-12):
    return abs(a - b) <= abs_ + rel * max(abs(a), abs(b))


def write_ndjson(path, recs):
    with open(path, "w") as f:
        for r in recs:
            f.write(json.dumps(r, separators=(",", ":")) + "\n")


def scratch_file(name):
    os.makedirs(SCRATCH, exist_ok=True)
    return os.path.join(SCRATCH, "%d-%s" % (os.getpid(), name))


# --------------------------------------------------------------------------
# batched command drivers: "cmd <seq> <line>" echo protocol
# --------------------------------------------------------------------------

def run_items(exe, items, timeout=1200, args=(), env=None):
    """items: list of (item_id, [command lines]).  The driver echoes
    'cmd <seq> <line>' before executing each command and prints result lines after.
    Returns {item_id: [[result lines of cmd 1], ...]} and {item_id: crash text} for
    items during which the driver died (it is restarted after such an item)."""
    results, crashes = {}, {}
    pos = 0
    while pos < len(items):
        chunk = items[pos:]
        owner = []
        lines = []
        for idx, (iid, cmds) in enumerate(chunk):
            for c in cmds:
                owner.append(idx)
                lines.append(c)
        rc, out, err = run_driver(exe, "\n".join(lines) + "\n", timeout=timeout, args=args, env=env)
        cur = None
        per_cmd = []
        for ln in out.splitlines():
            if ln.startswith("cmd "):
                cur = []
                per_cmd.append(cur)
            elif cur is not None:
                cur.append(ln)
        ncmd = len(per_cmd)
        # distribute
        for ci, res in enumerate(per_cmd):
            iid = chunk[owner[ci]][0]
            results.setdefault(iid, []).append(res)
        if rc == 0 and ncmd == len(lines):
            break
        if ncmd == 0:
            raise InfraError("driver %s died before the first command (rc=%s): %s" % (exe, rc, err[-2000:]))
        bad = owner[ncmd - 1]
        iid = chunk[bad][0]
        crashes[iid] = "rc=%s during '%s': %s" % (rc, lines[ncmd - 1], err[-1500:])
        results.pop(iid, None)
        # items after the crashed one may have partial results: drop and rerun them
        for j in range(bad + 1, len(chunk)):
            results.pop(chunk[j][0], None)
        pos += bad + 1
    return results, crashes
