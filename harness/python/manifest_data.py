"""Single source of truth for MANIFEST.json (bin/mkmanifest)."""
HOOK_COMMITS = ["66e123d44", "a77628d66", "cf4947e1c"]   # Mutex/Thread yield points; ProgObserver/WRITE_JOBS events; mutex init/destroy
NOTES = ("Every check is `bin/vcheck <id> --tier quick|thorough`: TLC model-checks the TLA+ specification in "
         "spec/<engine>, exports behaviours/vectors, a C++ driver replays them into the real votca code built "
         "from /repo's working tree (and/or traces recorded from the real code are validated by TLC). Exit 2 = "
         "broken infrastructure, never a verdict. Repaired defects and findings: known_findings.txt.")
NOT_APPLICABLE = {}
CHECKS = {}   # filled by bin/mkmanifest from engines/<id>.py: MANIFEST

# engines that are finished and reviewed; only these are registered in MANIFEST.json
ENABLED = ["C01", "C02", "C03", "C04", "C05", "C06", "C07", "C08", "C09", "C10", "C11", "C12", "C13", "C14", "C15", "C16", "C17", "C18", "C19", "C20"]
