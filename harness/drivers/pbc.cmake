# --- C02 minimum-image convention: Topology::setBox / BCShortestConnection / getDist /
# BoxVolume / ShortestBoxSize / getBoxType (see drivers/pbc.cc)
verif_driver(drv_pbc ${D}/pbc.cc)
