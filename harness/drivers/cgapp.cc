// Executable-level conformance driver for spec/cgmap (C01): a minimal CsgApplication with
// DoTrajectory = DoMapping = DoThreaded = true.  Every worker dumps, for every frame it
// evaluates, the atomistic frame it was handed (top_ref: box + atom positions) and the mapped
// configuration (top: CG bead mass / position / velocity).  Run as any csg tool:
//   drv_cgapp --top top.xml --trj traj.gro --cg map.xml --nt N
// The runner identifies each dumped frame by its atoms and compares the CG beads with the
// specification's expectation for THAT frame.  No expectation is computed here.
#include <iostream>
#include <memory>
#include <sstream>

#include <votca/csg/bead.h>
#include <votca/csg/csgapplication.h>
#include <votca/csg/topology.h>

using namespace votca;
using namespace votca::csg;

class DumpApp : public CsgApplication {
 public:
  std::string ProgramName() override { return "drv_cgapp"; }
  void HelpText(std::ostream &out) override { out << "dumps what every worker evaluates"; }
  bool DoTrajectory() override { return true; }
  bool DoMapping() override { return true; }
  bool DoThreaded() override { return true; }
  void BeginEvaluate(Topology *, Topology *) override {}
  void EndEvaluate() override { std::cout << "DUMP end" << std::endl; }

  class W : public Worker {
   public:
    std::ostringstream buf;
    void EvalConfiguration(Topology *top, Topology *top_ref) override {
      buf.precision(17);
      buf << "DUMP frame worker " << getId() << " natoms " << (top_ref ? top_ref->BeadCount() : 0) << " ncg "
          << top->BeadCount() << "\n";
      if (top_ref) {
        const Eigen::Matrix3d &g = top_ref->getBox();
        buf << "DUMP refbox";
        for (int i = 0; i < 3; ++i)
          for (int j = 0; j < 3; ++j) buf << " " << g(i, j);
        buf << "\n";
        for (Index i = 0; i < top_ref->BeadCount(); ++i) {
          const Eigen::Vector3d &p = top_ref->getBead(i)->getPos();
          buf << "DUMP ref " << p[0] << " " << p[1] << " " << p[2] << "\n";
        }
      }
      const Eigen::Matrix3d &g = top->getBox();
      buf << "DUMP cgbox";
      for (int i = 0; i < 3; ++i)
        for (int j = 0; j < 3; ++j) buf << " " << g(i, j);
      buf << "\n";
      for (Index i = 0; i < top->BeadCount(); ++i) {
        Bead *b = top->getBead(i);
        Eigen::Vector3d z = Eigen::Vector3d::Zero();
        Eigen::Vector3d p = b->HasPos() ? b->getPos() : z;
        Eigen::Vector3d v = b->HasVel() ? b->getVel() : z;
        buf << "DUMP cg " << b->getName() << " mass " << b->getMass() << " hp " << b->HasPos() << " " << p[0] << " "
            << p[1] << " " << p[2] << " hv " << b->HasVel() << " " << v[0] << " " << v[1] << " " << v[2] << "\n";
      }
      buf << "DUMP endframe\n";
    }
  };
  std::unique_ptr<Worker> ForkWorker() override { return std::make_unique<W>(); }
  void MergeWorker(Worker *w) override {
    W *ww = dynamic_cast<W *>(w);
    std::cout << ww->buf.str() << std::flush;
    ww->buf.str("");
  }
};

int main(int argc, char **argv) {
  DumpApp app;
  return app.Exec(argc, argv);
}
