// Conformance driver for spec/units (C20): a dumb executor that prints what the real
// library says.  No expectation is computed here.
//
//   uc                         every ordered pair of every UnitConverter enum:  uc <Dim> <from> <to> <value>
//   const                      every tools::conv::* constant:                    const <name> <value>
//   declared                   units declared by CsgUnits and the LAMMPS readers/writer:
//                                                                               declared <class> <quantity> <unit>
//   lexpr                      the factor expressions of lammpsdumpreader.cc / lammpsdumpwriter.cc /
//                              lammpsdatareader.cc re-evaluated from the header constants:  lexpr <place> <value>
//   lread <file> <x> <v> <f> <L>     write a one-atom dump (x,v,f per component, box L; LAMMPS units), read it
//                                    with the real LAMMPSDumpReader:            lobs dumpreader_<q> <out/in>
//   lstyle <file> <style> <Lx> <Ly> <Lz> <x1> <y1> <z1> <x2> <y2> <z2>
//                                    two atoms in an orthorhombic box (Angstrom), written in coordinate style
//                                    xyz | xs (scaled xs ys zs) | xu (unwrapped xu yu zu), read with the real
//                                    LAMMPSDumpReader:  lobs dumpreader_pos[_xs|_xu] <nm out / Angstrom in>
//   lwrite <file> <x> <v> <f> <L>    one-bead topology (votca units) through the real LAMMPSDumpWriter,
//                                    numbers parsed back from the text:         lobs dumpwriter_<q> <out/in>
//   ldata <file> <x> <L> <m> <q>     one-atom LAMMPS data file through LAMMPSDataReader::ReadTopology
//   gwrite <file> <Lx Ly Lz> <x y z> <vx vy vz> <fx fy fz>
//                              one-bead topology (votca units) through the real writer chosen by the file
//                              extension (gro, xyz, pdb, dlph); the checker parses the text
//   gread <file>               one-bead topology, real reader chosen by the extension, FirstFrame:
//                                                                               gobs pos|vel|frc|box a b c
//   xyzcw <file> <x y z>       two atoms (bohr) in a generic container through XYZWriter::Write(container, header)
//                              -> <file>.xyz and PDBWriter::WriteContainer -> <file>.pdb (the checker parses the text)
//   xyzcr <file>               XYZReader::ReadFile(container) (bohr) and, same file, ReadTopology (nm): gobs atoms|top x y z
//   boltznew <n1> <n2>         BondedStatistics over n1 bonds of 1.0 nm and n2 bonds of 2.0 nm + ONE TabulatedPotential
//   boltztab <file> <T> <n>    "tab set T", "tab set n", "tab <file> *" on that object; rows: brow <x> <U> <F>
//   exprs                      products of header constants used in the sources: expr <name> <value>
//   radii <symbol>             getCovRad(ang|bohr|nm|<bad unit>), getVdWChelpG, getVdWMK, getPolarizability
//   element <Z> <symbol>       tools::Elements getters for that number / symbol
//   hnew                       start a call history: a new persistent tools::Elements object
//   hcall <method> <args>      the call on the persistent object AND on a fresh object:
//                                                                               hres <persistent> <fresh>
//                              (each "=<value>" or "!" for an exception)
#include <cmath>
#include <cstdio>
#include <fstream>
#include <iostream>
#include <memory>
#include <sstream>
#include <stdexcept>
#include <string>
#include <vector>

#include <votca/csg/bead.h>
#include <votca/csg/topology.h>
#include <votca/csg/topologyreader.h>
#include <votca/csg/trajectoryreader.h>
#include <votca/csg/trajectorywriter.h>
#include <votca/csg/units.h>
#include <votca/tools/constants.h>
#include <votca/tools/elements.h>
#include <votca/tools/unitconverter.h>

#include <votca/csg/pdbwriter.h>
#include <votca/csg/xyzreader.h>
#include <votca/csg/xyzwriter.h>

#include <votca/csg/beadlist.h>
#include <votca/csg/interaction.h>

#include "csg_boltzmann/bondedstatistics.h"
#include "csg_boltzmann/tabulatedpotential.h"
#include "modules/io/dlpolytrajectoryreader.h"
#include "modules/io/dlpolytrajectorywriter.h"
#include "modules/io/groreader.h"
#include "modules/io/growriter.h"
#include "modules/io/lammpsdatareader.h"
#include "modules/io/pdbreader.h"
#include "modules/io/lammpsdumpreader.h"
#include "modules/io/lammpsdumpwriter.h"

using namespace votca;
using namespace votca::tools;
using namespace votca::csg;

// enumerator -> name; -Werror=switch (units.cmake) makes a new enumerator a build error
// so that the spec's unit tables cannot silently fall behind the header
#define N(x) \
  case T::x: \
    return #x;
static const char *name(DistanceUnit u) {
  using T = DistanceUnit;
  switch (u) { N(meters) N(centimeters) N(nanometers) N(angstroms) N(bohr) }
  return "?";
}
static const char *name(MassUnit u) {
  using T = MassUnit;
  switch (u) {
    N(attograms) N(picograms) N(femtograms) N(atomic_mass_units) N(grams_per_mole) N(kilograms) N(grams)
  }
  return "?";
}
static const char *name(TimeUnit u) {
  using T = TimeUnit;
  switch (u) { N(seconds) N(microseconds) N(nanoseconds) N(femtoseconds) N(picoseconds) }
  return "?";
}
static const char *name(EnergyUnit u) {
  using T = EnergyUnit;
  switch (u) { N(electron_volts) N(kilocalories) N(hartrees) N(joules) N(kilojoules) }
  return "?";
}
static const char *name(MolarEnergyUnit u) {
  using T = MolarEnergyUnit;
  switch (u) {
    N(kilojoules_per_mole)
    N(joules_per_mole) N(kilocalories_per_mole) N(electron_volts_per_mole) N(hartrees_per_mole)
  }
  return "?";
}
static const char *name(ChargeUnit u) {
  using T = ChargeUnit;
  switch (u) { N(e) N(coulombs) }
  return "?";
}
static const char *name(VelocityUnit u) {
  using T = VelocityUnit;
  switch (u) { N(angstroms_per_femtosecond) N(angstroms_per_picosecond) N(nanometers_per_picosecond) }
  return "?";
}
static const char *name(ForceUnit u) {
  using T = ForceUnit;
  switch (u) {
    N(kilocalories_per_angstrom)
    N(newtons) N(kilojoules_per_nanometer) N(kilojoules_per_angstrom) N(hatree_per_bohr)
  }
  return "?";
}
static const char *name(MolarForceUnit u) {
  using T = MolarForceUnit;
  switch (u) {
    N(kilocalories_per_mole_angstrom)
    N(newtons_per_mole)
    N(kilojoules_per_mole_nanometer) N(kilojoules_per_mole_angstrom) N(hatree_per_mole_bohr)
  }
  return "?";
}
#undef N

static std::ostream *outp = nullptr;

template <class E>
static void allPairs(const char *dim, std::initializer_list<E> units) {
  UnitConverter uc;
  for (E a : units)
    for (E b : units)
      *outp << "uc " << dim << " " << name(a) << " " << name(b) << " " << uc.convert(a, b) << std::endl;
}

template <class C>
static void declared(const char *cls, const C &c, bool withTime = true) {
  *outp << "declared " << cls << " distance " << name(c.distance_unit) << std::endl;
  if (withTime) *outp << "declared " << cls << " time " << name(c.time_unit) << std::endl;
  *outp << "declared " << cls << " mass " << name(c.mass_unit) << std::endl;
  *outp << "declared " << cls << " energy " << name(c.energy_unit) << std::endl;
  *outp << "declared " << cls << " charge " << name(c.charge_unit) << std::endl;
  *outp << "declared " << cls << " force " << name(c.force_unit) << std::endl;
}

// one public lookup of tools::Elements; "=<value>" or "!" (exception)
static std::string elementsCall(Elements &el, const std::string &m, std::istringstream args) {
  std::ostringstream o;
  o.precision(17);
  try {
    if (m == "getEleShortClosestInMass" || m == "isMassAssociatedWithElement") {
      double mass, tol;
      args >> mass >> tol;
      if (!args) return "?";
      if (m == "getEleShortClosestInMass")
        o << "=" << el.getEleShortClosestInMass(mass, tol);
      else
        o << "=" << (el.isMassAssociatedWithElement(mass, tol) ? 1 : 0);
    } else if (m == "getEleName") {
      Index z;
      args >> z;
      if (!args) return "?";
      o << "=" << el.getEleName(z);
    } else {
      std::string n;
      args >> n;
      if (!args) return "?";
      if (m == "getCovRadAng" || m == "getCovRadBohr" || m == "getCovRadNm" || m == "getCovRadBadUnit") {
        // a miss dereferences end() in getCovRad: only names the mass table knows are passed on
        Elements probe;
        try {
          probe.getMass(n);
        } catch (const std::exception &) {
          return "?";
        }
        o << "=" << el.getCovRad(n, m == "getCovRadAng" ? "ang" : m == "getCovRadBohr" ? "bohr" : m == "getCovRadNm" ? "nm" : "pm");
      } else if (m == "getMass")
        o << "=" << el.getMass(n);
      else if (m == "getNucCrg")
        o << "=" << el.getNucCrg(n);
      else if (m == "getEleNum")
        o << "=" << el.getEleNum(n);
      else if (m == "getEleFull")
        o << "=" << el.getEleFull(n);
      else if (m == "getEleShort")
        o << "=" << el.getEleShort(n);
      else if (m == "getVdWChelpG")
        o << "=" << el.getVdWChelpG(n);
      else if (m == "getVdWMK")
        o << "=" << el.getVdWMK(n);
      else if (m == "getPolarizability")
        o << "=" << el.getPolarizability(n);
      else if (m == "isEleShort")
        o << "=" << (el.isEleShort(n) ? 1 : 0);
      else if (m == "isEleFull")
        o << "=" << (el.isEleFull(n) ? 1 : 0);
      else if (m == "isElement")
        o << "=" << (el.isElement(n) ? 1 : 0);
      else
        return "?";
    }
  } catch (const std::exception &) {
    return "!";
  }
  return o.str();
}

// a minimal QM-style atom / molecule for the generic-container overloads of the xyz/pdb classes
struct QAtom {
  QAtom(Index id, std::string element, Eigen::Vector3d pos) : id_(id), element_(std::move(element)), pos_(pos) {}
  Index getId() const { return id_; }
  std::string getElement() const { return element_; }
  const Eigen::Vector3d &getPos() const { return pos_; }
  Index id_;
  std::string element_;
  Eigen::Vector3d pos_;
};
struct QMol : std::vector<QAtom> {
  std::string getType() const { return "MOL"; }
  Index getId() const { return 1; }
};

struct NullBuf : std::streambuf {
  int overflow(int c) override { return c; }
};

int main() {
  // the readers chat on std::cout; keep the protocol stream clean
  std::ostream out(std::cout.rdbuf());
  static NullBuf nb;
  std::cout.rdbuf(&nb);
  out.precision(17);
  outp = &out;

  TrajectoryWriter::RegisterPlugins();
  TrajectoryReader::RegisterPlugins();
  TopologyReader::RegisterPlugins();

  std::unique_ptr<Elements> hist;
  std::unique_ptr<Topology> btop;
  std::unique_ptr<BondedStatistics> bstat;
  std::unique_ptr<TabulatedPotential> btab;
  std::string line;
  long seq = 0;
  while (std::getline(std::cin, line)) {
    ++seq;
    std::istringstream in(line);
    std::string cmd;
    in >> cmd;
    out << "cmd " << seq << " " << line << std::endl;
    try {
      if (cmd == "uc") {
        allPairs<DistanceUnit>("Distance", {DistanceUnit::meters, DistanceUnit::centimeters,
                                            DistanceUnit::nanometers, DistanceUnit::angstroms, DistanceUnit::bohr});
        allPairs<MassUnit>("Mass", {MassUnit::attograms, MassUnit::picograms, MassUnit::femtograms,
                                    MassUnit::atomic_mass_units, MassUnit::grams_per_mole, MassUnit::kilograms,
                                    MassUnit::grams});
        allPairs<TimeUnit>("Time", {TimeUnit::seconds, TimeUnit::microseconds, TimeUnit::nanoseconds,
                                    TimeUnit::femtoseconds, TimeUnit::picoseconds});
        allPairs<EnergyUnit>("Energy", {EnergyUnit::electron_volts, EnergyUnit::kilocalories, EnergyUnit::hartrees,
                                        EnergyUnit::joules, EnergyUnit::kilojoules});
        allPairs<MolarEnergyUnit>(
            "MolarEnergy", {MolarEnergyUnit::kilojoules_per_mole, MolarEnergyUnit::joules_per_mole,
                            MolarEnergyUnit::kilocalories_per_mole, MolarEnergyUnit::electron_volts_per_mole,
                            MolarEnergyUnit::hartrees_per_mole});
        allPairs<ChargeUnit>("Charge", {ChargeUnit::e, ChargeUnit::coulombs});
        allPairs<VelocityUnit>("Velocity",
                               {VelocityUnit::angstroms_per_femtosecond, VelocityUnit::angstroms_per_picosecond,
                                VelocityUnit::nanometers_per_picosecond});
        allPairs<ForceUnit>("Force", {ForceUnit::kilocalories_per_angstrom, ForceUnit::newtons,
                                      ForceUnit::kilojoules_per_nanometer, ForceUnit::kilojoules_per_angstrom,
                                      ForceUnit::hatree_per_bohr});
        allPairs<MolarForceUnit>(
            "MolarForce", {MolarForceUnit::kilocalories_per_mole_angstrom, MolarForceUnit::newtons_per_mole,
                           MolarForceUnit::kilojoules_per_mole_nanometer,
                           MolarForceUnit::kilojoules_per_mole_angstrom, MolarForceUnit::hatree_per_mole_bohr});
      } else if (cmd == "const") {
#define C(x) out << "const " #x " " << conv::x << std::endl;
        C(Pi) C(kB) C(hbar) C(bohr2nm) C(nm2bohr) C(ang2bohr) C(bohr2ang) C(nm2ang) C(ang2nm) C(hrt2ev) C(ev2hrt)
        C(ev2kj_per_mol) C(kcal2kj) C(kj2kcal)
#undef C
      } else if (cmd == "declared") {
        CsgUnits cu;
        declared("CsgUnits", cu);
        out << "declared CsgUnits velocity " << name(cu.velocity_unit) << std::endl;
        LAMMPSDumpReader dr;
        declared("LAMMPSDumpReader", dr);
        out << "declared LAMMPSDumpReader velocity " << name(dr.velocity_unit) << std::endl;
        LAMMPSDumpWriter dw;
        declared("LAMMPSDumpWriter", dw);
        out << "declared LAMMPSDumpWriter velocity " << name(dw.velocity_unit) << std::endl;
        LAMMPSDataReader da;
        declared("LAMMPSDataReader", da);
        GROReader gr;
        declared("GROReader", gr);
        out << "declared GROReader velocity " << name(gr.velocity_unit) << std::endl;
        GROWriter gw;
        declared("GROWriter", gw);
        out << "declared GROWriter velocity " << name(gw.velocity_unit) << std::endl;
        DLPOLYTrajectoryReader dlr;
        declared("DLPOLYTrajectoryReader", dlr);
        out << "declared DLPOLYTrajectoryReader velocity " << name(dlr.velocity_unit) << std::endl;
        DLPOLYTrajectoryWriter dlw;
        declared("DLPOLYTrajectoryWriter", dlw);
        out << "declared DLPOLYTrajectoryWriter velocity " << name(dlw.velocity_unit) << std::endl;
        out << "declared XYZReader distance " << name(XYZReader().distance_unit) << std::endl;
        out << "declared XYZWriter distance " << name(XYZWriter().distance_unit) << std::endl;
        out << "declared PDBReader distance " << name(PDBReader().distance_unit) << std::endl;
        out << "declared PDBWriter distance " << name(PDBWriter().distance_unit) << std::endl;
      } else if (cmd == "lexpr") {
        // the same expressions as in the three source files, from the header constants
        out << "lexpr dumpreader_pos " << 1.0 * conv::ang2nm << std::endl;
        out << "lexpr dumpreader_pos_xs " << 1.0 * conv::ang2nm << std::endl;  // fraction * box edge (nm)
        out << "lexpr dumpreader_pos_xu " << 1.0 * conv::ang2nm << std::endl;
        out << "lexpr dumpreader_box " << 1.0 * conv::ang2nm << std::endl;
        out << "lexpr dumpreader_vel " << 1.0 * conv::ang2nm << std::endl;
        out << "lexpr dumpreader_force " << 1.0 * conv::kcal2kj / conv::ang2nm << std::endl;
        out << "lexpr dumpwriter_pos " << 1.0 * conv::nm2ang << std::endl;
        out << "lexpr dumpwriter_box " << 1.0 * conv::nm2ang << std::endl;
        out << "lexpr dumpwriter_vel " << 1.0 * conv::nm2ang << std::endl;
        out << "lexpr dumpwriter_force " << 1.0 * conv::kj2kcal / conv::nm2ang << std::endl;
        out << "lexpr datareader_pos " << 1.0 * conv::ang2nm << std::endl;
        out << "lexpr datareader_box " << 1.0 * conv::ang2nm << std::endl;
        out << "lexpr datareader_mass " << 1.0 << std::endl;
        out << "lexpr datareader_charge " << 1.0 << std::endl;
      } else if (cmd == "lread") {
        // two frames in one file: frame 2 carries the values times -2 (negative, other magnitude); the SAME
        // reader object reads both (FirstFrame, NextFrame); then the rarely used topology path
        // (TopologyReader::ReadTopology of a .dump) reads frame 1 again
        std::string file;
        double x, v, f, L;
        in >> file >> x >> v >> f >> L;
        {
          std::ofstream o(file);
          o.precision(17);
          for (int fr = 0; fr < 2; ++fr) {
            double s = fr == 0 ? 1.0 : -2.0;
            o << "ITEM: TIMESTEP\n" << fr << "\nITEM: NUMBER OF ATOMS\n1\nITEM: BOX BOUNDS pp pp pp\n";
            o << "0 " << L * (fr + 1) << "\n0 " << L * (fr + 1) << "\n0 " << L * (fr + 1) << "\n";
            o << "ITEM: ATOMS id type x y z vx vy vz fx fy fz\n";
            o << "1 1 " << s * x << " " << s * x << " " << s * x << " " << s * v << " " << s * v << " " << s * v << " "
              << s * f << " " << s * f << " " << s * f << "\n";
          }
        }
        Topology top;
        top.CreateResidue("R");
        top.RegisterBeadType("1");
        top.CreateBead(Bead::spherical, "A", "1", 0, 1.0, 0.0);
        std::unique_ptr<TrajectoryReader> r = TrjReaderFactory().Create(file);
        if (!r) throw std::runtime_error("driver: no reader");
        r->Open(file);
        for (int fr = 0; fr < 2; ++fr) {
          if (fr == 0)
            r->FirstFrame(top);
          else
            r->NextFrame(top);
          double s = fr == 0 ? 1.0 : -2.0;
          Bead *b = top.getBead(0);
          for (int k = 0; k < 3; ++k) {
            out << "lobs dumpreader_pos " << b->getPos()[k] / (s * x) << std::endl;
            out << "lobs dumpreader_vel " << b->getVel()[k] / (s * v) << std::endl;
            out << "lobs dumpreader_force " << b->getF()[k] / (s * f) << std::endl;
            out << "lobs dumpreader_box " << top.getBox()(k, k) / (L * (fr + 1)) << std::endl;
          }
          out << "lframe " << fr << std::endl;
        }
        r->Close();
        Topology top2;
        std::unique_ptr<TopologyReader> tr = TopReaderFactory().Create(file);
        if (!tr) throw std::runtime_error("driver: no topology reader for dump");
        tr->ReadTopology(file, top2);
        if (top2.BeadCount() != 1) throw std::runtime_error("driver: bead count from dump topology");
        for (int k = 0; k < 3; ++k) {
          out << "lobs dumpreader_pos " << top2.getBead(0)->getPos()[k] / x << std::endl;
          out << "lobs dumpreader_vel " << top2.getBead(0)->getVel()[k] / v << std::endl;
          out << "lobs dumpreader_force " << top2.getBead(0)->getF()[k] / f << std::endl;
          out << "lobs dumpreader_box " << top2.getBox()(k, k) / L << std::endl;
        }
        out << "ltopology 1" << std::endl;
      } else if (cmd == "lstyle") {
        std::string file, style;
        double L[3], p[2][3];
        in >> file >> style >> L[0] >> L[1] >> L[2];
        for (auto &a : p)
          for (double &c : a) in >> c;
        if (!in) throw std::runtime_error("driver: short lstyle command");
        std::string cols, place;
        if (style == "xyz") {
          cols = "x y z";
          place = "dumpreader_pos";
        } else if (style == "xs") {
          cols = "xs ys zs";
          place = "dumpreader_pos_xs";
        } else if (style == "xu") {
          cols = "xu yu zu";
          place = "dumpreader_pos_xu";
        } else {
          throw std::runtime_error("driver: unknown coordinate style " + style);
        }
        {
          std::ofstream o(file);
          o.precision(17);
          o << "ITEM: TIMESTEP\n0\nITEM: NUMBER OF ATOMS\n2\nITEM: BOX BOUNDS pp pp pp\n";
          for (double l : L) o << "0 " << l << "\n";
          o << "ITEM: ATOMS id type " << cols << "\n";
          for (int a = 0; a < 2; ++a) {
            o << (a + 1) << " 1";
            for (int k = 0; k < 3; ++k) o << " " << (style == "xs" ? p[a][k] / L[k] : p[a][k]);
            o << "\n";
          }
        }
        Topology top;
        top.CreateResidue("R");
        top.RegisterBeadType("1");
        top.CreateBead(Bead::spherical, "A", "1", 0, 1.0, 0.0);
        top.CreateBead(Bead::spherical, "B", "1", 0, 1.0, 0.0);
        std::unique_ptr<TrajectoryReader> r = TrjReaderFactory().Create(file);
        if (!r) throw std::runtime_error("driver: no reader");
        r->Open(file);
        r->FirstFrame(top);
        r->Close();
        for (int a = 0; a < 2; ++a)
          for (int k = 0; k < 3; ++k)
            out << "lobs " << place << " " << top.getBead(a)->getPos()[k] / p[a][k] << std::endl;
        for (int k = 0; k < 3; ++k) out << "lobs dumpreader_box " << top.getBox()(k, k) / L[k] << std::endl;
      } else if (cmd == "lwrite") {
        std::string file;
        double x, v, f, L;
        in >> file >> x >> v >> f >> L;
        Topology top;
        top.CreateResidue("R");
        top.RegisterBeadType("1");
        Bead *b = top.CreateBead(Bead::spherical, "A", "1", 0, 1.0, 0.0);
        b->setPos(Eigen::Vector3d::Constant(x));
        b->setVel(Eigen::Vector3d::Constant(v));
        b->setF(Eigen::Vector3d::Constant(f));
        top.SetHasVel(true);
        top.SetHasForce(true);
        top.setBox(L * Eigen::Matrix3d::Identity());
        top.setStep(0);
        std::unique_ptr<TrajectoryWriter> w = TrjWriterFactory().Create(file);
        if (!w) throw std::runtime_error("driver: no writer");
        w->Open(file, false);
        w->Write(&top);
        w->Close();
        std::ifstream fi(file);
        std::string s;
        std::vector<std::string> lines;
        while (std::getline(fi, s)) lines.push_back(s);
        if (lines.size() != 10) throw std::runtime_error("driver: unexpected dump layout");
        for (int k = 0; k < 3; ++k) {
          std::istringstream bl(lines[5 + k]);
          double lo, hi;
          bl >> lo >> hi;
          out << "lobs dumpwriter_box " << (hi - lo) / L << std::endl;
        }
        if (lines[8] != "ITEM: ATOMS id type x y z vx vy vz fx fy fz")
          throw std::runtime_error("driver: unexpected column header '" + lines[8] + "'");
        std::istringstream al(lines[9]);
        long id, type;
        al >> id >> type;
        double val[9];
        for (double &d : val) al >> d;
        if (!al) throw std::runtime_error("driver: short atom line");
        for (int k = 0; k < 3; ++k) {
          out << "lobs dumpwriter_pos " << val[k] / x << std::endl;
          out << "lobs dumpwriter_vel " << val[3 + k] / v << std::endl;
          out << "lobs dumpwriter_force " << val[6 + k] / f << std::endl;
        }
      } else if (cmd == "ldata") {
        std::string file;
        double x, L, m, q;
        in >> file >> x >> L >> m >> q;
        {
          std::ofstream o(file);
          o.precision(17);
          o << "LAMMPS data file written by the verification driver\n\n";
          o << "1 atoms\n1 atom types\n\n";
          o << "0 " << L << " xlo xhi\n0 " << L << " ylo yhi\n0 " << L << " zlo zhi\n\n";
          o << "Masses\n\n1 " << m << "\n\n";
          o << "Atoms # full\n\n";
          o << "1 1 1 " << q << " " << x << " " << x << " " << x << "\n\n";
        }
        Topology top;
        std::unique_ptr<TopologyReader> r = TopReaderFactory().Create(file);
        if (!r) throw std::runtime_error("driver: no topology reader");
        r->ReadTopology(file, top);
        if (top.BeadCount() != 1) throw std::runtime_error("driver: bead count");
        Bead *b = top.getBead(0);
        for (int k = 0; k < 3; ++k) {
          out << "lobs datareader_pos " << b->getPos()[k] / x << std::endl;
          out << "lobs datareader_box " << top.getBox()(k, k) / L << std::endl;
        }
        out << "lobs datareader_mass " << b->getMass() / m << std::endl;
        out << "lobs datareader_charge " << b->getQ() / q << std::endl;
        // trajectory path of the same class (TrjReaderFactory "data"): a second file with the position and the
        // box times -3 / 3, read into the topology just built
        std::string file2 = file + ".2.data";
        {
          std::ofstream o(file2);
          o.precision(17);
          o << "LAMMPS data file written by the verification driver\n\n";
          o << "1 atoms\n1 atom types\n\n";
          o << "0 " << 3 * L << " xlo xhi\n0 " << 3 * L << " ylo yhi\n0 " << 3 * L << " zlo zhi\n\n";
          o << "Masses\n\n1 " << m << "\n\n";
          o << "Atoms # full\n\n";
          o << "1 1 1 " << q << " " << -3 * x << " " << -3 * x << " " << -3 * x << "\n\n";
        }
        std::unique_ptr<TrajectoryReader> tr = TrjReaderFactory().Create(file2);
        if (!tr) throw std::runtime_error("driver: no trajectory reader for data");
        tr->Open(file2);
        tr->FirstFrame(top);
        tr->Close();
        for (int k = 0; k < 3; ++k) {
          out << "lobs datareader_pos " << top.getBead(0)->getPos()[k] / (-3 * x) << std::endl;
          out << "lobs datareader_box " << top.getBox()(k, k) / (3 * L) << std::endl;
        }
        out << "ltrajectory 1" << std::endl;
      } else if (cmd == "hnew") {
        hist.reset(new Elements());
        out << "ok" << std::endl;
      } else if (cmd == "hcall") {
        if (!hist) throw std::runtime_error("driver: hcall before hnew");
        std::string m, rest;
        in >> m;
        std::getline(in, rest);
        Elements fresh;
        std::string a = elementsCall(*hist, m, std::istringstream(rest));
        std::string b = elementsCall(fresh, m, std::istringstream(rest));
        if (a == "?" || b == "?") throw std::runtime_error("driver: bad hcall " + line);
        out << "hres " << a << " " << b << std::endl;
      } else if (cmd == "gwrite") {
        std::string file;
        double L[3], x[3], v[3], f[3];
        in >> file;
        for (double &d : L) in >> d;
        for (double &d : x) in >> d;
        for (double &d : v) in >> d;
        for (double &d : f) in >> d;
        if (!in) throw std::runtime_error("driver: short gwrite command");
        Topology top;
        top.CreateResidue("RES");
        top.RegisterBeadType("C");
        Bead *b = top.CreateBead(Bead::spherical, "C", "C", 0, 12.0, 0.5);
        b->setPos(Eigen::Vector3d(x[0], x[1], x[2]));
        b->setVel(Eigen::Vector3d(v[0], v[1], v[2]));
        b->setF(Eigen::Vector3d(f[0], f[1], f[2]));
        top.SetHasVel(true);
        top.SetHasForce(true);
        Eigen::Matrix3d box = Eigen::Matrix3d::Zero();
        for (int k = 0; k < 3; ++k) box(k, k) = L[k];
        top.setBox(box);
        top.setStep(7);
        top.setTime(0.25);
        std::unique_ptr<TrajectoryWriter> w = TrjWriterFactory().Create(file);
        if (!w) throw std::runtime_error("driver: no writer");
        w->Open(file, false);
        w->Write(&top);
        w->Close();
        out << "ok" << std::endl;
      } else if (cmd == "gread") {
        std::string file;
        in >> file;
        Topology top;
        top.CreateResidue("RES");
        top.RegisterBeadType("C");
        top.CreateBead(Bead::spherical, "C", "C", 0, 12.0, 0.5);
        std::unique_ptr<TrajectoryReader> r = TrjReaderFactory().Create(file);
        if (!r) throw std::runtime_error("driver: no reader");
        r->Open(file);
        r->FirstFrame(top);
        r->Close();
        Bead *b = top.getBead(0);
        auto V = [&](const char *tag, const Eigen::Vector3d &a) {
          out << "gobs " << tag << " " << a.x() << " " << a.y() << " " << a.z() << std::endl;
        };
        if (b->HasPos()) V("pos", b->getPos());
        if (b->HasVel()) V("vel", b->getVel());
        if (b->HasF()) V("frc", b->getF());
        V("box", top.getBox().diagonal());
      } else if (cmd == "xyzcw") {
        std::string file;
        double x, y, z;
        in >> file >> x >> y >> z;
        if (!in) throw std::runtime_error("driver: short xyzcw command");
        QMol mol;
        mol.push_back(QAtom(0, "C", Eigen::Vector3d(x, y, z)));
        mol.push_back(QAtom(1, "H", Eigen::Vector3d(-2 * x, -2 * y, -2 * z)));
        XYZWriter w;
        w.Open(file + ".xyz", false);
        w.Write(mol, "container frame");
        w.Close();
        PDBWriter pw;
        pw.Open(file + ".pdb", false);
        pw.WriteContainer(mol);
        pw.Close();
        out << "ok" << std::endl;
      } else if (cmd == "xyzcr") {
        std::string file;
        in >> file;
        QMol mol;
        XYZReader r;
        r.Open(file);
        r.ReadFile(mol);
        r.Close();
        for (const QAtom &a : mol)
          out << "gobs atoms " << a.getPos().x() << " " << a.getPos().y() << " " << a.getPos().z() << std::endl;
        Topology top;
        XYZReader r2;
        r2.ReadTopology(file, top);
        for (const Bead &b : top.Beads())
          out << "gobs top " << b.getPos().x() << " " << b.getPos().y() << " " << b.getPos().z() << std::endl;
      } else if (cmd == "boltznew") {
        Index n1, n2;
        in >> n1 >> n2;
        if (!in) throw std::runtime_error("driver: short boltznew command");
        btop.reset(new Topology());
        btop->setBox(1000 * Eigen::Matrix3d::Identity());
        btop->RegisterBeadType("A");
        for (Index i = 0; i < n1 + n2; ++i) {
          double len = i < n1 ? 1.0 : 2.0;
          btop->CreateResidue("R");
          Bead *a = btop->CreateBead(Bead::spherical, "A" + std::to_string(2 * i), "A", i, 1.0, 0.0);
          Bead *b = btop->CreateBead(Bead::spherical, "A" + std::to_string(2 * i + 1), "A", i, 1.0, 0.0);
          a->setPos(Eigen::Vector3d(5.0 * double(i), 0, 0));
          b->setPos(Eigen::Vector3d(5.0 * double(i) + len, 0, 0));
          auto bond = new IBond(2 * i, 2 * i + 1);
          bond->setGroup("bond" + std::to_string(i));  // array names must be unique
          btop->AddBondedInteraction(bond);
        }
        bstat.reset(new BondedStatistics());
        bstat->BeginCG(btop.get(), nullptr);
        bstat->EvalConfiguration(btop.get(), nullptr);
        btab.reset(new TabulatedPotential());
        out << "ok " << bstat->BondedValues().size() << std::endl;
      } else if (cmd == "boltztab") {
        if (!btab) throw std::runtime_error("driver: boltztab before boltznew");
        std::string file, T, n;
        in >> file >> T >> n;
        if (!in) throw std::runtime_error("driver: short boltztab command");
        for (std::vector<std::string> a : {std::vector<std::string>{"set", "T", T}, {"set", "n", n}, {"set", "scale", "no"},
                                          {"set", "auto", "1"}, {file, "*"}}) {
          btab->Command(*bstat, "tab", a);
        }
        std::ifstream fi(file);
        double x, U, F;
        while (fi >> x >> U >> F) out << "brow " << x << " " << U << " " << F << std::endl;
      } else if (cmd == "exprs") {
        // csg/src/csg_boltzmann/tabulatedpotential.cc: k_B T in kJ/mol
        out << "expr kB_times_ev2kj_per_mol " << conv::kB * conv::ev2kj_per_mol << std::endl;
      } else if (cmd == "radii") {
        std::string sym;
        in >> sym;
        Elements el;
        auto S = [&](const char *tag, auto fn) {
          try {
            auto val = fn();
            out << "rad " << tag << " " << val << std::endl;
          } catch (const std::exception &) {
            out << "rad " << tag << " !" << std::endl;
          }
        };
        // getCovRad dereferences end() for a name it does not know: only asked when the mass table knows it
        bool known = true;
        try {
          el.getMass(sym);
        } catch (const std::exception &) {
          known = false;
        }
        if (known) {
          S("covrad_ang", [&] { return el.getCovRad(sym, "ang"); });
          S("covrad_bohr", [&] { return el.getCovRad(sym, "bohr"); });
          S("covrad_nm", [&] { return el.getCovRad(sym, "nm"); });
          S("covrad_badunit", [&] { return el.getCovRad(sym, "pm"); });
          S("covrad_ang_again", [&] { return el.getCovRad(sym, "ang"); });
        }
        S("vdw_chelpg", [&] { return el.getVdWChelpG(sym); });
        S("vdw_mk", [&] { return el.getVdWMK(sym); });
        S("polarizability", [&] { return el.getPolarizability(sym); });
      } else if (cmd == "element") {
        Index z;
        std::string sym;
        in >> z >> sym;
        Elements el;
        auto S = [&](const char *tag, auto fn) {
          try {
            auto val = fn();
            out << "el " << tag << " " << val << std::endl;
          } catch (const std::exception &) {
            out << "el " << tag << " !" << std::endl;
          }
        };
        S("name_of_z", [&] { return el.getEleName(z); });
        S("num_of_sym", [&] { return el.getEleNum(sym); });
        S("crg_of_sym", [&] { return el.getNucCrg(sym); });
        S("mass_of_sym", [&] { return el.getMass(sym); });
        S("mass_via_num", [&] { return el.getMass(el.getEleName(el.getEleNum(sym))); });
        S("full_of_sym", [&] { return el.getEleFull(sym); });
        S("short_of_full", [&] { return el.getEleShort(el.getEleFull(sym)); });
        S("is_short", [&] { return el.isEleShort(sym) ? 1 : 0; });
        S("is_full", [&] { return el.isEleFull(el.getEleFull(sym)) ? 1 : 0; });
        S("closest_in_mass", [&] { return el.getEleShortClosestInMass(el.getMass(sym), 1e-9); });
      } else {
        out << "err unknown command" << std::endl;
      }
    } catch (const std::exception &ex) {
      out << "exc " << ex.what() << std::endl;
    }
  }
  return 0;
}
