# --- C14 KMC event selection (huffmanTree via GNode) and Marcus rates (Rate_Engine on
# Segment/QMPair objects), waiting time (KMCCalculator::Promotetime): the xtp sources under
# test are compiled into the driver.  kmccalculator.cc also contains LoadGraph & co, which
# reference more of xtp: function sections + --gc-sections drop what is not reachable from
# LoadGraph/Promotetime/ChooseHoppingDest.
# huffman.cc alone is compiled with -fno-access-control: it reads the thresholds stored in the
# private huffmanTree::htree and scripts KMCCalculator's private random generator.
verif_xtp_driver(drv_huffman ${D}/huffman.cc
  ${XTP_SRC}/gnode.cc ${XTP_SRC}/rate_engine.cc ${XTP_SRC}/qmpair.cc ${XTP_SRC}/segment.cc
  ${XTP_SRC}/atom.cc ${XTP_SRC}/kmccalculator.cc
  # LoadGraph needs a Topology with a neighbour list
  ${XTP_SRC}/topology.cc ${XTP_SRC}/qmnblist.cc ${XTP_SRC}/checkpoint.cc ${XTP_SRC}/qmstate.cc
  # the real KMCLifetime::RunVSSM
  ${XTP_SRC}/calculators/kmclifetime.cc)
# scripted random numbers: huffman_shim/votca/tools/random.h shadows the repository's header for
# this target only (same class, same members; draws are popped from a script while one is active)
target_include_directories(drv_huffman BEFORE PRIVATE ${D}/huffman_shim)
target_link_libraries(drv_huffman PRIVATE VOTCA::votca_csg)
target_compile_options(drv_huffman PRIVATE -ffunction-sections -fdata-sections)
target_link_options(drv_huffman PRIVATE -Wl,--gc-sections)
set_source_files_properties(${D}/huffman.cc PROPERTIES COMPILE_OPTIONS -fno-access-control)
