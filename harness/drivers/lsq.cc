// Conformance driver for spec/lsq (C06, constrained clause): a dumb executor of
//   cq <m> <n> <p>  A (m*n numbers, row by row)  b (m numbers)  C (p*n numbers, row by row)
// against the real votca::tools::linalg_constrained_qrsolve(A, b, constr).  Prints
//   x <n numbers>      or      exc <what>
// linalg.cc is compiled into this executable with assertions (Eigen index checks throw)
// and ASan/UBSan, so that a wrong block size is reported instead of reading foreign memory.
// The Tikhonov/splitting clauses are bound at executable level (csg_imc_solve), not here.
#include <iostream>
#include <sstream>
#include <stdexcept>
#include <string>

#include <votca/tools/eigen.h>
#include <votca/tools/linalg.h>

using namespace votca;

static Eigen::MatrixXd read_matrix(std::istream& in, long r, long c) {
  Eigen::MatrixXd M(r, c);
  for (long i = 0; i < r; ++i) {
    for (long j = 0; j < c; ++j) {
      double v;
      if (!(in >> v)) throw std::runtime_error("driver: short command line");
      M(i, j) = v;
    }
  }
  return M;
}

int main() {
  std::string line;
  long seq = 0;
  std::cout.precision(17);
  while (std::getline(std::cin, line)) {
    ++seq;
    std::istringstream in(line);
    std::string cmd;
    in >> cmd;
    std::cout << "cmd " << seq << " " << line << std::endl;  // echoed first: a crash is attributable
    try {
      if (cmd == "cq") {
        long m, n, p;
        in >> m >> n >> p;
        Eigen::MatrixXd A = read_matrix(in, m, n);
        Eigen::VectorXd b = read_matrix(in, m, 1).col(0);
        Eigen::MatrixXd C = read_matrix(in, p, n);
        Eigen::VectorXd x = tools::linalg_constrained_qrsolve(A, b, C);
        std::cout << "x";
        for (Index i = 0; i < x.size(); ++i) std::cout << " " << x(i);
        std::cout << std::endl;
      } else {
        std::cout << "exc unknown command" << std::endl;
      }
    } catch (const std::exception& e) {
      std::cout << "exc " << e.what() << std::endl;
    }
  }
  return 0;
}
