// Conformance driver for spec/lsq (C06, constrained clause): a dumb executor of
//   cq <m> <n> <p>  A (m*n numbers, row by row)  b (m numbers)  C (p*n numbers, row by row)
// against the real votca::tools::linalg_constrained_qrsolve(A, b, constr).  Prints
//   x <n numbers>      or      exc <what>
// linalg.cc is compiled into this executable with assertions (Eigen index checks throw)
// and ASan/UBSan, so that a wrong block size is reported instead of reading foreign memory.
// The Tikhonov/splitting clauses are bound at executable level (csg_imc_solve), not here.
// For the csg_fmatch clauses (spec/lsq/Fmatch.tla) the driver is the GENERATOR of the synthetic force field:
//   spl <min> <max> <step> <n> y1..yn <m> r1..rm
//        grid by CubicSpline::GenerateGrid(min,max,step) (must give n points), natural cubic spline through
//        the knot values by the real CubicSpline::Interpolate, prints  g <n grid points>  and  v <m values Calculate(r)>
//   cqseq   a call history of linalg_constrained_qrsolve on one (rewritten or fresh) constraint matrix object, see below
//   spd ... spline from given (y, y'') evaluated by Calculate;  ia ... variable and gradients of a real IAngle/IDihedral
//   fconv   prints the force conversion of the lammps dump reader (tools::conv::kcal2kj / tools::conv::ang2nm)
#include <iostream>
#include <memory>
#include <sstream>
#include <stdexcept>
#include <string>

#include <votca/tools/constants.h>
#include <votca/tools/cubicspline.h>
#include <votca/tools/eigen.h>
#include <votca/tools/linalg.h>

#include <votca/csg/interaction.h>
#include <votca/csg/topology.h>

using namespace votca;

static Eigen::MatrixXd read_matrix(std::istream& in, long r, long c) {
  Eigen::MatrixXd M(r, c);
  for (long i = 0; i < r; ++i) {
    for (long j = 0; j < c; ++j) {
      double v;
      if (!(in >> v)) throw std::runtime_error("driver: short command line");
      M(i, j) = v;
    }
  }
  return M;
}

int main() {
  std::string line;
  long seq = 0;
  std::cout.precision(17);
  while (std::getline(std::cin, line)) {
    ++seq;
    std::istringstream in(line);
    std::string cmd;
    in >> cmd;
    std::cout << "cmd " << seq << " " << line << std::endl;  // echoed first: a crash is attributable
    try {
      if (cmd == "cq") {
        long m, n, p;
        in >> m >> n >> p;
        Eigen::MatrixXd A = read_matrix(in, m, n);
        Eigen::VectorXd b = read_matrix(in, m, 1).col(0);
        Eigen::MatrixXd C = read_matrix(in, p, n);
        Eigen::VectorXd x = tools::linalg_constrained_qrsolve(A, b, C);
        std::cout << "x";
        for (Index i = 0; i < x.size(); ++i) std::cout << " " << x(i);
        std::cout << std::endl;
      } else if (cmd == "cqseq") {
        // cqseq <L> <m> <n> <p>  then L times:  <mode> A b C   (mode "inplace": the constraint matrix object of the
        // previous call is rewritten entry by entry - same address, same shape; "fresh": a newly allocated object)
        long L, m, n, p;
        in >> L >> m >> n >> p;
        Eigen::MatrixXd A(m, n);
        Eigen::VectorXd b(m);
        std::unique_ptr<Eigen::MatrixXd> C(new Eigen::MatrixXd(p, n));
        for (long c = 0; c < L; ++c) {
          std::string mode;
          in >> mode;
          A = read_matrix(in, m, n);
          b = read_matrix(in, m, 1).col(0);
          Eigen::MatrixXd Cin = read_matrix(in, p, n);
          const double* before = C->data();
          if (mode == "inplace") {
            for (long i = 0; i < p; ++i)
              for (long j = 0; j < n; ++j) (*C)(i, j) = Cin(i, j);
          } else {
            C.reset(new Eigen::MatrixXd(Cin));
          }
          try {
            Eigen::VectorXd x = tools::linalg_constrained_qrsolve(A, b, *C);
            std::cout << "x";
            for (Index i = 0; i < x.size(); ++i) std::cout << " " << x(i);
            std::cout << " sameaddr " << (before == C->data() ? 1 : 0) << std::endl;
          } catch (const std::exception& e) {
            std::cout << "exc " << e.what() << std::endl;
          }
        }
      } else if (cmd == "spl") {
        double mn, mx, h;
        long n, m;
        in >> mn >> mx >> h >> n;
        tools::CubicSpline sp;
        Index ng = sp.GenerateGrid(mn, mx, h);
        if (ng != n) throw std::runtime_error("driver: GenerateGrid gives another number of points");
        Eigen::VectorXd x(n);
        for (long i = 0; i < n; ++i) x(i) = sp.getGridPoint(int(i));
        Eigen::VectorXd y = read_matrix(in, n, 1).col(0);
        sp.Interpolate(x, y);
        in >> m;
        Eigen::VectorXd r = read_matrix(in, m, 1).col(0);
        std::cout << "g";
        for (long i = 0; i < n; ++i) std::cout << " " << x(i);
        std::cout << std::endl << "v";
        for (long i = 0; i < m; ++i) std::cout << " " << sp.Calculate(r(i));
        std::cout << std::endl;
      } else if (cmd == "spd") {
        // spd <min> <max> <step> <n> y1..yn f2_1..f2_n <m> r1..rm : spline from GIVEN knot values and second
        // derivatives (setSplineData), evaluated by Calculate - no continuity/boundary code involved
        double mn, mx, h;
        long n, m;
        in >> mn >> mx >> h >> n;
        tools::CubicSpline sp;
        Index ng = sp.GenerateGrid(mn, mx, h);
        if (ng != n) throw std::runtime_error("driver: GenerateGrid gives another number of points");
        Eigen::VectorXd y = read_matrix(in, n, 1).col(0);
        Eigen::VectorXd y2 = read_matrix(in, n, 1).col(0);
        sp.setSplineData(y, y2);
        in >> m;
        Eigen::VectorXd r = read_matrix(in, m, 1).col(0);
        std::cout << "v";
        for (long i = 0; i < m; ++i) std::cout << " " << sp.Calculate(r(i));
        std::cout << std::endl;
      } else if (cmd == "ia") {
        // ia <angle|dihedral> x y z ... (3 or 4 beads, nm): the real interaction's variable and gradients (open box)
        std::string kind;
        in >> kind;
        long nbd = kind == "angle" ? 3 : 4;
        csg::Topology top;
        top.setBox(Eigen::Matrix3d::Zero(), csg::BoundaryCondition::typeOpen);
        for (long i = 0; i < nbd; ++i) {
          Eigen::Vector3d p;
          in >> p[0] >> p[1] >> p[2];
          csg::Bead* b = top.CreateBead(csg::Bead::spherical, "b" + std::to_string(i), "A", 0, 1.0, 0.0);
          b->setPos(p);
        }
        std::unique_ptr<csg::Interaction> ia;
        if (kind == "angle") ia.reset(new csg::IAngle(0, 1, 2));
        else ia.reset(new csg::IDihedral(0, 1, 2, 3));
        std::cout << "res " << ia->EvaluateVar(top);
        for (long i = 0; i < nbd; ++i) {
          Eigen::Vector3d g = ia->Grad(top, i);
          std::cout << " " << g[0] << " " << g[1] << " " << g[2];
        }
        std::cout << std::endl;
      } else if (cmd == "fconv") {
        std::cout << "fconv " << tools::conv::kcal2kj / tools::conv::ang2nm << std::endl;
      } else {
        std::cout << "exc unknown command" << std::endl;
      }
    } catch (const std::exception& e) {
      std::cout << "exc " << e.what() << std::endl;
    }
  }
  return 0;
}
