# --- C12 splines/tables: LinSpline/CubicSpline/AkimaSpline and Table from the real votca_tools library
# (the csg_resample executable is built as a target of the repository itself).
verif_driver(drv_spline ${D}/spline.cc)
